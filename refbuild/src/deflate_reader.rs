/*---------------------------------------------------------------------------------------------
 *  Copyright (c) Microsoft Corporation. All rights reserved.
 *  Licensed under the Apache License, Version 2.0. See LICENSE.txt in the project root for license information.
 *  This software incorporates material from third parties. See NOTICE.txt for details.
 *--------------------------------------------------------------------------------------------*/

use crate::preflate_error::{err_exit_code, AddContext, ExitCode, Result};

use std::io::Read;

use crate::{
    bit_reader::BitReader,
    huffman_encoding::{HuffmanOriginalEncoding, HuffmanReader},
    preflate_constants,
    preflate_token::{BlockType, PreflateTokenBlock},
};

/// Used to read binary data in deflate format and convert it to plaintext and a list of tokenized blocks
/// containing the literals and distance codes that were used to compress the file
pub struct DeflateReader<R> {
    input: BitReader<R>,
    plain_text: Vec<u8>,
}

impl<R: Read> DeflateReader<R> {
    pub fn new(compressed_text: R) -> Self {
        DeflateReader {
            input: BitReader::new(compressed_text),
            plain_text: Vec::new(),
        }
    }

    /// reads the padding at the end of the file
    pub fn read_eof_padding(&mut self) -> u8 {
        let padding_bit_count = 8 - self.input.bit_position_in_current_byte() as u8;
        self.input.get(padding_bit_count.into()).unwrap() as u8
    }

    /// moves ownership out of block reader
    pub fn move_plain_text(&mut self) -> Vec<u8> {
        std::mem::take(&mut self.plain_text)
    }

    fn read_bit(&mut self) -> Result<bool> {
        Ok(self.input.get(1)? != 0)
    }

    fn read_bits(&mut self, cbits: u32) -> std::io::Result<u32> {
        self.input.get(cbits)
    }

    fn write_literal(&mut self, byte: u8) {
        self.plain_text.push(byte);
    }

    fn write_reference(&mut self, dist: u32, len: u32) {
        let start = self.plain_text.len() - dist as usize;
        for i in 0..len {
            let byte = self.plain_text[start + i as usize];
            self.plain_text.push(byte);
        }
    }

    pub fn read_block(&mut self, last: &mut bool) -> Result<PreflateTokenBlock> {
        let mut blk;

        *last = self.read_bit()?;
        let mode = self.read_bits(2)?;

        match mode {
            0 => {
                blk = PreflateTokenBlock::new(BlockType::Stored);
                blk.block_type = BlockType::Stored;
                let padding_bit_count = 8 - self.input.bit_position_in_current_byte() as u8;
                blk.padding_bits = self.read_bits(padding_bit_count.into())? as u8;

                let len = self.read_bits(16)?;
                let ilen = self.read_bits(16)?;
                if (len ^ ilen) != 0xffff {
                    return err_exit_code(ExitCode::AnalyzeFailed, "Block length mismatch");
                }
                blk.context_len = 0;

                self.input.flush_buffer_to_byte_boundary();

                for _i in 0..len {
                    let b = self.input.read_byte()?;
                    blk.uncompressed.push(b);
                    self.write_literal(b);
                }

                Ok(blk)
            }
            1 => {
                blk = PreflateTokenBlock::new(BlockType::StaticHuff);
                let decoder = HuffmanReader::create_fixed()?;
                self.decode_block(&decoder, &mut blk)?;
                Ok(blk)
            }

            2 => {
                blk = PreflateTokenBlock::new(BlockType::DynamicHuff);

                blk.huffman_encoding = HuffmanOriginalEncoding::read(&mut self.input)?;

                let decoder = HuffmanReader::create_from_original_encoding(&blk.huffman_encoding)?;

                self.decode_block(&decoder, &mut blk).context()?;
                Ok(blk)
            }

            _ => err_exit_code(ExitCode::InvalidDeflate, "Invalid block type"),
        }
    }

    fn decode_block(
        &mut self,
        decoder: &HuffmanReader,
        blk: &mut PreflateTokenBlock,
    ) -> Result<()> {
        let mut earliest_reference = i32::MAX;
        let mut cur_pos = 0;

        loop {
            let lit_len: u32 = decoder.fetch_next_literal_code(&mut self.input)?.into();
            if lit_len < 256 {
                self.write_literal(lit_len as u8);
                blk.add_literal(lit_len as u8);
                cur_pos += 1;
            } else if lit_len == 256 {
                blk.context_len = -earliest_reference;
                break;
            } else {
                let lcode: u32 = lit_len - preflate_constants::NONLEN_CODE_COUNT as u32;
                if lcode >= preflate_constants::LEN_CODE_COUNT as u32 {
                    return err_exit_code(ExitCode::InvalidDeflate, "Invalid length code");
                }
                let len: u32 = preflate_constants::MIN_MATCH
                    + preflate_constants::LENGTH_BASE_TABLE[lcode as usize] as u32
                    + self
                        .read_bits(preflate_constants::LENGTH_EXTRA_TABLE[lcode as usize].into())?;

                // length of 258 can be encoded two ways: 284 with 5 one bits (non-standard) or as 285 with 0 extra bits (standard)
                let irregular_258 =
                    len == 258 && lcode != preflate_constants::LEN_CODE_COUNT as u32 - 1;

                let dcode = decoder.fetch_next_distance_char(&mut self.input)? as u32;
                if dcode >= preflate_constants::DIST_CODE_COUNT as u32 {
                    return err_exit_code(ExitCode::InvalidDeflate, "Invalid distance code");
                }
                let dist = 1
                    + preflate_constants::DIST_BASE_TABLE[dcode as usize] as u32
                    + self
                        .read_bits(preflate_constants::DIST_EXTRA_TABLE[dcode as usize].into())?;
                if dist as usize > self.plain_text.len() {
                    return err_exit_code(ExitCode::InvalidDeflate, "Invalid distance");
                }
                self.write_reference(dist, len);
                blk.add_reference(len, dist, irregular_258);

                earliest_reference = std::cmp::min(earliest_reference, cur_pos - (dist as i32));
                cur_pos += len as i32;
            }
        }
        Ok(())
    }
}
