/*---------------------------------------------------------------------------------------------
 *  Copyright (c) Microsoft Corporation. All rights reserved.
 *  Licensed under the Apache License, Version 2.0. See LICENSE.txt in the project root for license information.
 *  This software incorporates material from third parties. See NOTICE.txt for details.
 *--------------------------------------------------------------------------------------------*/

use default_boxed::DefaultBoxed;

use crate::{
    bit_helper::DebugHash,
    hash_algorithm::{HashImplementation, LibdeflateHash3Secondary, LibdeflateHash4},
    preflate_input::PreflateInput,
};

pub const MAX_UPDATE_HASH_BATCH: u32 = 0x180;

#[derive(Default, Copy, Clone, Eq, PartialEq, Debug)]
#[repr(C)]
struct InternalPosition {
    pos: u16,
}

impl InternalPosition {
    fn reshift(&self, other: u16) -> Self {
        Self {
            pos: self.pos.saturating_sub(other),
        }
    }

    fn to_index(self) -> usize {
        usize::from(self.pos)
    }

    fn inc(&self) -> Self {
        Self { pos: self.pos + 1 }
    }

    fn is_valid(&self) -> bool {
        self.pos > 0
    }

    fn dist(&self, pos: InternalPosition) -> u32 {
        u32::from(self.pos - pos.pos)
    }
}

impl InternalPosition {
    fn from_absolute(pos: u32, total_shift: i32) -> Self {
        Self {
            pos: u16::try_from(pos as i32 - total_shift).unwrap(),
        }
    }
}

#[derive(DefaultBoxed)]
#[repr(C, align(64))]
struct HashTable {
    /// Represents the head of the hash chain for a given hash value, or zero
    /// if there is none. In order to find additional matches, you follow the prev
    /// chain from the head.
    ///
    /// (We start reading with an offset of -8 to avoid confusion with the end of
    /// the chain, so the first offset will be 8)
    head: [InternalPosition; 65536],

    /// Represents the prev chain for a given position. This is used to find
    /// all the potential matches for a given hash. The value points to previous
    /// position in the chain, or 0 if there are no more matches.
    prev: [InternalPosition; 65536],
}

impl HashTable {
    #[inline]
    fn get_head(&self, h: u16) -> InternalPosition {
        self.head[usize::from(h)]
    }

    #[inline]
    fn update_chain<H: HashImplementation>(
        &mut self,
        hash: H,
        chars: &[u8],
        mut pos: InternalPosition,
        length: u32,
    ) {
        debug_assert!(length as usize <= chars.len());
        if length as usize + H::num_hash_bytes() - 1 >= chars.len() {
            // reached on of the stream so there will be no more matches
            return;
        }

        for i in 0..length {
            {
                let h = hash.get_hash(&chars[i as usize..]);

                self.prev[pos.to_index()] = self.head[usize::from(h)];

                self.head[usize::from(h)] = pos;
            }

            pos = pos.inc();
        }
    }

    fn reshift<const DELTA: usize>(&mut self) {
        for x in self.head.iter_mut() {
            *x = x.reshift(DELTA as u16);
        }

        for i in DELTA..=65535 {
            self.prev[i - DELTA] = self.prev[i].reshift(DELTA as u16);
        }
    }
}

pub trait HashChain {
    fn iterate<'a>(&'a self, input: &PreflateInput, offset: u32) -> impl Iterator<Item = u32> + 'a;

    fn update_hash(&mut self, input: &[u8], pos: u32, length: u32);

    fn checksum(&self, checksum: &mut DebugHash);
}

/// This hash chain algorithm periodically normalizes the hash table
pub struct HashChainNormalize<H: HashImplementation> {
    hash_table: Box<HashTable>,
    total_shift: i32,
    hash: H,
}

impl<H: HashImplementation> HashChainNormalize<H> {
    pub fn new(hash: H) -> Self {
        // Important: total_shift starts at -8 since 0 indicates the end of the hash chain
        // so this means that all valid values will be >= 8, otherwise the very first hash
        // offset would be zero and so it would get missed
        HashChainNormalize {
            total_shift: -8,
            hash_table: HashTable::default_boxed(),
            hash: hash,
        }
    }

    fn reshift(&mut self) {
        const DELTA: usize = 0x7e00;

        self.hash_table.reshift::<DELTA>();

        self.total_shift += DELTA as i32;
    }
}

impl<H: HashImplementation> HashChain for HashChainNormalize<H> {
    #[inline]
    fn iterate<'a>(&'a self, input: &PreflateInput, offset: u32) -> impl Iterator<Item = u32> + 'a {
        let ref_pos = InternalPosition::from_absolute(input.pos() + offset, self.total_shift);

        // if we have a match that needs to be inserted at the head first before
        // we start walking the chain
        let mut first_match = None;

        let h1 = self.hash.get_hash(input.cur_chars(0));

        let curr_hash;

        if offset == 0 {
            curr_hash = h1;
        } else {
            assert_eq!(offset, 1);

            // current hash is the next hash since we are starting at offset 1
            curr_hash = self.hash.get_hash(input.cur_chars(1));

            // we are a lazy match, then we haven't added the last byte to the hash yet
            // which is a problem if that hash should have been part of this hash chain
            // (ie the same hash chain) and we have a limited number of enumerations
            // throught the hash chain.
            //
            // In order to fix this, we see if the hashes are the same, and then add
            // a distance 1 item to the iterator that we return.
            if h1 == curr_hash {
                first_match = Some(1);
            }
        }

        let mut cur_pos = self.hash_table.get_head(curr_hash);

        std::iter::from_fn(move || {
            if let Some(d) = first_match {
                first_match = None;
                Some(d)
            } else if cur_pos.is_valid() {
                let d = ref_pos.dist(cur_pos);
                cur_pos = self.hash_table.prev[cur_pos.to_index()];
                Some(d)
            } else {
                None
            }
        })
    }

    #[allow(dead_code)]
    fn checksum(&self, _checksum: &mut DebugHash) {
        //checksum.update_slice(&self.hash_table.chain_depth);
        //checksum.update_slice(&self.hash_table.head);
        //checksum.update_slice(&self.hash_table.prev);
        //checksum.update(self.hash_shift);
        //checksum.update(self.running_hash.hash(self.hash_mask));
        //checksum.update(self.total_shift);
    }

    #[inline]
    fn update_hash(&mut self, input: &[u8], pos: u32, length: u32) {
        assert!(length <= MAX_UPDATE_HASH_BATCH);

        if pos as i32 - self.total_shift >= 0xfe08 {
            self.reshift();
        }

        let pos = InternalPosition::from_absolute(pos, self.total_shift);

        self.hash_table.update_chain(self.hash, input, pos, length);
    }
}

/// implementation of the hash chain that uses the libdeflate rotating hash.
/// This consists of two hash tables, one for length 3 and one for length 4.
pub struct HashChainNormalizeLibflate4 {
    hash_table: Box<HashTable>,
    hash_table_3: Box<HashTable>,
    total_shift: i32,
}

impl HashChainNormalizeLibflate4 {
    pub fn new() -> Self {
        // Important: total_shift starts at -8 since 0 indicates the end of the hash chain
        // so this means that all valid values will be >= 8, otherwise the very first hash
        // offset would be zero and so it would get missed
        HashChainNormalizeLibflate4 {
            total_shift: -8,
            hash_table: HashTable::default_boxed(),
            hash_table_3: HashTable::default_boxed(),
        }
    }
}

const LIBFLATE_HASH_3: LibdeflateHash3Secondary = LibdeflateHash3Secondary {};
const LIBFLATE_HASH_4: LibdeflateHash4 = LibdeflateHash4 {};

impl HashChain for HashChainNormalizeLibflate4 {
    fn iterate<'a>(&'a self, input: &PreflateInput, offset: u32) -> impl Iterator<Item = u32> + 'a {
        let ref_pos = InternalPosition::from_absolute(input.pos() + offset, self.total_shift);

        // if we have a match that needs to be inserted at the head first before
        // we start walking the chain
        let mut first_match = None;

        let mut cur_pos;

        if offset == 0 {
            // for libflate, we look once at the 3 length hash table for a match
            // and then walk the length 4 hash table
            let curr_hash = LIBFLATE_HASH_3.get_hash(input.cur_chars(0));
            let start_pos = self.hash_table_3.get_head(curr_hash);

            if start_pos.is_valid() {
                first_match = Some(ref_pos.dist(start_pos));
            }

            let curr_hash = LIBFLATE_HASH_4.get_hash(input.cur_chars(0));
            cur_pos = self.hash_table.get_head(curr_hash);
        } else {
            assert_eq!(offset, 1);

            // current hash is the next hash since we are starting at offset 1
            let curr_hash = LIBFLATE_HASH_4.get_hash(input.cur_chars(1));

            // we are a lazy match, then we haven't added the last byte to the hash yet
            // which is a problem if that hash should have been part of this hash chain
            // (ie the same hash chain) and we have a limited number of enumerations
            // throught the hash chain.
            //
            // In order to fix this, we see if the hashes are the same, and then add
            // a distance 1 item to the iterator that we return.
            let prev_hash = LIBFLATE_HASH_4.get_hash(input.cur_chars(0));
            if prev_hash == curr_hash {
                first_match = Some(1);
            }

            cur_pos = self.hash_table.get_head(curr_hash);
        }

        std::iter::from_fn(move || {
            if let Some(d) = first_match {
                first_match = None;
                Some(d)
            } else if cur_pos.is_valid() {
                let d = ref_pos.dist(cur_pos);
                cur_pos = self.hash_table.prev[cur_pos.to_index()];
                Some(d)
            } else {
                None
            }
        })
    }

    #[allow(dead_code)]
    fn checksum(&self, _checksum: &mut DebugHash) {
        //checksum.update_slice(&self.hash_table.chain_depth);
    }

    fn update_hash(&mut self, input: &[u8], pos: u32, length: u32) {
        assert!(length <= MAX_UPDATE_HASH_BATCH);

        if pos as i32 - self.total_shift >= 0xfe08 {
            const DELTA: usize = 0x7e00;

            self.hash_table.reshift::<DELTA>();
            self.hash_table_3.reshift::<DELTA>();

            self.total_shift += DELTA as i32;
        }

        let pos = InternalPosition::from_absolute(pos, self.total_shift);

        self.hash_table
            .update_chain(LIBFLATE_HASH_4, input, pos, length);

        self.hash_table_3
            .update_chain(LIBFLATE_HASH_3, input, pos, length);
    }
}
