/// Different versions of Zlib use some length criterea to decide whether to add all the substrings of
/// a large match to the hash table. For example, zlib level 1 will only add all the substrings of matches
/// of length 4 in order to save on CPU.
///
/// What we do here is walk through all the matches and record how long the matching
/// substrings are. The we see what the largest string was that we fully added to the
/// dictionary.
///
/// This will be the limit that we use when we decide whether to
/// use skip_hash or update_hash.
use crate::preflate_token::{BlockType, PreflateToken, PreflateTokenBlock};

#[derive(Default, Eq, PartialEq, Debug, Clone, Copy)]
pub enum DictionaryAddPolicy {
    /// Add all substrings of a match to the dictionary
    #[default]
    AddAll,
    /// Add only the first substring of a match to the dictionary that are larger than the limit
    AddFirst(u16),
    /// Add only the first and last substring of a match to the dictionary that are larger than the limit
    AddFirstAndLast(u16),

    /// This policy is used by MiniZ in fastest mode. It adds all substrings of a match to the dictionary except
    /// literals that are 4 bytes away from the end of the block.
    AddFirstExcept4kBoundary,

    /// This policy is used by fast mode in zlibng, it is the same
    /// as AddFirst(0) but it also add the last character for the
    /// last match in the 32k window.
    ///
    /// This is due to the fact that
    /// each time the dictionary is reset, it explicitly adds the
    /// last character to the dictionary which ends up being the
    /// last chacacter of the previous match.
    AddFirstWith32KBoundary,
}

impl DictionaryAddPolicy {
    /// Updates the hash based on the dictionary add policy
    pub fn update_hash<U: FnMut(&[u8], u32, u32)>(
        &self,
        input: &[u8],
        pos: u32,
        length: u32,
        mut update_fn: U,
    ) {
        if length == 1 {
            update_fn(input, pos, 1);
        } else {
            match *self {
                DictionaryAddPolicy::AddAll => update_fn(input, pos, length),
                DictionaryAddPolicy::AddFirst(limit) => {
                    if length <= u32::from(limit) {
                        update_fn(input, pos, length);
                    } else {
                        update_fn(input, pos, 1);
                    }
                }
                DictionaryAddPolicy::AddFirstAndLast(limit) => {
                    if length <= u32::from(limit) {
                        update_fn(input, pos, length);
                    } else {
                        update_fn(input, pos, 1);
                        update_fn(&input[length as usize - 1..], pos + length - 1, 1);
                    }
                }
                DictionaryAddPolicy::AddFirstExcept4kBoundary => {
                    if (pos & 4095) < 4093 {
                        update_fn(input, pos, 1);
                    }
                }
                DictionaryAddPolicy::AddFirstWith32KBoundary => {
                    update_fn(input, pos, 1);
                    if is_at_32k_boundary(length, pos) {
                        update_fn(&input[length as usize - 1..], pos + length - 1, 1);
                    }
                }
            }
        }
    }
}

/// Check if the match is crossing the 32k boundary as which happens
/// in zlibng.  
fn is_at_32k_boundary(length: u32, pos: u32) -> bool {
    length > 1
        && (((pos) & 0x7fff) <= (32768 - 0x106))
        && (((pos + length) & 0x7fff) >= (32768 - 0x106))
}

/// When adding matches to the dictionary, some of the fast variants
/// only add smaller strings in their entirety (ie a substring starting
/// at each position). This function is designed to measure this
/// and determine the policy that should be used.
pub fn estimate_add_policy(token_blocks: &[PreflateTokenBlock]) -> DictionaryAddPolicy {
    const WINDOW_MASK: usize = 0x7fff;

    // used to see if we have the special case of not adding matches on the edge
    // of the 4k boundary. This is used by miniz.
    let mut block_4k = true;

    let mut current_window = vec![0u16; WINDOW_MASK + 1];

    // tracks the maximum length that we've see that was added to the dictionary
    let mut max_length: u32 = 0;

    // tracks the maximum length that we've seen that was added to the dictionary if the last match was also added
    let mut max_length_last_add = 0;

    // same as previous, but tracks if we are inside the 32k boundary
    let mut last_outside_32k_seen = false;

    let mut current_offset: u32 = 0;

    const LAST_ADDED: u16 = 0x8000;
    const LAST_32K: u16 = 0x4000;

    const MASK: u16 = 0x0fff;

    let mut min_len = u32::MAX;

    for i in 0..token_blocks.len() {
        let token_block = &token_blocks[i];

        match token_block.block_type {
            BlockType::Stored => {
                // we assume for stored blocks everything was added to the dictionary
                for _i in 0..token_block.uncompressed.len() {
                    current_window[current_offset as usize & WINDOW_MASK] = 0;
                    current_offset += 1;
                }
            }
            BlockType::StaticHuff | BlockType::DynamicHuff => {
                for token in token_block.tokens.iter() {
                    match token {
                        PreflateToken::Literal(_) => {
                            current_window[current_offset as usize & WINDOW_MASK] = 0;
                            current_offset += 1;
                        }
                        PreflateToken::Reference(r) => {
                            // track if we saw something  on the of the 4k boundary
                            if (current_offset & 4095) >= 4093 {
                                block_4k = false;
                            }

                            min_len = std::cmp::min(min_len, r.len());

                            let previous_match =
                                current_window[(current_offset - r.dist()) as usize & WINDOW_MASK];

                            let match_length = u32::from(previous_match & MASK);

                            max_length = std::cmp::max(max_length, match_length);
                            if (previous_match & LAST_ADDED) == 0 {
                                max_length_last_add =
                                    std::cmp::max(max_length_last_add, match_length);
                            }

                            if match_length != 0 && (previous_match & LAST_32K) == 0 {
                                last_outside_32k_seen = true;
                            }

                            let last = LAST_ADDED
                                | if is_at_32k_boundary(r.len(), current_offset) {
                                    LAST_32K
                                } else {
                                    0
                                };

                            current_window[current_offset as usize & WINDOW_MASK] = 0;
                            current_offset += 1;

                            for i in 1..r.len() {
                                current_window[current_offset as usize & WINDOW_MASK] =
                                    r.len() as u16 | if i == r.len() - 1 { last } else { 0 };
                                current_offset += 1;
                            }
                        }
                    }
                }
            }
        }
    }

    if max_length == 0 && block_4k {
        DictionaryAddPolicy::AddFirstExcept4kBoundary
    } else if !last_outside_32k_seen {
        DictionaryAddPolicy::AddFirstWith32KBoundary
    } else if max_length_last_add < max_length {
        // the limit travels in an 8 bit field of the parameter header
        DictionaryAddPolicy::AddFirstAndLast(std::cmp::min(max_length_last_add, 255) as u16)
    } else if max_length < 258 {
        DictionaryAddPolicy::AddFirst(std::cmp::min(max_length, 255) as u16)
    } else {
        DictionaryAddPolicy::AddAll
    }
}

#[test]
fn verify_miniz1_recognition() {
    let v = crate::process::read_file("compressed_minizoxide_level1.deflate");

    let contents = crate::process::parse_deflate(&v, 1).unwrap();

    let add_policy = estimate_add_policy(&contents.blocks);

    assert_eq!(add_policy, DictionaryAddPolicy::AddFirstExcept4kBoundary);
}

#[test]
fn verify_zlib_level_recognition() {
    let levels = [
        DictionaryAddPolicy::AddFirst(4),
        DictionaryAddPolicy::AddFirst(5),
        DictionaryAddPolicy::AddFirst(6),
        DictionaryAddPolicy::AddAll,
    ];

    for i in 1..=4 {
        let v = crate::process::read_file(&format!("compressed_zlib_level{}.deflate", i));

        let contents = crate::process::parse_deflate(&v, 1).unwrap();
        let add_policy = estimate_add_policy(&contents.blocks);

        assert_eq!(add_policy, levels[i - 1]);
    }
}

#[test]
fn verify_zlibng_level_recognition() {
    let levels = [
        DictionaryAddPolicy::AddFirstWith32KBoundary, // 1 quick
        DictionaryAddPolicy::AddFirstAndLast(4),      // 2 fast
        DictionaryAddPolicy::AddFirstAndLast(96),     // 3 medium
        DictionaryAddPolicy::AddFirstAndLast(191),    // 4 medium
    ];

    for i in 1..=4 {
        let v = crate::process::read_file(&format!("compressed_zlibng_level{}.deflate", i));

        let contents = crate::process::parse_deflate(&v, 1).unwrap();
        let add_policy = estimate_add_policy(&contents.blocks);

        assert_eq!(add_policy, levels[i - 1]);
    }
}

/// libflate always adds all matches to the dictionary
#[test]
fn verify_libdeflate_level_recognition() {
    for i in 1..=9 {
        let v = crate::process::read_file(&format!("compressed_libdeflate_level{}.deflate", i));

        let contents = crate::process::parse_deflate(&v, 1).unwrap();
        let add_policy = estimate_add_policy(&contents.blocks);

        assert_eq!(add_policy, DictionaryAddPolicy::AddAll);
    }
}
