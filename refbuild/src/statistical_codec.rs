/*---------------------------------------------------------------------------------------------
 *  Copyright (c) Microsoft Corporation. All rights reserved.
 *  Licensed under the Apache License, Version 2.0. See LICENSE.txt in the project root for license information.
 *  This software incorporates material from third parties. See NOTICE.txt for details.
 *--------------------------------------------------------------------------------------------*/

/// boolean misprediction indictions
#[derive(Copy, Clone, Debug, Eq, PartialEq)]
pub enum CodecMisprediction {
    EOFMisprediction,
    LiteralPredictionWrong,
    ReferencePredictionWrong,
    IrregularLen258,

    TreeCodeCountMisprediction,
    LiteralCountMisprediction,
    DistanceCountMisprediction,
    MAX,
}

/// correction indictions, which are followed by a 16 bit value
#[derive(Copy, Clone, Debug, Eq, PartialEq)]
pub enum CodecCorrection {
    TokenCount,
    NonZeroPadding,
    BlockTypeCorrection,
    LenCorrection,
    DistOnlyCorrection,
    DistAfterLenCorrection,
    TreeCodeBitLengthCorrection,
    LDTypeCorrection,
    RepeatCountCorrection,
    LDBitLengthCorrection,
    MAX,
}

pub trait PredictionEncoder {
    fn encode_correction(&mut self, action: CodecCorrection, value: u32);
    fn encode_misprediction(&mut self, action: CodecMisprediction, value: bool);
    fn encode_value(&mut self, value: u16, max_bits: u8);

    fn encode_verify_state(&mut self, message: &'static str, checksum: u64);

    fn finish(&mut self);
}

pub trait PredictionDecoder {
    fn decode_value(&mut self, max_bits_orig: u8) -> u16;
    fn decode_correction(&mut self, correction: CodecCorrection) -> u32;
    fn decode_misprediction(&mut self, misprediction: CodecMisprediction) -> bool;
    fn decode_verify_state(&mut self, message: &'static str, checksum: u64);
}

#[derive(Copy, Clone, Debug, Eq, PartialEq)]
pub enum CodecAction {
    Misprediction(CodecMisprediction, bool),
    Correction(CodecCorrection, u32),
    Value(u16, u8),
    VerifyState(&'static str, u64),
}

#[derive(Default)]
pub struct CountNonDefaultActions {
    pub total_non_default: u32,
    pub mispredictions_count: [u32; CodecMisprediction::MAX as usize],
    pub corrections_count: [u32; CodecCorrection::MAX as usize],
}

impl CountNonDefaultActions {
    pub fn record_correction(&mut self, correction: CodecCorrection, value: u32) {
        if value != 0 {
            self.corrections_count[correction as usize] += 1;
            self.total_non_default += 1;
        }
    }

    pub fn record_misprediction(&mut self, misprediction: CodecMisprediction, value: bool) {
        if value {
            self.mispredictions_count[misprediction as usize] += 1;
            self.total_non_default += 1;
        }
    }

    pub fn print(&self) {
        use CodecCorrection::*;
        use CodecMisprediction::*;

        let corr = [
            BlockTypeCorrection,
            LenCorrection,
            DistOnlyCorrection,
            DistAfterLenCorrection,
            TreeCodeBitLengthCorrection,
            LDTypeCorrection,
            RepeatCountCorrection,
            LDBitLengthCorrection,
            NonZeroPadding,
        ];

        let mispred = [
            EOFMisprediction,
            LiteralPredictionWrong,
            ReferencePredictionWrong,
            IrregularLen258,
            TreeCodeCountMisprediction,
            LiteralCountMisprediction,
            DistanceCountMisprediction,
        ];

        for i in corr {
            if self.corrections_count[i as usize] != 0 {
                println!("{:?}: {}", i, self.corrections_count[i as usize]);
            }
        }

        for i in mispred {
            if self.mispredictions_count[i as usize] != 0 {
                println!("{:?}: {}", i, self.mispredictions_count[i as usize]);
            }
        }
    }
}

pub struct VerifyPredictionDecoder {
    actions: Vec<CodecAction>,
    index: usize,
}

#[derive(Default)]
pub struct VerifyPredictionEncoder {
    actions: Vec<CodecAction>,
    count: CountNonDefaultActions,
}

// used for testing mostly
#[allow(dead_code)]
impl VerifyPredictionEncoder {
    pub fn new() -> Self {
        Self {
            actions: Vec::new(),
            count: CountNonDefaultActions::default(),
        }
    }

    pub fn actions(&self) -> Vec<CodecAction> {
        self.actions.clone()
    }

    pub fn print(&self) {
        self.count.print();
    }

    pub fn count_nondefault_actions(&self) -> usize {
        self.count.total_non_default as usize
    }
}

impl PredictionEncoder for VerifyPredictionEncoder {
    fn encode_value(&mut self, value: u16, max_bits: u8) {
        self.actions.push(CodecAction::Value(value, max_bits));
    }

    fn encode_verify_state(&mut self, message: &'static str, checksum: u64) {
        self.actions
            .push(CodecAction::VerifyState(message, checksum));
    }

    fn encode_correction(&mut self, action: CodecCorrection, value: u32) {
        self.actions.push(CodecAction::Correction(action, value));
        self.count.record_correction(action, value);
    }

    fn encode_misprediction(&mut self, action: CodecMisprediction, value: bool) {
        self.actions.push(CodecAction::Misprediction(action, value));
        self.count.record_misprediction(action, value);
    }

    fn finish(&mut self) {}
}

// used for testing mostly
#[allow(dead_code)]
impl VerifyPredictionDecoder {
    pub fn new(actions: Vec<CodecAction>) -> Self {
        Self { actions, index: 0 }
    }

    fn pop(&mut self) -> Option<CodecAction> {
        if self.index >= self.actions.len() {
            None
        } else {
            self.index += 1;
            Some(self.actions[self.index - 1])
        }
    }
}

impl PredictionDecoder for VerifyPredictionDecoder {
    fn decode_value(&mut self, max_bits_orig: u8) -> u16 {
        let x = self.pop().unwrap();
        if let CodecAction::Value(value, max_bits) = x {
            assert_eq!(max_bits, max_bits_orig);
            return value;
        }
        unreachable!("{:?}", x);
    }

    fn decode_verify_state(&mut self, message: &'static str, checksum: u64) {
        if let Some(x) = self.pop() {
            assert_eq!(
                x,
                CodecAction::VerifyState(message, checksum),
                "mismatch {} (left encode, right decode)",
                self.index
            );
        }
    }

    fn decode_correction(&mut self, correction: CodecCorrection) -> u32 {
        let x = self.pop().unwrap();
        if let CodecAction::Correction(c, value) = x {
            assert_eq!(correction, c);
            return value;
        }
        unreachable!("{:?}", x);
    }

    fn decode_misprediction(&mut self, misprediction: CodecMisprediction) -> bool {
        let x = self.pop().unwrap();
        if let CodecAction::Misprediction(m, value) = x {
            assert_eq!(misprediction, m);
            return value;
        }
        unreachable!("{:?}", x);
    }
}

#[cfg(test)]
pub fn drive_encoder<T: PredictionEncoder>(encoder: &mut T, actions: &[CodecAction]) {
    for action in actions {
        match action {
            &CodecAction::Value(value, max_bits) => {
                encoder.encode_value(value, max_bits);
            }
            &CodecAction::Correction(correction, value) => {
                encoder.encode_correction(correction, value);
            }
            &CodecAction::Misprediction(misprediction, value) => {
                encoder.encode_misprediction(misprediction, value);
            }
            &CodecAction::VerifyState(message, checksum) => {
                encoder.encode_verify_state(message, checksum);
            }
        }
    }
}

#[cfg(test)]
pub fn verify_decoder<T: PredictionDecoder>(decoder: &mut T, actions: &[CodecAction]) {
    for action in actions {
        match action {
            &CodecAction::Value(value, max_bits) => {
                let x = decoder.decode_value(max_bits);
                assert_eq!(x, value);
            }
            &CodecAction::Correction(correction, value) => {
                let x = decoder.decode_correction(correction);
                assert_eq!(x, value);
            }
            &CodecAction::Misprediction(misprediction, value) => {
                let x = decoder.decode_misprediction(misprediction);
                assert_eq!(x, value);
            }
            &CodecAction::VerifyState(message, checksum) => {
                decoder.decode_verify_state(message, checksum);
            }
        }
    }
}

// used by tests to ensure that perfect prediction is performed for data
// that we know should be encoded without any mispredictions or corrections
#[cfg(test)]
#[derive(Default)]
pub struct AssertDefaultOnlyEncoder {}

#[cfg(test)]
impl PredictionEncoder for AssertDefaultOnlyEncoder {
    fn encode_correction(&mut self, action: CodecCorrection, value: u32) {
        assert_eq!(0, value, "unexpected correction {:?}", action);
    }

    fn encode_misprediction(&mut self, action: CodecMisprediction, value: bool) {
        assert_eq!(false, value, "unexpected misprediction {:?}", action);
    }

    fn encode_value(&mut self, _value: u16, _max_bits: u8) {}

    fn encode_verify_state(&mut self, _message: &'static str, _checksum: u64) {}

    fn finish(&mut self) {}
}

#[cfg(test)]
#[derive(Default)]
pub struct AssertDefaultOnlyDecoder {}

#[cfg(test)]
impl PredictionDecoder for AssertDefaultOnlyDecoder {
    fn decode_value(&mut self, _max_bits_orig: u8) -> u16 {
        unimplemented!()
    }

    fn decode_correction(&mut self, _correction: CodecCorrection) -> u32 {
        0
    }

    fn decode_misprediction(&mut self, _misprediction: CodecMisprediction) -> bool {
        false
    }

    fn decode_verify_state(&mut self, _message: &'static str, _checksum: u64) {}
}

/// This implements a prediction encoder that tees the input to two different
/// encoders. This allows us to verify that the behavior of two encoders is the same
impl<A, B> PredictionEncoder for (A, B)
where
    A: PredictionEncoder,
    B: PredictionEncoder,
{
    fn encode_value(&mut self, value: u16, max_bits: u8) {
        self.0.encode_value(value, max_bits);
        self.1.encode_value(value, max_bits);
    }

    fn encode_verify_state(&mut self, message: &'static str, checksum: u64) {
        self.0.encode_verify_state(message, checksum);
        self.1.encode_verify_state(message, checksum);
    }

    fn encode_correction(&mut self, action: CodecCorrection, value: u32) {
        self.0.encode_correction(action, value);
        self.1.encode_correction(action, value);
    }

    fn encode_misprediction(&mut self, action: CodecMisprediction, value: bool) {
        self.0.encode_misprediction(action, value);
        self.1.encode_misprediction(action, value);
    }

    fn finish(&mut self) {
        self.0.finish();
        self.1.finish();
    }
}

/// Implement the same for decoders, where we verify that the output
/// is identical for both decoders
impl<A, B> PredictionDecoder for (A, B)
where
    A: PredictionDecoder,
    B: PredictionDecoder,
{
    fn decode_value(&mut self, max_bits_orig: u8) -> u16 {
        let a = self.0.decode_value(max_bits_orig);
        let b = self.1.decode_value(max_bits_orig);
        assert_eq!(a, b);
        a
    }

    fn decode_correction(&mut self, correction: CodecCorrection) -> u32 {
        let a = self.0.decode_correction(correction);
        let b = self.1.decode_correction(correction);
        assert_eq!(a, b);
        a
    }

    fn decode_misprediction(&mut self, misprediction: CodecMisprediction) -> bool {
        let a = self.0.decode_misprediction(misprediction);
        let b = self.1.decode_misprediction(misprediction);
        assert_eq!(a, b);
        a
    }

    fn decode_verify_state(&mut self, message: &'static str, checksum: u64) {
        self.0.decode_verify_state(message, checksum);
        self.1.decode_verify_state(message, checksum);
    }
}
