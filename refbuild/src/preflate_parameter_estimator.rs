/*---------------------------------------------------------------------------------------------
 *  Copyright (c) Microsoft Corporation. All rights reserved.
 *  Licensed under the Apache License, Version 2.0. See LICENSE.txt in the project root for license information.
 *  This software incorporates material from third parties. See NOTICE.txt for details.
 *--------------------------------------------------------------------------------------------*/

use crate::{
    add_policy_estimator::{estimate_add_policy, DictionaryAddPolicy},
    bit_helper::bit_length,
    complevel_estimator::estimate_preflate_comp_level,
    hash_algorithm::HashAlgorithm,
    preflate_constants::{self},
    preflate_error::{ExitCode, Result},
    preflate_parse_config::MatchingType,
    preflate_stream_info::{extract_preflate_info, PreflateStreamInfo},
    preflate_token::PreflateTokenBlock,
    statistical_codec::{PredictionDecoder, PredictionEncoder},
    token_predictor::TokenPredictorParameters,
    PreflateError,
};

#[derive(Debug, Copy, Clone, Eq, PartialEq)]
pub enum PreflateStrategy {
    Default,
    RleOnly,
    HuffOnly,
    Store,
}

#[derive(Debug, Copy, Clone, Eq, PartialEq)]
pub enum PreflateHuffStrategy {
    Dynamic,
    Mixed,
    Static,
}

#[derive(Debug, Copy, Clone, Eq, PartialEq)]
pub struct PreflateParameters {
    pub huff_strategy: PreflateHuffStrategy,

    pub predictor: TokenPredictorParameters,
}

const FILE_VERSION: u16 = 1;

#[cfg(feature = "verif-hooks")]
pub(crate) fn verif_file_version() -> u16 {
    FILE_VERSION
}

const HASH_ALGORITHM_NONE: u16 = 0;
const HASH_ALGORITHM_ZLIB: u16 = 1;
const HASH_ALGORITHM_MINIZ_FAST: u16 = 2;
const HASH_ALGORITHM_LIBDEFLATE4: u16 = 3;
const HASH_ALGORITHM_LIBDEFLATE4_FAST: u16 = 4;
const HASH_ALGORITHM_ZLIBNG: u16 = 5;
const HASH_ALGORITHM_RANDOMVECTOR: u16 = 6;
const HASH_ALGORITHM_CRC32C: u16 = 7;

impl PreflateParameters {
    pub fn read(decoder: &mut impl PredictionDecoder) -> core::result::Result<Self, PreflateError> {
        assert_eq!(FILE_VERSION, decoder.decode_value(8));
        let strategy = decoder.decode_value(4);
        let huff_strategy = decoder.decode_value(4);
        let zlib_compatible = decoder.decode_value(1) != 0;
        let window_bits = decoder.decode_value(8);
        let hash_algorithm = decoder.decode_value(4);

        let hash_shift;
        let hash_mask;
        if hash_algorithm == HASH_ALGORITHM_ZLIB {
            hash_shift = decoder.decode_value(8);
            hash_mask = decoder.decode_value(16);
        } else {
            hash_shift = 0;
            hash_mask = 0;
        }

        let max_token_count = decoder.decode_value(16);
        let max_dist_3_matches = decoder.decode_value(16);
        let very_far_matches_detected = decoder.decode_value(1) != 0;
        let matches_to_start_detected = decoder.decode_value(1) != 0;
        let good_length = decoder.decode_value(16);
        let max_lazy = decoder.decode_value(16);
        let nice_length = decoder.decode_value(16);
        let max_chain = decoder.decode_value(16);
        let min_len = decoder.decode_value(16);

        let add_policy = match decoder.decode_value(3) {
            0 => DictionaryAddPolicy::AddAll,
            1 => DictionaryAddPolicy::AddFirst(decoder.decode_value(8)),
            2 => DictionaryAddPolicy::AddFirstAndLast(decoder.decode_value(8)),
            3 => DictionaryAddPolicy::AddFirstExcept4kBoundary,
            4 => DictionaryAddPolicy::AddFirstWith32KBoundary,
            _ => {
                return Err(PreflateError::new(
                    ExitCode::InvalidParameterHeader,
                    "invalid add policy",
                ))
            }
        };

        const STRATEGY_DEFAULT: u16 = PreflateStrategy::Default as u16;
        const STRATEGY_RLE_ONLY: u16 = PreflateStrategy::RleOnly as u16;
        const STRATEGY_HUFF_ONLY: u16 = PreflateStrategy::HuffOnly as u16;
        const STRATEGY_STORE: u16 = PreflateStrategy::Store as u16;

        const HUFF_STRATEGY_DYNAMIC: u16 = PreflateHuffStrategy::Dynamic as u16;
        const HUFF_STRATEGY_MIXED: u16 = PreflateHuffStrategy::Mixed as u16;
        const HUFF_STRATEGY_STATIC: u16 = PreflateHuffStrategy::Static as u16;

        Ok(PreflateParameters {
            predictor: TokenPredictorParameters {
                strategy: match strategy {
                    STRATEGY_DEFAULT => PreflateStrategy::Default,
                    STRATEGY_RLE_ONLY => PreflateStrategy::RleOnly,
                    STRATEGY_HUFF_ONLY => PreflateStrategy::HuffOnly,
                    STRATEGY_STORE => PreflateStrategy::Store,
                    _ => {
                        return Err(PreflateError::new(
                            ExitCode::InvalidParameterHeader,
                            "invalid strategy",
                        ))
                    }
                },
                window_bits: window_bits.into(),
                very_far_matches_detected,
                matches_to_start_detected,
                nice_length: nice_length.into(),
                add_policy,
                max_token_count,
                zlib_compatible,
                max_dist_3_matches,
                matching_type: if max_lazy > 0 {
                    MatchingType::Lazy {
                        good_length,
                        max_lazy,
                    }
                } else {
                    MatchingType::Greedy
                },
                max_chain: max_chain.into(),
                min_len: min_len.into(),
                hash_algorithm: match hash_algorithm {
                    HASH_ALGORITHM_NONE => HashAlgorithm::None,
                    HASH_ALGORITHM_ZLIB => HashAlgorithm::Zlib {
                        hash_shift: hash_shift.into(),
                        hash_mask,
                    },
                    HASH_ALGORITHM_MINIZ_FAST => HashAlgorithm::MiniZFast,
                    HASH_ALGORITHM_LIBDEFLATE4 => HashAlgorithm::Libdeflate4,
                    HASH_ALGORITHM_LIBDEFLATE4_FAST => HashAlgorithm::Libdeflate4Fast,
                    HASH_ALGORITHM_ZLIBNG => HashAlgorithm::ZlibNG,
                    HASH_ALGORITHM_RANDOMVECTOR => HashAlgorithm::RandomVector,
                    HASH_ALGORITHM_CRC32C => HashAlgorithm::Crc32cHash,
                    _ => {
                        return Err(PreflateError::new(
                            ExitCode::InvalidParameterHeader,
                            "invalid hash algorithm",
                        ))
                    }
                },
            },
            huff_strategy: match huff_strategy {
                HUFF_STRATEGY_DYNAMIC => PreflateHuffStrategy::Dynamic,
                HUFF_STRATEGY_MIXED => PreflateHuffStrategy::Mixed,
                HUFF_STRATEGY_STATIC => PreflateHuffStrategy::Static,
                _ => {
                    return Err(PreflateError::new(
                        ExitCode::InvalidParameterHeader,
                        "invalid huff strategy",
                    ))
                }
            },
        })
    }

    pub fn write<E: PredictionEncoder>(&self, encoder: &mut E) {
        encoder.encode_value(FILE_VERSION, 8);
        encoder.encode_value(self.predictor.strategy as u16, 4);
        encoder.encode_value(self.huff_strategy as u16, 4);
        encoder.encode_value(u16::from(self.predictor.zlib_compatible), 1);
        encoder.encode_value(u16::try_from(self.predictor.window_bits).unwrap(), 8);

        match self.predictor.hash_algorithm {
            HashAlgorithm::None => {
                encoder.encode_value(HASH_ALGORITHM_NONE, 4);
            }
            HashAlgorithm::Zlib {
                hash_shift,
                hash_mask,
            } => {
                encoder.encode_value(HASH_ALGORITHM_ZLIB, 4);
                encoder.encode_value(u16::try_from(hash_shift).unwrap(), 8);
                encoder.encode_value(hash_mask, 16);
            }
            HashAlgorithm::MiniZFast => {
                encoder.encode_value(HASH_ALGORITHM_MINIZ_FAST, 4);
            }
            HashAlgorithm::Libdeflate4Fast => {
                encoder.encode_value(HASH_ALGORITHM_LIBDEFLATE4_FAST, 4);
            }
            HashAlgorithm::Libdeflate4 => {
                encoder.encode_value(HASH_ALGORITHM_LIBDEFLATE4, 4);
            }
            HashAlgorithm::ZlibNG => {
                encoder.encode_value(HASH_ALGORITHM_ZLIBNG, 4);
            }
            HashAlgorithm::RandomVector => {
                encoder.encode_value(HASH_ALGORITHM_RANDOMVECTOR, 4);
            }
            HashAlgorithm::Crc32cHash => {
                encoder.encode_value(HASH_ALGORITHM_CRC32C, 4);
            }
        }

        encoder.encode_value(self.predictor.max_token_count, 16);
        encoder.encode_value(self.predictor.max_dist_3_matches, 16);
        encoder.encode_value(u16::from(self.predictor.very_far_matches_detected), 1);
        encoder.encode_value(u16::from(self.predictor.matches_to_start_detected), 1);

        let good_length;
        let max_lazy;
        match self.predictor.matching_type {
            MatchingType::Greedy => {
                good_length = 0;
                max_lazy = 0;
            }
            MatchingType::Lazy {
                good_length: gl,
                max_lazy: ml,
            } => {
                good_length = gl;
                max_lazy = ml;
            }
        }

        encoder.encode_value(good_length, 16);
        encoder.encode_value(max_lazy, 16);
        encoder.encode_value(u16::try_from(self.predictor.nice_length).unwrap(), 16);
        encoder.encode_value(u16::try_from(self.predictor.max_chain).unwrap(), 16);
        encoder.encode_value(u16::try_from(self.predictor.min_len).unwrap(), 16);

        match self.predictor.add_policy {
            DictionaryAddPolicy::AddAll => encoder.encode_value(0, 3),
            DictionaryAddPolicy::AddFirst(v) => {
                encoder.encode_value(1, 3);
                encoder.encode_value(v as u16, 8);
            }
            DictionaryAddPolicy::AddFirstAndLast(v) => {
                encoder.encode_value(2, 3);
                encoder.encode_value(v as u16, 8);
            }
            DictionaryAddPolicy::AddFirstExcept4kBoundary => {
                encoder.encode_value(3, 3);
            }
            DictionaryAddPolicy::AddFirstWith32KBoundary => {
                encoder.encode_value(4, 3);
            }
        }
    }
}

fn estimate_preflate_mem_level(max_block_size_: u32) -> u32 {
    let mut max_block_size = max_block_size_;
    let mut mbits = 0;
    while max_block_size > 0 {
        mbits += 1;
        max_block_size >>= 1;
    }
    mbits = std::cmp::min(std::cmp::max(mbits, 7), 15);
    mbits - 6
}

pub fn estimate_preflate_window_bits(max_dist_: u32) -> u32 {
    let mut max_dist = max_dist_;
    max_dist += preflate_constants::MIN_LOOKAHEAD;
    let wbits = bit_length(max_dist - 1);
    std::cmp::min(std::cmp::max(wbits, 9), 15)
}

pub fn estimate_preflate_strategy(info: &PreflateStreamInfo) -> PreflateStrategy {
    if info.count_stored_blocks == info.count_blocks {
        return PreflateStrategy::Store;
    }
    // blocks without any reference are what Z_HUFFMAN_ONLY produces; it still falls
    // back to stored blocks for incompressible data, and then there is no match
    // length to report (min_len stays unset and cannot be written to the header)
    if info.count_huff_blocks + info.count_stored_blocks == info.count_blocks {
        return PreflateStrategy::HuffOnly;
    }
    if info.count_rle_blocks == info.count_blocks {
        return PreflateStrategy::RleOnly;
    }
    PreflateStrategy::Default
}

pub fn estimate_preflate_huff_strategy(info: &PreflateStreamInfo) -> PreflateHuffStrategy {
    if info.count_static_huff_tree_blocks == info.count_blocks {
        return PreflateHuffStrategy::Static;
    }
    if info.count_static_huff_tree_blocks == 0 {
        return PreflateHuffStrategy::Dynamic;
    }
    PreflateHuffStrategy::Mixed
}

pub fn estimate_preflate_parameters(
    unpacked_output: &[u8],
    blocks: &Vec<PreflateTokenBlock>,
) -> Result<PreflateParameters> {
    let info = extract_preflate_info(blocks);

    let preflate_strategy = estimate_preflate_strategy(&info);
    let huff_strategy = estimate_preflate_huff_strategy(&info);

    if preflate_strategy == PreflateStrategy::Store
        || preflate_strategy == PreflateStrategy::HuffOnly
    {
        // No dictionary used
        return Ok(PreflateParameters {
            predictor: TokenPredictorParameters {
                window_bits: 0,
                very_far_matches_detected: false,
                matches_to_start_detected: false,
                strategy: preflate_strategy,
                nice_length: 0,
                add_policy: DictionaryAddPolicy::AddAll,
                max_token_count: 16386,
                zlib_compatible: true,
                max_dist_3_matches: 0,
                matching_type: MatchingType::Greedy,
                max_chain: 0,
                min_len: 0,
                hash_algorithm: HashAlgorithm::None,
            },
            huff_strategy,
        });
    }

    let window_bits = estimate_preflate_window_bits(info.max_dist);
    let mem_level = estimate_preflate_mem_level(info.max_tokens_per_block);
    let add_policy = estimate_add_policy(blocks);

    //let hash_shift = 5;
    //let hash_mask = 32767;

    let max_token_count = (1 << (6 + mem_level)) - 1;

    let cl = estimate_preflate_comp_level(
        window_bits,
        mem_level,
        info.min_len,
        unpacked_output,
        add_policy,
        blocks,
    )?;

    Ok(PreflateParameters {
        predictor: TokenPredictorParameters {
            window_bits,
            very_far_matches_detected: cl.very_far_matches_detected,
            matches_to_start_detected: cl.matches_to_start_detected,
            strategy: estimate_preflate_strategy(&info),
            nice_length: cl.nice_length,
            add_policy: cl.add_policy,
            max_token_count,
            zlib_compatible: cl.zlib_compatible,
            max_dist_3_matches: cl.max_dist_3_matches,
            matching_type: cl.match_type,
            max_chain: cl.max_chain,
            min_len: cl.min_len,
            hash_algorithm: cl.hash_algorithm,
        },
        huff_strategy: estimate_preflate_huff_strategy(&info),
    })
}

#[test]
fn verify_zlib_recognition() {
    use crate::{
        preflate_parse_config::{SLOW_PREFLATE_PARSER_SETTINGS, ZLIB_PREFLATE_PARSER_SETTINGS},
        process::{parse_deflate, read_file},
    };

    for i in 0..=9 {
        let v = read_file(&format!("compressed_zlib_level{}.deflate", i));
        let contents = parse_deflate(&v, 1).unwrap();

        let params = estimate_preflate_parameters(&contents.plain_text, &contents.blocks).unwrap();

        assert_eq!(params.predictor.zlib_compatible, true);
        if i == 0 {
            assert_eq!(params.predictor.strategy, PreflateStrategy::Store);
        } else if i >= 1 && i < 4 {
            let config = &ZLIB_PREFLATE_PARSER_SETTINGS[i as usize - 1];
            assert!(
                params.predictor.max_chain <= config.max_chain,
                "max_chain mismatch {} should be <= {}",
                params.predictor.max_chain,
                config.max_chain
            );
            assert_eq!(params.predictor.matching_type, config.match_type);
            assert_eq!(params.predictor.add_policy, config.dictionary_add_policy);
            assert_eq!(params.predictor.nice_length, config.nice_length);
            assert_eq!(params.predictor.strategy, PreflateStrategy::Default);
        } else if i >= 4 {
            let config = &SLOW_PREFLATE_PARSER_SETTINGS[i as usize - 4];
            assert!(
                params.predictor.max_chain <= config.max_chain,
                "max_chain mismatch {} should be <= {}",
                params.predictor.max_chain,
                config.max_chain
            );
            assert_eq!(params.predictor.matching_type, config.match_type);
            assert_eq!(params.predictor.add_policy, config.dictionary_add_policy);
            assert_eq!(params.predictor.nice_length, config.nice_length);
            assert_eq!(params.predictor.strategy, PreflateStrategy::Default);
        }
    }
}

#[test]
fn verify_miniz_recognition() {
    use crate::process::{parse_deflate, read_file};

    for i in 0..=9 {
        let v = read_file(&format!("compressed_flate2_level{}.deflate", i));
        let contents = parse_deflate(&v, 1).unwrap();

        let params = estimate_preflate_parameters(&contents.plain_text, &contents.blocks).unwrap();

        if i == 0 {
            assert_eq!(params.predictor.strategy, PreflateStrategy::Store);
        } else if i == 1 {
            println!("{:?}", params);
        } else {
            println!("{:?}", params);
        }
    }
}

#[test]
fn verify_zlibng_recognition() {
    use crate::process::{parse_deflate, read_file};

    for i in 1..=2 {
        let v = read_file(&format!("compressed_zlibng_level{}.deflate", i));
        let contents = parse_deflate(&v, 1).unwrap();

        let params = estimate_preflate_parameters(&contents.plain_text, &contents.blocks).unwrap();

        if i == 0 {
            assert_eq!(params.predictor.strategy, PreflateStrategy::Store);
        } else if i == 1 {
            println!("{:?}", params);
        } else {
            println!("{:?}", params);
        }
    }
}
