/*---------------------------------------------------------------------------------------------
 *  Copyright (c) Microsoft Corporation. All rights reserved.
 *  Licensed under the Apache License, Version 2.0. See LICENSE.txt in the project root for license information.
 *  This software incorporates material from third parties. See NOTICE.txt for details.
 *--------------------------------------------------------------------------------------------*/

use std::io::{Error, ErrorKind, Read, Result};

use byteorder::ReadBytesExt;

pub trait ReadBits {
    fn get(&mut self, cbit: u32) -> Result<u32>;
}

pub struct BitReader<R> {
    binary_reader: R,
    bits_read: u32,
    bit_count: u32,
}

impl<R: Read> ReadBits for BitReader<R> {
    fn get(&mut self, cbit: u32) -> Result<u32> {
        BitReader::get(self, cbit)
    }
}

impl<R: Read> BitReader<R> {
    pub fn new(binary_reader: R) -> Self {
        BitReader {
            binary_reader,
            bits_read: 0,
            bit_count: 0,
        }
    }

    /// Clear out the buffer and reset the position to the byte after the "current" position. Tricky since we may have more than 8 bits buffered.
    pub fn flush_buffer_to_byte_boundary(&mut self) {
        self.bit_count = 0;
    }

    pub fn bit_position_in_current_byte(&self) -> u32 {
        8 - self.bit_count
    }

    pub fn read_byte(&mut self) -> Result<u8> {
        assert!(self.bit_count == 0, "BitReader Error: Attempt to read bytes without first calling FlushBufferToByteBoundary");

        let result = self.binary_reader.read_u8()?;
        Ok(result)
    }

    /// Read cbit bits from the input stream return
    /// Only supports read of 1 to 32 bits.
    pub fn get(&mut self, cbit: u32) -> Result<u32> {
        let mut wret: u32 = 0;
        let mut cbits_added = 0;

        if cbit == 0 {
            return Ok(wret);
        }

        if cbit > 32 {
            return Err(Error::new(
                ErrorKind::InvalidInput,
                "BitReader Error: Attempt to read more than 32 bits",
            ));
        }

        while cbits_added < cbit {
            let cbits_needed = cbit - cbits_added;

            // Ensure the buffer is has at least 1 bit in it.
            if self.bit_count == 0 {
                self.bits_read = self.binary_reader.read_u8()? as u32;
                self.bit_count = 8;
            }

            // Calc number of bits we can take from the buffer
            let cbits_from_buffer = std::cmp::min(cbits_needed, self.bit_count);

            // make room in return buffer for bits and insert them in the buffer
            wret |= (self.bits_read & !(u32::MAX << cbits_from_buffer)) << cbits_added;

            // Update the buffer state to reflect the bits that have been read
            self.bits_read >>= cbits_from_buffer;
            self.bit_count -= cbits_from_buffer;

            // Update the running count of bits added so far.
            cbits_added += cbits_from_buffer;
        }

        Ok(wret)
    }
}
