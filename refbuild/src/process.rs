/*---------------------------------------------------------------------------------------------
 *  Copyright (c) Microsoft Corporation. All rights reserved.
 *  Licensed under the Apache License, Version 2.0. See LICENSE.txt in the project root for license information.
 *  This software incorporates material from third parties. See NOTICE.txt for details.
 *--------------------------------------------------------------------------------------------*/

use std::io::Cursor;

use crate::{
    deflate_reader::DeflateReader,
    deflate_writer::DeflateWriter,
    huffman_calc::HufftreeBitCalc,
    preflate_error::{ExitCode, PreflateError},
    preflate_input::PreflateInput,
    preflate_parameter_estimator::PreflateParameters,
    preflate_token::{BlockType, PreflateTokenBlock},
    statistical_codec::{
        CodecCorrection, CodecMisprediction, PredictionDecoder, PredictionEncoder,
    },
    token_predictor::TokenPredictor,
    tree_predictor::{predict_tree_for_block, recreate_tree_for_block},
};

/// takes a deflate compressed stream, analyzes it, decoompresses it, and records
/// any differences in the encoder codec
pub fn encode_mispredictions(
    deflate: &DeflateContents,
    params: &PreflateParameters,
    encoder: &mut impl PredictionEncoder,
) -> Result<(), PreflateError> {
    predict_blocks(
        &deflate.blocks,
        TokenPredictor::new(PreflateInput::new(&deflate.plain_text), &params.predictor),
        encoder,
    )?;

    encoder.encode_misprediction(CodecMisprediction::EOFMisprediction, false);

    encoder.encode_correction(CodecCorrection::NonZeroPadding, deflate.eof_padding.into());

    Ok(())
}

pub struct DeflateContents {
    pub compressed_size: usize,
    pub plain_text: Vec<u8>,
    pub blocks: Vec<PreflateTokenBlock>,
    pub eof_padding: u8,
}

pub fn parse_deflate(
    compressed_data: &[u8],
    deflate_info_dump_level: u32,
) -> Result<DeflateContents, PreflateError> {
    let mut input_stream = Cursor::new(compressed_data);
    let mut block_decoder = DeflateReader::new(&mut input_stream);
    let mut blocks = Vec::new();
    let mut last = false;
    while !last {
        let block = block_decoder.read_block(&mut last)?;

        if deflate_info_dump_level > 0 {
            // Log information about this deflate compressed block
            println!("Block: tokens={}", block.tokens.len());
        }

        blocks.push(block);
    }
    let eof_padding = block_decoder.read_eof_padding();
    let plain_text = block_decoder.move_plain_text();
    let compressed_size = input_stream.position() as usize;

    /*// write to file
     let mut f = std::fs::File::create("c:\\temp\\treegdi.deflate")
    .unwrap();
    std::io::Write::write_all(&mut f, &compressed_data[0..compressed_size]).unwrap();*/

    Ok(DeflateContents {
        compressed_size,
        plain_text,
        blocks,
        eof_padding,
    })
}

fn predict_blocks(
    blocks: &[PreflateTokenBlock],
    mut token_predictor_in: TokenPredictor,
    encoder: &mut impl PredictionEncoder,
) -> Result<(), PreflateError> {
    for i in 0..blocks.len() {
        if token_predictor_in.input_eof() {
            encoder.encode_misprediction(CodecMisprediction::EOFMisprediction, true);
        }

        token_predictor_in.predict_block(&blocks[i], encoder, i == blocks.len() - 1)?;

        if blocks[i].block_type == BlockType::DynamicHuff {
            predict_tree_for_block(
                &blocks[i].huffman_encoding,
                &blocks[i].freq,
                encoder,
                HufftreeBitCalc::Zlib,
            )?;
        }
    }
    assert!(token_predictor_in.input_eof());
    Ok(())
}

pub fn decode_mispredictions(
    params: &PreflateParameters,
    plain_text: PreflateInput,
    decoder: &mut impl PredictionDecoder,
) -> Result<(Vec<u8>, Vec<PreflateTokenBlock>), PreflateError> {
    let mut deflate_writer: DeflateWriter = DeflateWriter::new();

    let output_blocks = recreate_blocks(
        TokenPredictor::new(plain_text, &params.predictor),
        decoder,
        &mut deflate_writer,
    )?;

    // flush the last byte, which may be incomplete and normally
    // padded with zeros, but maybe not
    let padding = decoder.decode_correction(CodecCorrection::NonZeroPadding) as u8;
    deflate_writer.flush_with_padding(padding);

    Ok((deflate_writer.detach_output(), output_blocks))
}

#[inline(never)]
fn recreate_blocks<D: PredictionDecoder>(
    mut token_predictor: TokenPredictor,
    decoder: &mut D,
    deflate_writer: &mut DeflateWriter,
) -> Result<Vec<PreflateTokenBlock>, PreflateError> {
    let mut output_blocks = Vec::new();
    let mut is_eof = token_predictor.input_eof()
        && !decoder.decode_misprediction(CodecMisprediction::EOFMisprediction);
    while !is_eof {
        let mut block = token_predictor.recreate_block(decoder)?;

        if block.block_type == BlockType::DynamicHuff {
            block.huffman_encoding =
                recreate_tree_for_block(&block.freq, decoder, HufftreeBitCalc::Zlib)?;
        }

        is_eof = token_predictor.input_eof()
            && !decoder.decode_misprediction(CodecMisprediction::EOFMisprediction);

        deflate_writer.encode_block(&block, is_eof)?;

        output_blocks.push(block);
    }
    Ok(output_blocks)
}

#[allow(dead_code)]
pub fn write_file(filename: &str, data: &[u8]) {
    let mut writecomp = std::fs::File::create(filename).unwrap();
    std::io::Write::write_all(&mut writecomp, data).unwrap();
}

#[cfg(test)]
pub fn read_file(filename: &str) -> Vec<u8> {
    use std::fs::File;
    use std::io::Read;
    use std::path::Path;

    let filename = Path::new(env!("CARGO_MANIFEST_DIR"))
        .join("samples")
        .join(filename);
    println!("reading {0}", filename.to_str().unwrap());
    let mut f = File::open(filename).unwrap();

    let mut content = Vec::new();
    f.read_to_end(&mut content).unwrap();

    content
}

#[cfg(test)]
fn analyze_compressed_data_fast(
    compressed_data: &[u8],
    header_crc32: Option<u32>,
    uncompressed_size: &mut u64,
) {
    use crate::cabac_codec::{PredictionDecoderCabac, PredictionEncoderCabac};
    use crate::preflate_parameter_estimator::estimate_preflate_parameters;

    use cabac::vp8::{VP8Reader, VP8Writer};

    let mut buffer = Vec::new();

    let mut cabac_encoder = PredictionEncoderCabac::new(VP8Writer::new(&mut buffer).unwrap());

    let contents = parse_deflate(compressed_data, 1).unwrap();

    let params = estimate_preflate_parameters(&contents.plain_text, &contents.blocks).unwrap();

    println!("params: {:?}", params);

    params.write(&mut cabac_encoder);
    encode_mispredictions(&contents, &params, &mut cabac_encoder).unwrap();

    if let Some(crc) = header_crc32 {
        let result_crc = crc32fast::hash(&contents.plain_text);
        assert_eq!(result_crc, crc);
    }

    assert_eq!(contents.compressed_size, compressed_data.len());

    cabac_encoder.finish();

    cabac_encoder.print();

    println!("buffer size: {}", buffer.len());

    let mut cabac_decoder =
        PredictionDecoderCabac::new(VP8Reader::new(Cursor::new(&buffer)).unwrap());

    let params = PreflateParameters::read(&mut cabac_decoder).unwrap();

    let (recompressed, _recreated_blocks) = decode_mispredictions(
        &params,
        PreflateInput::new(&contents.plain_text),
        &mut cabac_decoder,
    )
    .unwrap();

    assert!(recompressed[..] == compressed_data[..]);

    *uncompressed_size = contents.plain_text.len() as u64;
}

#[cfg(test)]
fn analyze_compressed_data_verify(
    compressed_data: &[u8],
    header_crc32: Option<u32>,
    _deflate_info_dump_level: i32,
    uncompressed_size: &mut u64,
) {
    use crate::preflate_parameter_estimator::estimate_preflate_parameters;
    use crate::{
        cabac_codec::{PredictionDecoderCabac, PredictionEncoderCabac},
        statistical_codec::{VerifyPredictionDecoder, VerifyPredictionEncoder},
    };
    use cabac::debug::{DebugReader, DebugWriter};

    fn compare<T: PartialEq + std::fmt::Debug>(a: &[T], b: &[T]) {
        if a.len() != b.len() {
            panic!("lengths differ");
        }

        for i in 0..a.len() {
            if a[i] != b[i] {
                panic!("index {} differs ({:?},{:?})", i, a[i], b[i]);
            }
        }
    }

    let mut buffer = Vec::new();

    let cabac_encoder = PredictionEncoderCabac::new(DebugWriter::new(&mut buffer).unwrap());
    let debug_encoder = VerifyPredictionEncoder::new();

    let mut combined_encoder = (debug_encoder, cabac_encoder);

    let contents = parse_deflate(compressed_data, 1).unwrap();

    let params = estimate_preflate_parameters(&contents.plain_text, &contents.blocks).unwrap();

    println!("params: {:?}", params);

    params.write(&mut combined_encoder);
    encode_mispredictions(&contents, &params, &mut combined_encoder).unwrap();

    assert_eq!(contents.compressed_size, compressed_data.len());

    combined_encoder.finish();

    combined_encoder.0.print();

    let actions = combined_encoder.0.actions();

    println!("buffer size: {}", buffer.len());

    let debug_decoder = VerifyPredictionDecoder::new(actions);
    let cabac_decoder =
        PredictionDecoderCabac::new(DebugReader::new(Cursor::new(&buffer)).unwrap());

    let mut combined_decoder = (debug_decoder, cabac_decoder);

    let params_reread = PreflateParameters::read(&mut combined_decoder).unwrap();
    assert_eq!(params, params_reread);

    let (recompressed, recreated_blocks) = decode_mispredictions(
        &params_reread,
        PreflateInput::new(&contents.plain_text),
        &mut combined_decoder,
    )
    .unwrap();

    assert_eq!(contents.blocks.len(), recreated_blocks.len());
    contents
        .blocks
        .iter()
        .zip(recreated_blocks)
        .enumerate()
        .for_each(|(index, (a, b))| {
            assert_eq!(a.block_type, b.block_type, "block type differs {index}");
            //assert_eq!(a.uncompressed_len, b.uncompressed_len);
            assert_eq!(
                a.padding_bits, b.padding_bits,
                "padding bits differ {index}"
            );
            compare(&a.tokens, &b.tokens);
            assert_eq!(
                a.tokens.len(),
                b.tokens.len(),
                "token length differs {index}"
            );
            assert!(a.tokens == b.tokens, "tokens differ {index}");
            assert_eq!(
                a.freq.literal_codes, b.freq.literal_codes,
                "literal code freq differ {index}"
            );
            assert_eq!(
                a.freq.distance_codes, b.freq.distance_codes,
                "distance code freq differ {index}"
            );
            assert_eq!(
                a.huffman_encoding, b.huffman_encoding,
                "huffman_encoding differs {index}"
            );
        });

    assert_eq!(
        recompressed.len(),
        compressed_data.len(),
        "re-compressed version should be same (length)"
    );
    assert!(
        &recompressed[..] == compressed_data,
        "re-compressed version should be same (content)"
    );

    let result_crc = crc32fast::hash(&contents.plain_text);

    if let Some(crc) = header_crc32 {
        assert_eq!(crc, result_crc, "crc mismatch");
    }

    *uncompressed_size = contents.plain_text.len() as u64;
}

#[cfg(test)]
fn do_analyze(crc: Option<u32>, compressed_data: &[u8], verify: bool) {
    let mut uncompressed_size = 0;

    if verify {
        analyze_compressed_data_verify(compressed_data, crc, 1, &mut uncompressed_size);
    } else {
        analyze_compressed_data_fast(compressed_data, crc, &mut uncompressed_size);
    }
}

#[test]
fn verify_longmatch() {
    do_analyze(
        None,
        &read_file("compressed_flate2_level1_longmatch.deflate"),
        false,
    );
}

#[test]
fn verify_zlibng() {
    do_analyze(None, &read_file("compressed_zlibng_level1.deflate"), false);
}
