//! Verification hooks. Compiled only with the cargo feature `verif-hooks`;
//! nothing in here is reachable from the normal build. The hooks expose the
//! internal protocol steps (parsed blocks, correction operations on the encode
//! and on the decode side, the bins handed to the arithmetic coder, the chunk
//! list of the scanner) so that an external harness can record them and replay
//! model-generated cases into them. They add no behaviour of their own.

use std::io::Cursor;

use cabac::traits::{CabacReader, CabacWriter};
use cabac::vp8::{VP8Context, VP8Reader, VP8Writer};

use crate::{
    add_policy_estimator::DictionaryAddPolicy,
    cabac_codec::{PredictionDecoderCabac, PredictionEncoderCabac},
    deflate_writer::DeflateWriter,
    hash_algorithm::HashAlgorithm,
    huffman_calc::{calc_bit_lengths, HufftreeBitCalc},
    huffman_encoding::TreeCodeType,
    preflate_error::PreflateError,
    preflate_input::PreflateInput,
    preflate_parameter_estimator::{
        estimate_preflate_parameters, PreflateHuffStrategy, PreflateParameters, PreflateStrategy,
    },
    preflate_parse_config::MatchingType,
    preflate_token::{BlockType, PreflateToken, PreflateTokenBlock},
    process::{decode_mispredictions, encode_mispredictions, parse_deflate},
    scan_deflate::{split_into_deflate_streams, BlockChunk},
    statistical_codec::{
        CodecAction, CodecCorrection, CodecMisprediction, PredictionDecoder, PredictionEncoder,
        VerifyPredictionEncoder,
    },
    token_predictor::TokenPredictorParameters,
};

/// (container wrapper version, correction stream file version)
pub fn format_versions() -> (u8, u16) {
    (
        crate::preflate_container::verif_wrapper_version(),
        crate::preflate_parameter_estimator::verif_file_version(),
    )
}

#[derive(Clone, Debug, PartialEq, Eq)]
pub enum Tok {
    Lit(u8),
    Ref {
        len: u32,
        dist: u32,
        irregular258: bool,
    },
}

/// One DEFLATE block as the parser saw it. `block_type` uses the RFC 1951
/// numbering (0 stored, 1 fixed, 2 dynamic).
#[derive(Clone, Debug, PartialEq, Eq, Default)]
pub struct ParsedBlock {
    pub block_type: u8,
    pub padding_bits: u8,
    pub stored: Vec<u8>,
    pub tokens: Vec<Tok>,
    pub hlit: usize,
    pub hdist: usize,
    pub hclen: usize,
    pub code_lengths: [u8; 19],
    /// (16 | 17 | 18 | 0 for an explicit length, value) in stream order; the
    /// value is the explicit length, or the repeat count
    pub items: Vec<(u8, u8)>,
    /// predicted code lengths for this block's symbol frequencies (literal
    /// tree, distance tree): the output of the Huffman length calculator
    pub pred_lit: Vec<u8>,
    pub pred_dist: Vec<u8>,
    /// predicted code-length-code lengths for the header items as written
    pub pred_tc: Vec<u8>,
}

#[derive(Clone, Debug, Default)]
pub struct ParseTrace {
    pub blocks: Vec<ParsedBlock>,
    pub eof_padding: u8,
    pub consumed: usize,
    pub plain: Vec<u8>,
}

fn tree_code_num(t: TreeCodeType) -> u8 {
    match t {
        TreeCodeType::Code => 0,
        TreeCodeType::Repeat => 16,
        TreeCodeType::ZeroShort => 17,
        TreeCodeType::ZeroLong => 18,
    }
}

fn convert_block(b: &PreflateTokenBlock) -> ParsedBlock {
    let mut r = ParsedBlock::default();
    r.block_type = match b.block_type {
        BlockType::Stored => 0,
        BlockType::StaticHuff => 1,
        BlockType::DynamicHuff => 2,
    };
    r.padding_bits = b.padding_bits;
    r.stored = b.uncompressed.clone();
    r.tokens = b
        .tokens
        .iter()
        .map(|t| match t {
            PreflateToken::Literal(l) => Tok::Lit(*l),
            PreflateToken::Reference(x) => Tok::Ref {
                len: x.len(),
                dist: x.dist(),
                irregular258: x.get_irregular258(),
            },
        })
        .collect();
    if b.block_type == BlockType::DynamicHuff {
        let h = &b.huffman_encoding;
        r.hlit = h.num_literals;
        r.hdist = h.num_dist;
        r.hclen = h.num_code_lengths;
        r.code_lengths = h.code_lengths;
        r.items = h
            .lengths
            .iter()
            .map(|&(t, v)| (tree_code_num(t), v))
            .collect();
        r.pred_lit = calc_bit_lengths(HufftreeBitCalc::Zlib, &b.freq.literal_codes, 15);
        r.pred_dist = calc_bit_lengths(HufftreeBitCalc::Zlib, &b.freq.distance_codes, 15);
        let mut tcfreq = [0u16; 19];
        for &(t, v) in h.lengths.iter() {
            match t {
                TreeCodeType::Code => tcfreq[v as usize] += 1,
                TreeCodeType::Repeat => tcfreq[16] += 1,
                TreeCodeType::ZeroShort => tcfreq[17] += 1,
                TreeCodeType::ZeroLong => tcfreq[18] += 1,
            }
        }
        r.pred_tc = calc_bit_lengths(HufftreeBitCalc::Zlib, &tcfreq, 7);
    }
    r
}

/// runs the DEFLATE parser only
pub fn parse(bytes: &[u8]) -> Result<ParseTrace, PreflateError> {
    let c = parse_deflate(bytes, 0)?;
    Ok(ParseTrace {
        blocks: c.blocks.iter().map(convert_block).collect(),
        eof_padding: c.eof_padding,
        consumed: c.compressed_size,
        plain: c.plain_text,
    })
}

/// runs the parser and the block writer with no predictor in between:
/// (rewritten bytes, consumed, plaintext)
pub fn parse_and_rewrite(bytes: &[u8]) -> Result<(Vec<u8>, usize, Vec<u8>), PreflateError> {
    let c = parse_deflate(bytes, 0)?;
    let mut w = DeflateWriter::new();
    for (i, b) in c.blocks.iter().enumerate() {
        w.encode_block(b, i == c.blocks.len() - 1)?;
    }
    w.flush_with_padding(c.eof_padding);
    Ok((w.detach_output(), c.compressed_size, c.plain_text))
}

#[derive(Clone, Debug, PartialEq, Eq)]
pub enum Op {
    Value { v: u16, bits: u8 },
    Mis { ctx: u8, name: String, v: bool },
    Corr { ctx: u8, name: String, v: u32 },
    State { msg: &'static str, v: u64 },
}

pub const MISPREDICTION_CONTEXTS: usize = CodecMisprediction::MAX as usize;
pub const CORRECTION_CONTEXTS: usize = CodecCorrection::MAX as usize;

const ALL_MIS: [CodecMisprediction; 7] = [
    CodecMisprediction::EOFMisprediction,
    CodecMisprediction::LiteralPredictionWrong,
    CodecMisprediction::ReferencePredictionWrong,
    CodecMisprediction::IrregularLen258,
    CodecMisprediction::TreeCodeCountMisprediction,
    CodecMisprediction::LiteralCountMisprediction,
    CodecMisprediction::DistanceCountMisprediction,
];

const ALL_CORR: [CodecCorrection; 10] = [
    CodecCorrection::TokenCount,
    CodecCorrection::NonZeroPadding,
    CodecCorrection::BlockTypeCorrection,
    CodecCorrection::LenCorrection,
    CodecCorrection::DistOnlyCorrection,
    CodecCorrection::DistAfterLenCorrection,
    CodecCorrection::TreeCodeBitLengthCorrection,
    CodecCorrection::LDTypeCorrection,
    CodecCorrection::RepeatCountCorrection,
    CodecCorrection::LDBitLengthCorrection,
];

fn mis_by_index(i: u8) -> Option<CodecMisprediction> {
    ALL_MIS.iter().copied().find(|m| *m as u8 == i)
}

fn corr_by_index(i: u8) -> Option<CodecCorrection> {
    ALL_CORR.iter().copied().find(|m| *m as u8 == i)
}

/// names of the misprediction / correction contexts indexed by discriminant
pub fn context_names() -> (Vec<String>, Vec<String>) {
    let mut m = vec![String::new(); MISPREDICTION_CONTEXTS];
    for x in ALL_MIS {
        m[x as usize] = format!("{:?}", x);
    }
    let mut c = vec![String::new(); CORRECTION_CONTEXTS];
    for x in ALL_CORR {
        c[x as usize] = format!("{:?}", x);
    }
    (m, c)
}

fn convert_action(a: &CodecAction) -> Op {
    match *a {
        CodecAction::Misprediction(m, v) => Op::Mis {
            ctx: m as u8,
            name: format!("{:?}", m),
            v,
        },
        CodecAction::Correction(c, v) => Op::Corr {
            ctx: c as u8,
            name: format!("{:?}", c),
            v,
        },
        CodecAction::Value(v, bits) => Op::Value { v, bits },
        CodecAction::VerifyState(msg, v) => Op::State { msg, v },
    }
}

/// decoder wrapper that records every operation together with its result
struct RecordingDecoder<D> {
    inner: D,
    ops: Vec<Op>,
}

impl<D: PredictionDecoder> PredictionDecoder for RecordingDecoder<D> {
    fn decode_value(&mut self, max_bits_orig: u8) -> u16 {
        let v = self.inner.decode_value(max_bits_orig);
        self.ops.push(Op::Value {
            v,
            bits: max_bits_orig,
        });
        v
    }

    fn decode_correction(&mut self, correction: CodecCorrection) -> u32 {
        let v = self.inner.decode_correction(correction);
        self.ops.push(Op::Corr {
            ctx: correction as u8,
            name: format!("{:?}", correction),
            v,
        });
        v
    }

    fn decode_misprediction(&mut self, misprediction: CodecMisprediction) -> bool {
        let v = self.inner.decode_misprediction(misprediction);
        self.ops.push(Op::Mis {
            ctx: misprediction as u8,
            name: format!("{:?}", misprediction),
            v,
        });
        v
    }

    fn decode_verify_state(&mut self, message: &'static str, checksum: u64) {
        self.inner.decode_verify_state(message, checksum);
        self.ops.push(Op::State {
            msg: message,
            v: checksum,
        });
    }
}

pub const PARAM_FIELDS: [&str; 18] = [
    "strategy",
    "huff_strategy",
    "zlib_compatible",
    "window_bits",
    "hash_algorithm",
    "hash_shift",
    "hash_mask",
    "max_token_count",
    "max_dist_3_matches",
    "very_far_matches_detected",
    "matches_to_start_detected",
    "good_length",
    "max_lazy",
    "nice_length",
    "max_chain",
    "min_len",
    "add_policy",
    "add_limit",
];

/// flattens a parameter set into the vector described by PARAM_FIELDS
pub fn params_to_vec(p: &PreflateParameters) -> Vec<u32> {
    let q = &p.predictor;
    let (ha, hs, hm) = match q.hash_algorithm {
        HashAlgorithm::None => (0, 0, 0),
        HashAlgorithm::Zlib {
            hash_mask,
            hash_shift,
        } => (1, hash_shift, hash_mask as u32),
        HashAlgorithm::MiniZFast => (2, 0, 0),
        HashAlgorithm::Libdeflate4 => (3, 0, 0),
        HashAlgorithm::Libdeflate4Fast => (4, 0, 0),
        HashAlgorithm::ZlibNG => (5, 0, 0),
        HashAlgorithm::RandomVector => (6, 0, 0),
        HashAlgorithm::Crc32cHash => (7, 0, 0),
    };
    let (gl, ml) = match q.matching_type {
        MatchingType::Greedy => (0, 0),
        MatchingType::Lazy {
            good_length,
            max_lazy,
        } => (good_length as u32, max_lazy as u32),
    };
    let (ap, al) = match q.add_policy {
        DictionaryAddPolicy::AddAll => (0, 0),
        DictionaryAddPolicy::AddFirst(v) => (1, v as u32),
        DictionaryAddPolicy::AddFirstAndLast(v) => (2, v as u32),
        DictionaryAddPolicy::AddFirstExcept4kBoundary => (3, 0),
        DictionaryAddPolicy::AddFirstWith32KBoundary => (4, 0),
    };
    vec![
        q.strategy as u32,
        p.huff_strategy as u32,
        q.zlib_compatible as u32,
        q.window_bits,
        ha,
        hs,
        hm,
        q.max_token_count as u32,
        q.max_dist_3_matches as u32,
        q.very_far_matches_detected as u32,
        q.matches_to_start_detected as u32,
        gl,
        ml,
        q.nice_length,
        q.max_chain,
        q.min_len,
        ap,
        al,
    ]
}

/// inverse of params_to_vec; None if a discriminant is out of range
pub fn vec_to_params(v: &[u32]) -> Option<PreflateParameters> {
    if v.len() != PARAM_FIELDS.len() {
        return None;
    }
    let strategy = match v[0] {
        0 => PreflateStrategy::Default,
        1 => PreflateStrategy::RleOnly,
        2 => PreflateStrategy::HuffOnly,
        3 => PreflateStrategy::Store,
        _ => return None,
    };
    let huff_strategy = match v[1] {
        0 => PreflateHuffStrategy::Dynamic,
        1 => PreflateHuffStrategy::Mixed,
        2 => PreflateHuffStrategy::Static,
        _ => return None,
    };
    let hash_algorithm = match v[4] {
        0 => HashAlgorithm::None,
        1 => HashAlgorithm::Zlib {
            hash_shift: v[5],
            hash_mask: u16::try_from(v[6]).ok()?,
        },
        2 => HashAlgorithm::MiniZFast,
        3 => HashAlgorithm::Libdeflate4,
        4 => HashAlgorithm::Libdeflate4Fast,
        5 => HashAlgorithm::ZlibNG,
        6 => HashAlgorithm::RandomVector,
        7 => HashAlgorithm::Crc32cHash,
        _ => return None,
    };
    let matching_type = if v[12] > 0 {
        MatchingType::Lazy {
            good_length: u16::try_from(v[11]).ok()?,
            max_lazy: u16::try_from(v[12]).ok()?,
        }
    } else {
        MatchingType::Greedy
    };
    let add_policy = match v[16] {
        0 => DictionaryAddPolicy::AddAll,
        1 => DictionaryAddPolicy::AddFirst(u16::try_from(v[17]).ok()?),
        2 => DictionaryAddPolicy::AddFirstAndLast(u16::try_from(v[17]).ok()?),
        3 => DictionaryAddPolicy::AddFirstExcept4kBoundary,
        4 => DictionaryAddPolicy::AddFirstWith32KBoundary,
        _ => return None,
    };
    Some(PreflateParameters {
        huff_strategy,
        predictor: TokenPredictorParameters {
            matches_to_start_detected: v[10] != 0,
            very_far_matches_detected: v[9] != 0,
            window_bits: v[3],
            strategy,
            nice_length: v[13],
            add_policy,
            max_token_count: u16::try_from(v[7]).ok()?,
            zlib_compatible: v[2] != 0,
            max_dist_3_matches: u16::try_from(v[8]).ok()?,
            matching_type,
            max_chain: v[14],
            min_len: v[15],
            hash_algorithm,
        },
    })
}

/// parameter vector the estimator picks for this stream
pub fn estimate(bytes: &[u8]) -> Result<Vec<u32>, PreflateError> {
    let c = parse_deflate(bytes, 0)?;
    let p = estimate_preflate_parameters(&c.plain_text, &c.blocks)?;
    Ok(params_to_vec(&p))
}

pub struct ParamRoundtrip {
    pub rebuilt: Vec<u8>,
    pub consumed: usize,
    pub corrections_len: usize,
    pub vec_reread: Vec<u32>,
}

/// analyses the stream under the given parameter vector instead of the
/// estimated one, then reconstructs it from the correction data alone
pub fn roundtrip_with_params(bytes: &[u8], v: &[u32]) -> Result<ParamRoundtrip, PreflateError> {
    let params = vec_to_params(v).ok_or_else(|| {
        PreflateError::new(
            crate::preflate_error::ExitCode::InvalidParameterHeader,
            "parameter vector out of range",
        )
    })?;
    let c = parse_deflate(bytes, 0)?;

    let mut cabac_encoded = Vec::new();
    let mut enc = PredictionEncoderCabac::new(VP8Writer::new(&mut cabac_encoded).unwrap());
    params.write(&mut enc);
    encode_mispredictions(&c, &params, &mut enc)?;
    enc.finish();
    drop(enc);

    let mut dec =
        PredictionDecoderCabac::new(VP8Reader::new(Cursor::new(&cabac_encoded[..])).unwrap());
    let reread = PreflateParameters::read(&mut dec)?;
    let (rebuilt, _blocks) =
        decode_mispredictions(&reread, PreflateInput::new(&c.plain_text), &mut dec)?;

    Ok(ParamRoundtrip {
        rebuilt,
        consumed: c.compressed_size,
        corrections_len: cabac_encoded.len(),
        vec_reread: params_to_vec(&reread),
    })
}

pub struct AnalyseTrace {
    pub parse: Option<ParseTrace>,
    pub params: Option<Vec<u32>>,
    pub ops: Vec<Op>,
    /// the correction bytes (same as decompress_deflate_stream would return)
    pub corrections: Vec<u8>,
    pub error: Option<String>,
}

/// the body of decompress_deflate_stream (verify = false) with the encoder
/// teed into a recorder
pub fn analyse_trace(bytes: &[u8]) -> AnalyseTrace {
    let mut t = AnalyseTrace {
        parse: None,
        params: None,
        ops: Vec::new(),
        corrections: Vec::new(),
        error: None,
    };
    let c = match parse_deflate(bytes, 0) {
        Ok(c) => c,
        Err(e) => {
            t.error = Some(format!("{}", e.exit_code()));
            return t;
        }
    };
    t.parse = Some(ParseTrace {
        blocks: c.blocks.iter().map(convert_block).collect(),
        eof_padding: c.eof_padding,
        consumed: c.compressed_size,
        plain: c.plain_text.clone(),
    });
    let params = match estimate_preflate_parameters(&c.plain_text, &c.blocks) {
        Ok(p) => p,
        Err(e) => {
            t.error = Some(format!("{}", e.exit_code()));
            return t;
        }
    };
    t.params = Some(params_to_vec(&params));

    let mut cabac_encoded = Vec::new();
    {
        let cabac = PredictionEncoderCabac::new(VP8Writer::new(&mut cabac_encoded).unwrap());
        let mut tee = (VerifyPredictionEncoder::new(), cabac);
        params.write(&mut tee);
        let r = encode_mispredictions(&c, &params, &mut tee);
        tee.finish();
        t.ops = tee.0.actions().iter().map(convert_action).collect();
        if let Err(e) = r {
            t.error = Some(format!("{}", e.exit_code()));
        }
    }
    t.corrections = cabac_encoded;
    t
}

pub struct ReconstructTrace {
    pub result: Result<Vec<u8>, String>,
    pub params: Option<Vec<u32>>,
    pub ops: Vec<Op>,
    pub blocks: Vec<ParsedBlock>,
}

/// the body of recompress_deflate_stream with a recording decoder
pub fn reconstruct_trace(plain: &[u8], corrections: &[u8]) -> ReconstructTrace {
    let cabac =
        PredictionDecoderCabac::new(VP8Reader::new(Cursor::new(corrections)).unwrap());
    let mut dec = RecordingDecoder {
        inner: cabac,
        ops: Vec::new(),
    };
    let params = match PreflateParameters::read(&mut dec) {
        Ok(p) => p,
        Err(e) => {
            return ReconstructTrace {
                result: Err(format!("{}", e.exit_code())),
                params: None,
                ops: dec.ops,
                blocks: Vec::new(),
            }
        }
    };
    let pv = params_to_vec(&params);
    match decode_mispredictions(&params, PreflateInput::new(plain), &mut dec) {
        Ok((bytes, blocks)) => ReconstructTrace {
            result: Ok(bytes),
            params: Some(pv),
            ops: dec.ops,
            blocks: blocks.iter().map(convert_block).collect(),
        },
        Err(e) => ReconstructTrace {
            result: Err(format!("{}", e.exit_code())),
            params: Some(pv),
            ops: dec.ops,
            blocks: Vec::new(),
        },
    }
}

/// one decision handed to (or taken from) the arithmetic coder. Contexts are
/// numbered by order of first use; bypass bins have ctx = -1.
#[derive(Clone, Copy, Debug, PartialEq, Eq)]
pub struct Bin {
    pub ctx: i32,
    pub bit: bool,
}

#[derive(Default)]
struct CtxNames {
    seen: Vec<usize>,
}

impl CtxNames {
    fn id(&mut self, p: *const VP8Context) -> i32 {
        let a = p as usize;
        if let Some(i) = self.seen.iter().position(|&x| x == a) {
            i as i32
        } else {
            self.seen.push(a);
            (self.seen.len() - 1) as i32
        }
    }
}

struct RecordingWriter<W> {
    inner: VP8Writer<W>,
    names: CtxNames,
    bins: Vec<Bin>,
}

impl<W: std::io::Write> CabacWriter<VP8Context> for RecordingWriter<W> {
    fn put_bypass(&mut self, bin_value: bool) -> std::io::Result<()> {
        self.bins.push(Bin {
            ctx: -1,
            bit: bin_value,
        });
        self.inner.put_bypass(bin_value)
    }

    fn put(&mut self, value: bool, cur_ctx: &mut VP8Context) -> std::io::Result<()> {
        let ctx = self.names.id(cur_ctx as *const VP8Context);
        self.bins.push(Bin { ctx, bit: value });
        self.inner.put(value, cur_ctx)
    }

    fn finish(&mut self) -> std::io::Result<()> {
        self.inner.finish()
    }
}

struct RecordingReader<R> {
    inner: VP8Reader<R>,
    names: CtxNames,
    bins: Vec<Bin>,
}

impl<R: std::io::Read> CabacReader<VP8Context> for RecordingReader<R> {
    fn get_bypass(&mut self) -> std::io::Result<bool> {
        let bit = self.inner.get_bypass()?;
        self.bins.push(Bin { ctx: -1, bit });
        Ok(bit)
    }

    fn get(&mut self, cur_ctx: &mut VP8Context) -> std::io::Result<bool> {
        let ctx = self.names.id(cur_ctx as *const VP8Context);
        let bit = self.inner.get(cur_ctx)?;
        self.bins.push(Bin { ctx, bit });
        Ok(bit)
    }
}

pub struct CabacTrace {
    pub encoded: Vec<u8>,
    pub decoded: Vec<Op>,
    pub enc_bins: Vec<Bin>,
    pub dec_bins: Vec<Bin>,
    /// number of bins written once operation i had been encoded (one entry
    /// per operation, plus a last one for finish)
    pub enc_ends: Vec<usize>,
    /// number of bins read once operation i had been decoded
    pub dec_ends: Vec<usize>,
}

/// encodes the operation sequence with the real codec, finishes, and decodes
/// it again with the same sequence of operation kinds. `State` operations are
/// passed through (the codec ignores them). Returns None if an operation names
/// a context that does not exist.
pub fn cabac_roundtrip(ops: &[Op]) -> Option<CabacTrace> {
    let mut encoded = Vec::new();
    let enc_bins;
    let mut enc_ends = Vec::with_capacity(ops.len() + 1);
    let mut dec_ends = Vec::with_capacity(ops.len());
    {
        let w = RecordingWriter {
            inner: VP8Writer::new(&mut encoded).unwrap(),
            names: CtxNames::default(),
            bins: Vec::new(),
        };
        let mut enc = Box::new(PredictionEncoderCabac::new(w));
        for op in ops {
            match op {
                Op::Value { v, bits } => enc.encode_value(*v, *bits),
                Op::Mis { ctx, v, .. } => enc.encode_misprediction(mis_by_index(*ctx)?, *v),
                Op::Corr { ctx, v, .. } => enc.encode_correction(corr_by_index(*ctx)?, *v),
                Op::State { msg, v } => enc.encode_verify_state(msg, *v),
            }
            enc_ends.push(enc.verif_writer().bins.len());
        }
        enc.finish();
        enc_ends.push(enc.verif_writer().bins.len());
        enc_bins = enc.verif_writer().bins.clone();
    }

    let r = RecordingReader {
        inner: VP8Reader::new(Cursor::new(&encoded[..])).unwrap(),
        names: CtxNames::default(),
        bins: Vec::new(),
    };
    let mut dec = Box::new(PredictionDecoderCabac::new(r));
    let mut decoded = Vec::with_capacity(ops.len());
    for op in ops {
        decoded.push(match op {
            Op::Value { bits, .. } => Op::Value {
                v: dec.decode_value(*bits),
                bits: *bits,
            },
            Op::Mis { ctx, name, .. } => Op::Mis {
                ctx: *ctx,
                name: name.clone(),
                v: dec.decode_misprediction(mis_by_index(*ctx)?),
            },
            Op::Corr { ctx, name, .. } => Op::Corr {
                ctx: *ctx,
                name: name.clone(),
                v: dec.decode_correction(corr_by_index(*ctx)?),
            },
            Op::State { msg, v } => {
                dec.decode_verify_state(msg, *v);
                Op::State { msg, v: *v }
            }
        });
        dec_ends.push(dec.verif_reader().bins.len());
    }
    let dec_bins = dec.verif_reader().bins.clone();
    Some(CabacTrace {
        encoded,
        decoded,
        enc_bins,
        dec_bins,
        enc_ends,
        dec_ends,
    })
}

#[derive(Clone, Debug, Default)]
pub struct ChunkDesc {
    /// 0 literal, 1 deflate stream, 2 PNG IDAT
    pub kind: u8,
    /// bytes of the input file this chunk stands for
    pub span: usize,
    pub plain_len: usize,
    pub corrections_len: usize,
    pub compressed_size: usize,
    pub idat_sizes: Vec<u32>,
    pub idat_zlib_header: [u8; 2],
    pub idat_adler32: u32,
}

/// the chunk list the scanner produces for a file
pub fn scan(bytes: &[u8]) -> Vec<ChunkDesc> {
    let mut found = Vec::new();
    split_into_deflate_streams(bytes, &mut found, 0);
    found
        .iter()
        .map(|c| match c {
            BlockChunk::Literal(n) => ChunkDesc {
                kind: 0,
                span: *n,
                ..Default::default()
            },
            BlockChunk::DeflateStream(r) => ChunkDesc {
                kind: 1,
                span: r.compressed_size,
                plain_len: r.plain_text.len(),
                corrections_len: r.prediction_corrections.len(),
                compressed_size: r.compressed_size,
                ..Default::default()
            },
            BlockChunk::IDATDeflate(i, r) => ChunkDesc {
                kind: 2,
                span: i.total_chunk_length,
                plain_len: r.plain_text.len(),
                corrections_len: r.prediction_corrections.len(),
                compressed_size: r.compressed_size,
                idat_sizes: i.chunk_sizes.clone(),
                idat_zlib_header: i.zlib_header,
                idat_adler32: i.addler32,
            },
        })
        .collect()
}

/// difference coding used for length / type / bit-length corrections
pub fn encode_difference(pred: u32, actual: u32) -> u32 {
    crate::cabac_codec::encode_difference(pred, actual)
}

pub fn decode_difference(pred: u32, encoded: u32) -> u32 {
    crate::cabac_codec::decode_difference(pred, encoded)
}
