use byteorder::ReadBytesExt;
use cabac::vp8::{VP8Reader, VP8Writer};
use std::io::{Cursor, Read, Write};

use crate::{
    cabac_codec::{PredictionDecoderCabac, PredictionEncoderCabac},
    idat_parse::{recreate_idat, IdatContents},
    preflate_error::{AddContext, ExitCode, PreflateError},
    preflate_input::PreflateInput,
    preflate_parameter_estimator::{estimate_preflate_parameters, PreflateParameters},
    process::{decode_mispredictions, encode_mispredictions, parse_deflate},
    scan_deflate::{split_into_deflate_streams, BlockChunk},
    statistical_codec::PredictionEncoder,
};

const COMPRESSED_WRAPPER_VERSION_1: u8 = 1;

#[cfg(feature = "verif-hooks")]
pub(crate) fn verif_wrapper_version() -> u8 {
    COMPRESSED_WRAPPER_VERSION_1
}

/// literal chunks are just copied to the output
const LITERAL_CHUNK: u8 = 0;

/// zlib compressed chunks are zlib compressed
const DEFLATE_STREAM: u8 = 1;

/// PNG chunks are IDAT chunks that are zlib compressed
const PNG_COMPRESSED: u8 = 2;

pub fn write_varint(destination: &mut impl Write, value: u32) -> std::io::Result<()> {
    let mut value = value;
    loop {
        let mut byte = (value & 0x7F) as u8;
        value >>= 7;
        if value != 0 {
            byte |= 0x80;
        }
        destination.write_all(&[byte])?;
        if value == 0 {
            break;
        }
    }

    Ok(())
}

pub fn read_varint(source: &mut impl Read) -> std::io::Result<u32> {
    let mut result = 0;
    let mut shift = 0;
    loop {
        let mut byte = [0u8; 1];
        source.read_exact(&mut byte)?;
        let byte = byte[0];
        result |= ((byte & 0x7F) as u32) << shift;
        shift += 7;
        if byte & 0x80 == 0 {
            break;
        }
    }
    Ok(result)
}

#[test]
fn test_variant_roundtrip() {
    let values = [
        0, 1, 127, 128, 255, 256, 16383, 16384, 2097151, 2097152, 268435455, 268435456, 4294967295,
    ];

    let mut buffer = Vec::new();
    for &v in values.iter() {
        write_varint(&mut buffer, v).unwrap();
    }

    let mut buffer = &buffer[..];

    for &v in values.iter() {
        assert_eq!(v, read_varint(&mut buffer).unwrap());
    }
}

fn write_chunk_block(
    block: BlockChunk,
    literal_data: &[u8],
    destination: &mut impl Write,
) -> std::io::Result<usize> {
    match block {
        BlockChunk::Literal(content_size) => {
            destination.write_all(&[LITERAL_CHUNK])?;
            write_varint(destination, content_size as u32)?;
            destination.write_all(&literal_data[0..content_size])?;

            Ok(content_size)
        }

        BlockChunk::DeflateStream(res) => {
            destination.write_all(&[DEFLATE_STREAM])?;
            write_varint(destination, res.plain_text.len() as u32)?;
            destination.write_all(&res.plain_text)?;
            write_varint(destination, res.prediction_corrections.len() as u32)?;
            destination.write_all(&res.prediction_corrections)?;

            Ok(res.compressed_size)
        }

        BlockChunk::IDATDeflate(idat, res) => {
            destination.write_all(&[PNG_COMPRESSED])?;
            idat.write_to_bytestream(destination)?;
            write_varint(destination, res.plain_text.len() as u32)?;
            destination.write_all(&res.plain_text)?;
            write_varint(destination, res.prediction_corrections.len() as u32)?;
            destination.write_all(&res.prediction_corrections)?;

            Ok(idat.total_chunk_length)
        }
    }
}

fn read_chunk_block(
    source: &mut impl Read,
    destination: &mut impl Write,
) -> std::result::Result<bool, PreflateError> {
    let mut buffer = [0];
    if source.read(&mut buffer)? == 0 {
        return Ok(false);
    }

    match buffer[0] {
        LITERAL_CHUNK => {
            let mut length = read_varint(source)? as usize;
            while length > 0 {
                let mut buffer = [0; 65536];
                let amount_to_read = std::cmp::min(buffer.len(), length) as usize;

                source.read_exact(&mut buffer[0..amount_to_read])?;
                destination.write_all(&buffer[0..amount_to_read])?;

                length -= amount_to_read;
            }
        }
        DEFLATE_STREAM | PNG_COMPRESSED => {
            let idat = if buffer[0] == PNG_COMPRESSED {
                Some(IdatContents::read_from_bytestream(source)?)
            } else {
                None
            };

            let length = read_varint(source)?;
            let mut segment = vec![0; length as usize];
            source.read_exact(&mut segment)?;

            let corrections_length = read_varint(source)?;
            let mut corrections = vec![0; corrections_length as usize];
            source.read_exact(&mut corrections)?;

            let recompressed = recompress_deflate_stream(&segment, &corrections)?;

            if let Some(idat) = idat {
                recreate_idat(&idat, &recompressed[..], destination).context()?;
            } else {
                destination.write_all(&recompressed)?;
            }
        }
        _ => {
            return Err(PreflateError::new(
                ExitCode::InvalidCompressedWrapper,
                "Invalid chunk",
            ))
        }
    }
    Ok(true)
}

#[test]
fn roundtrip_chunk_block_literal() {
    let mut buffer = Vec::new();

    write_chunk_block(BlockChunk::Literal(5), b"hello", &mut buffer).unwrap();

    let mut read_cursor = std::io::Cursor::new(buffer);
    let mut destination = Vec::new();
    read_chunk_block(&mut read_cursor, &mut destination).unwrap();

    assert!(destination == b"hello");
}

#[test]
fn roundtrip_chunk_block_deflate() {
    let contents = crate::process::read_file("compressed_zlib_level1.deflate");
    let results = decompress_deflate_stream(&contents, true, 1).unwrap();

    let mut buffer = Vec::new();

    write_chunk_block(BlockChunk::DeflateStream(results), &[], &mut buffer).unwrap();

    let mut read_cursor = std::io::Cursor::new(buffer);
    let mut destination = Vec::new();
    read_chunk_block(&mut read_cursor, &mut destination).unwrap();

    assert!(destination == contents);
}

#[test]
fn roundtrip_chunk_block_png() {
    let f = crate::process::read_file("treegdi.png");

    // we know the first IDAT chunk starts at 83 (avoid testing the scan_deflate code in a unit teast)
    let (idat_contents, deflate_stream) = crate::idat_parse::parse_idat(&f[83..], 1).unwrap();
    let results = decompress_deflate_stream(&deflate_stream, true, 1).unwrap();

    let total_chunk_length = idat_contents.total_chunk_length;

    let mut buffer = Vec::new();

    write_chunk_block(
        BlockChunk::IDATDeflate(idat_contents, results),
        &[],
        &mut buffer,
    )
    .unwrap();

    let mut read_cursor = std::io::Cursor::new(buffer);
    let mut destination = Vec::new();
    read_chunk_block(&mut read_cursor, &mut destination).unwrap();

    assert!(destination == &f[83..83 + total_chunk_length]);
}

/// scans for deflate streams in a zlib compressed file, decompresses the streams and
/// returns an uncompressed file that can then be recompressed using a better algorithm.
/// This can then be passed back into recreated_zlib_chunks to recreate the exact original file.
pub fn expand_zlib_chunks(
    compressed_data: &[u8],
    loglevel: u32,
) -> std::result::Result<Vec<u8>, PreflateError> {
    let mut locations_found = Vec::new();

    split_into_deflate_streams(compressed_data, &mut locations_found, loglevel);
    if loglevel > 0 {
        println!("locations found: {:?}", locations_found);
    }

    let mut plain_text = Vec::new();
    plain_text.push(COMPRESSED_WRAPPER_VERSION_1); // version 1 of format. Definitely will improved.

    let mut index = 0;
    for loc in locations_found {
        index += write_chunk_block(loc, &compressed_data[index..], &mut plain_text)?;
    }

    Ok(plain_text)
}

/// takes a binary chunk of data that was created by expand_zlib_chunks and recompresses it back to its
/// original form.
pub fn recreated_zlib_chunks(
    source: &mut impl Read,
    destination: &mut impl Write,
) -> std::result::Result<(), PreflateError> {
    let version = source.read_u8()?;
    if version != COMPRESSED_WRAPPER_VERSION_1 {
        return Err(PreflateError::new(
            ExitCode::InvalidCompressedWrapper,
            format!("Invalid version {version}").as_str(),
        ));
    }

    loop {
        if !read_chunk_block(source, destination)? {
            break;
        }
    }

    Ok(())
}

#[cfg(test)]
fn roundtrip_deflate_chunks(filename: &str) {
    let f = crate::process::read_file(filename);

    let expanded = expand_zlib_chunks(&f, 1).unwrap();

    let mut read_cursor = std::io::Cursor::new(expanded);

    let mut destination = Vec::new();
    recreated_zlib_chunks(&mut read_cursor, &mut destination).unwrap();

    assert_eq!(destination.len(), f.len());
    for i in 0..destination.len() {
        assert_eq!(destination[i], f[i], "Mismatch at index {}", i);
    }
    assert!(destination == f);
}

#[test]
fn roundtrip_skip_length_crash() {
    roundtrip_deflate_chunks("skiplengthcrash.bin");
}

#[test]
fn roundtrip_png_chunks() {
    roundtrip_deflate_chunks("treegdi.png");
}

#[test]
fn roundtrip_zip_chunks() {
    roundtrip_deflate_chunks("samplezip.zip");
}

#[test]
fn roundtrip_gz_chunks() {
    roundtrip_deflate_chunks("sample1.bin.gz");
}

#[test]
fn roundtrip_pdf_chunks() {
    roundtrip_deflate_chunks("starcontrol.samplesave");
}

/// result of decompress_deflate_stream
pub struct DecompressResult {
    /// the plaintext that was decompressed from the stream
    pub plain_text: Vec<u8>,

    /// the extra data that is needed to reconstruct the deflate stream exactly as it was written
    pub prediction_corrections: Vec<u8>,

    /// the number of bytes that were processed from the compressed stream (this will be exactly the
    /// data that will be recreated using the cabac_encoded data)
    pub compressed_size: usize,

    /// the parameters that were used to compress the stream (informational)
    pub parameters: PreflateParameters,
}

impl core::fmt::Debug for DecompressResult {
    fn fmt(&self, f: &mut std::fmt::Formatter<'_>) -> std::fmt::Result {
        write!(f, "DecompressResult {{ plain_text: {}, prediction_corrections: {}, compressed_size: {} }}", self.plain_text.len(), self.prediction_corrections.len(), self.compressed_size)
    }
}

/// decompresses a deflate stream and returns the plaintext and cabac_encoded data that can be used to reconstruct it
pub fn decompress_deflate_stream(
    compressed_data: &[u8],
    verify: bool,
    loglevel: u32,
) -> Result<DecompressResult, PreflateError> {
    let mut cabac_encoded = Vec::new();

    let mut cabac_encoder =
        PredictionEncoderCabac::new(VP8Writer::new(&mut cabac_encoded).unwrap());

    let contents = parse_deflate(compressed_data, 0)?;

    //process::write_file("c:\\temp\\lastop.deflate", compressed_data);
    //process::write_file("c:\\temp\\lastop.bin", contents.plain_text.as_slice());

    let params = estimate_preflate_parameters(&contents.plain_text, &contents.blocks).context()?;

    if loglevel > 0 {
        println!("params: {:?}", params);
    }

    params.write(&mut cabac_encoder);
    encode_mispredictions(&contents, &params, &mut cabac_encoder)?;

    cabac_encoder.finish();

    if loglevel > 0 {
        cabac_encoder.print();
    }

    if verify {
        let mut cabac_decoder =
            PredictionDecoderCabac::new(VP8Reader::new(Cursor::new(&cabac_encoded[..])).unwrap());

        let reread_params = PreflateParameters::read(&mut cabac_decoder).context()?;
        assert_eq!(params, reread_params);

        let (recompressed, _recreated_blocks) = decode_mispredictions(
            &reread_params,
            PreflateInput::new(&contents.plain_text),
            &mut cabac_decoder,
        )?;

        if recompressed[..] != compressed_data[..contents.compressed_size] {
            return Err(PreflateError::new(
                ExitCode::RoundtripMismatch,
                "recompressed data does not match original",
            ));
        }
    }

    Ok(DecompressResult {
        plain_text: contents.plain_text,
        prediction_corrections: cabac_encoded,
        compressed_size: contents.compressed_size,
        parameters: params,
    })
}

/// recompresses a deflate stream using the cabac_encoded data that was returned from decompress_deflate_stream
pub fn recompress_deflate_stream(
    plain_text: &[u8],
    prediction_corrections: &[u8],
) -> Result<Vec<u8>, PreflateError> {
    let mut cabac_decoder =
        PredictionDecoderCabac::new(VP8Reader::new(Cursor::new(prediction_corrections)).unwrap());

    let params = PreflateParameters::read(&mut cabac_decoder).context()?;
    let (recompressed, _recreated_blocks) =
        decode_mispredictions(&params, PreflateInput::new(plain_text), &mut cabac_decoder)?;
    Ok(recompressed)
}

/// decompresses a deflate stream and returns the plaintext and cabac_encoded data that can be used to reconstruct it
/// This version uses DebugWriter and DebugReader, which are slower but can be used to debug the cabac encoding errors.
#[cfg(test)]
pub fn decompress_deflate_stream_assert(
    compressed_data: &[u8],
    verify: bool,
) -> Result<DecompressResult, PreflateError> {
    use cabac::debug::{DebugReader, DebugWriter};

    use crate::preflate_error::AddContext;

    let mut cabac_encoded = Vec::new();

    let mut cabac_encoder =
        PredictionEncoderCabac::new(DebugWriter::new(&mut cabac_encoded).unwrap());

    let contents = parse_deflate(compressed_data, 0)?;

    let params = estimate_preflate_parameters(&contents.plain_text, &contents.blocks).context()?;

    params.write(&mut cabac_encoder);
    encode_mispredictions(&contents, &params, &mut cabac_encoder)?;

    assert_eq!(contents.compressed_size, compressed_data.len());
    cabac_encoder.finish();

    if verify {
        let mut cabac_decoder =
            PredictionDecoderCabac::new(DebugReader::new(Cursor::new(&cabac_encoded)).unwrap());

        let params = PreflateParameters::read(&mut cabac_decoder)?;
        let (recompressed, _recreated_blocks) = decode_mispredictions(
            &params,
            PreflateInput::new(&contents.plain_text),
            &mut cabac_decoder,
        )?;

        if recompressed[..] != compressed_data[..] {
            return Err(PreflateError::new(
                ExitCode::RoundtripMismatch,
                "recompressed data does not match original",
            ));
        }
    }

    Ok(DecompressResult {
        plain_text: contents.plain_text,
        prediction_corrections: cabac_encoded,
        compressed_size: contents.compressed_size,
        parameters: params,
    })
}

/// recompresses a deflate stream using the cabac_encoded data that was returned from decompress_deflate_stream
/// This version uses DebugWriter and DebugReader, which are slower and don't compress but can be used to debug the cabac encoding errors.
#[cfg(test)]
pub fn recompress_deflate_stream_assert(
    plain_text: &[u8],
    prediction_corrections: &[u8],
) -> Result<Vec<u8>, PreflateError> {
    use cabac::debug::DebugReader;

    let mut cabac_decoder = PredictionDecoderCabac::new(
        DebugReader::new(Cursor::new(&prediction_corrections)).unwrap(),
    );

    let params = PreflateParameters::read(&mut cabac_decoder)?;

    let (recompressed, _recreated_blocks) =
        decode_mispredictions(&params, PreflateInput::new(plain_text), &mut cabac_decoder)?;
    Ok(recompressed)
}

#[test]
fn verify_zip_compress() {
    use crate::process::read_file;
    let v = read_file("samplezip.zip");

    let expanded = expand_zlib_chunks(&v, 1).unwrap();

    let mut recompressed = Vec::new();
    recreated_zlib_chunks(&mut Cursor::new(expanded), &mut recompressed).unwrap();

    assert!(v == recompressed);
}

#[test]
fn verify_roundtrip_zlib() {
    for i in 0..9 {
        verify_file(&format!("compressed_zlib_level{}.deflate", i));
    }
}

#[test]
fn verify_roundtrip_flate2() {
    for i in 0..9 {
        verify_file(&format!("compressed_flate2_level{}.deflate", i));
    }
}

#[test]
fn verify_roundtrip_libdeflate() {
    for i in 0..9 {
        verify_file(&format!("compressed_libdeflate_level{}.deflate", i));
    }
}

#[cfg(test)]
fn verify_file(filename: &str) {
    use crate::process::read_file;
    let v = read_file(filename);

    let r = decompress_deflate_stream(&v, true, 1).unwrap();
    let recompressed = recompress_deflate_stream(&r.plain_text, &r.prediction_corrections).unwrap();
    assert!(v == recompressed);
}

/// expands the Zlib compressed streams in the data and then recompresses the result
/// with Zstd with the maximum level.
pub fn compress_zstd(zlib_compressed_data: &[u8], loglevel: u32) -> Result<Vec<u8>, PreflateError> {
    let plain_text = expand_zlib_chunks(zlib_compressed_data, loglevel)?;
    Ok(zstd::bulk::compress(&plain_text, 9)?)
}

/// decompresses the Zstd compressed data and then recompresses the result back
/// to the original Zlib compressed streams.
pub fn decompress_zstd(compressed_data: &[u8], capacity: usize) -> Result<Vec<u8>, PreflateError> {
    let compressed_data = zstd::bulk::decompress(compressed_data, capacity)?;

    let mut result = Vec::new();
    recreated_zlib_chunks(&mut Cursor::new(compressed_data), &mut result)?;
    Ok(result)
}

#[test]
fn verify_zip_compress_zstd() {
    use crate::process::read_file;
    let v = read_file("samplezip.zip");

    let compressed = compress_zstd(&v, 1).unwrap();

    let recreated = decompress_zstd(&compressed, 256 * 1024 * 1024).unwrap();

    assert!(v == recreated);
    println!(
        "original zip = {} bytes, recompressed zip = {} bytes",
        v.len(),
        compressed.len()
    );
}

#[test]
fn verify_roundtrip_assert() {
    use crate::process::read_file;

    let v = read_file("compressed_zlib_level1.deflate");

    let r = decompress_deflate_stream_assert(&v, true).unwrap();
    let recompressed =
        recompress_deflate_stream_assert(&r.plain_text, &r.prediction_corrections).unwrap();
    assert!(v == recompressed);
}
