/*---------------------------------------------------------------------------------------------
 *  Copyright (c) Microsoft Corporation. All rights reserved.
 *  Licensed under the Apache License, Version 2.0. See LICENSE.txt in the project root for license information.
 *  This software incorporates material from third parties. See NOTICE.txt for details.
 *--------------------------------------------------------------------------------------------*/

#[derive(Clone)]
pub struct PreflateInput<'a> {
    data: &'a [u8],
    pos: i32,
}

impl<'a> PreflateInput<'a> {
    pub fn new(v: &'a [u8]) -> Self {
        PreflateInput { data: v, pos: 0 }
    }

    pub fn pos(&self) -> u32 {
        self.pos as u32
    }

    pub fn size(&self) -> u32 {
        self.data.len() as u32
    }

    pub fn cur_chars(&self, offset: i32) -> &[u8] {
        &self.data[(self.pos + offset) as usize..]
    }

    pub fn cur_char(&self, offset: i32) -> u8 {
        self.data[(self.pos + offset) as usize]
    }

    pub fn advance(&mut self, l: u32) {
        self.pos += l as i32;
        debug_assert!(self.pos <= self.data.len() as i32);
    }

    pub fn remaining(&self) -> u32 {
        self.data.len() as u32 - self.pos as u32
    }
}
