/*---------------------------------------------------------------------------------------------
 *  Copyright (c) Microsoft Corporation. All rights reserved.
 *  Licensed under the Apache License, Version 2.0. See LICENSE.txt in the project root for license information.
 *  This software incorporates material from third parties. See NOTICE.txt for details.
 *--------------------------------------------------------------------------------------------*/

mod add_policy_estimator;
mod bit_helper;
mod bit_reader;
mod bit_writer;
mod cabac_codec;
mod complevel_estimator;
mod deflate_reader;
mod deflate_writer;
mod depth_estimator;
mod hash_algorithm;
mod hash_chain;
mod hash_chain_holder;
mod huffman_calc;
mod huffman_encoding;
mod huffman_helper;
mod idat_parse;
mod preflate_constants;
mod preflate_container;
mod preflate_error;
mod preflate_input;
mod preflate_parameter_estimator;
mod preflate_parse_config;
mod preflate_stream_info;
mod preflate_token;
mod process;
mod scan_deflate;
mod statistical_codec;
mod token_predictor;
mod tree_predictor;

pub use preflate_container::{
    compress_zstd, decompress_deflate_stream, decompress_zstd, expand_zlib_chunks,
    recompress_deflate_stream, recreated_zlib_chunks,
};
pub use preflate_error::PreflateError;

#[cfg(feature = "verif-hooks")]
pub mod verif;

use std::{io::Cursor, panic::catch_unwind};

/// C ABI interface for compressing Zip file, exposed from DLL.
pub unsafe extern "C" fn WrapperCompressZip(
    input_buffer: *const u8,
    input_buffer_size: u64,
    output_buffer: *mut u8,
    output_buffer_size: u64,
    result_size: *mut u64,
) -> i32 {
    match catch_unwind(|| {
        let input_buffer = std::slice::from_raw_parts(input_buffer, input_buffer_size as usize);
        let output_buffer =
            std::slice::from_raw_parts_mut(output_buffer, output_buffer_size as usize);

        let plain_text = expand_zlib_chunks(&input_buffer, 0)?;

        *result_size = zstd::bulk::compress_to_buffer(&plain_text, output_buffer, 9)? as u64;

        Result::<(), PreflateError>::Ok(())
    }) {
        Ok(x) => {
            if let Err(_) = x {
                return -1;
            }
            return 0;
        }
        Err(_) => {
            return -2;
        }
    }
}

/// C ABI interface for decompressing Zip, exposed from DLL
pub unsafe extern "C" fn WrapperDecompressZip(
    input_buffer: *const u8,
    input_buffer_size: u64,
    output_buffer: *mut u8,
    output_buffer_size: u64,
    result_size: *mut u64,
) -> i32 {
    match catch_unwind(|| {
        let input = std::slice::from_raw_parts(input_buffer, input_buffer_size as usize);
        let output = std::slice::from_raw_parts_mut(output_buffer, output_buffer_size as usize);

        let compressed_data =
            zstd::bulk::decompress(input, 1024 * 1024 * 128).map_err(PreflateError::from)?;

        let mut source = Cursor::new(&compressed_data);
        let mut destination = Cursor::new(output);

        recreated_zlib_chunks(&mut source, &mut destination)?;
        *result_size = destination.position();

        Result::<(), PreflateError>::Ok(())
    }) {
        Ok(x) => {
            if let Err(_) = x {
                return -1;
            }
            return 0;
        }
        Err(_) => {
            return -2;
        }
    }
}

#[test]
fn extern_interface() {
    use crate::process::read_file;
    let input = read_file("samplezip.zip");

    let mut compressed = Vec::new();

    compressed.resize(input.len() + 10000, 0);

    let mut result_size: u64 = 0;

    unsafe {
        let retval = WrapperCompressZip(
            input[..].as_ptr(),
            input.len() as u64,
            compressed[..].as_mut_ptr(),
            compressed.len() as u64,
            (&mut result_size) as *mut u64,
        );

        assert_eq!(retval, 0);
    }

    let mut original = Vec::new();
    original.resize(input.len() + 10000, 0);

    let mut original_size: u64 = 0;
    unsafe {
        let retval = WrapperDecompressZip(
            compressed[..].as_ptr(),
            result_size,
            original[..].as_mut_ptr(),
            original.len() as u64,
            (&mut original_size) as *mut u64,
        );

        assert_eq!(retval, 0);
    }
    assert_eq!(input.len() as u64, original_size);
    assert_eq!(input[..], original[..(original_size as usize)]);
}
