/*---------------------------------------------------------------------------------------------
 *  Copyright (c) Microsoft Corporation. All rights reserved.
 *  Licensed under the Apache License, Version 2.0. See LICENSE.txt in the project root for license information.
 *  This software incorporates material from third parties. See NOTICE.txt for details.
 *--------------------------------------------------------------------------------------------*/

use std::fmt::Display;
use std::io::ErrorKind;
use std::num::TryFromIntError;

#[derive(Debug, Clone, Copy, PartialEq)]
#[allow(dead_code)]
#[non_exhaustive]
pub enum ExitCode {
    ReadDeflate = 1,
    InvalidPredictionData = 2,
    AnalyzeFailed = 3,
    RecompressFailed = 4,
    RoundtripMismatch = 5,
    ReadBlock = 6,
    PredictBlock = 7,
    PredictTree = 8,
    RecreateBlock = 9,
    RecreateTree = 10,
    EncodeBlock = 11,
    InvalidCompressedWrapper = 12,
    ZstdError = 14,
    InvalidParameterHeader = 15,
    ShortRead = 16,
    OsError = 17,
    GeneralFailure = 18,
    InvalidIDat = 19,
    MatchNotFound = 20,
    InvalidDeflate = 21,
}

impl Display for ExitCode {
    fn fmt(&self, f: &mut std::fmt::Formatter) -> std::fmt::Result {
        write!(f, "{:?}", self)
    }
}

impl ExitCode {
    /// Converts the error code into an integer for use as an error code when
    /// returning from a C API.
    pub fn as_integer_error_code(self) -> i32 {
        self as i32
    }
}

/// Since errors are rare and stop everything, we want them to be as lightweight as possible.
#[derive(Debug, Clone)]
struct PreflateErrorInternal {
    exit_code: ExitCode,
    message: String,
}

/// Standard error returned by Preflate library
#[derive(Debug, Clone)]
pub struct PreflateError {
    i: Box<PreflateErrorInternal>,
}

pub type Result<T> = std::result::Result<T, PreflateError>;

impl Display for PreflateError {
    fn fmt(&self, f: &mut std::fmt::Formatter<'_>) -> std::fmt::Result {
        write!(f, "{0}: {1}", self.i.exit_code, self.i.message)
    }
}

impl PreflateError {
    pub fn new(exit_code: ExitCode, message: &str) -> PreflateError {
        PreflateError {
            i: Box::new(PreflateErrorInternal {
                exit_code,
                message: message.to_owned(),
            }),
        }
    }

    pub fn exit_code(&self) -> ExitCode {
        self.i.exit_code
    }

    pub fn message(&self) -> &str {
        &self.i.message
    }

    #[cold]
    #[inline(never)]
    #[track_caller]
    pub fn add_context(&mut self) {
        self.i
            .message
            .push_str(&format!("\n at {}", std::panic::Location::caller()));
    }
}

#[cold]
#[track_caller]
pub fn err_exit_code<T>(error_code: ExitCode, message: &str) -> Result<T> {
    let mut e = PreflateError::new(error_code, message);
    e.add_context();
    return Err(e);
}

pub trait AddContext<T> {
    #[track_caller]
    fn context(self) -> Result<T>;
    fn with_context<FN: Fn() -> String>(self, f: FN) -> Result<T>;
}

impl<T, E: Into<PreflateError>> AddContext<T> for core::result::Result<T, E> {
    #[track_caller]
    fn context(self) -> Result<T> {
        match self {
            Ok(x) => Ok(x),
            Err(e) => {
                let mut e = e.into();
                e.add_context();
                Err(e)
            }
        }
    }

    #[track_caller]
    fn with_context<FN: Fn() -> String>(self, f: FN) -> Result<T> {
        match self {
            Ok(x) => Ok(x),
            Err(e) => {
                let mut e = e.into();
                e.i.message.push_str(&f());
                e.add_context();
                Err(e)
            }
        }
    }
}

impl std::error::Error for PreflateError {}

fn get_io_error_exit_code(e: &std::io::Error) -> ExitCode {
    if e.kind() == ErrorKind::UnexpectedEof {
        ExitCode::ShortRead
    } else {
        ExitCode::OsError
    }
}

impl From<TryFromIntError> for PreflateError {
    #[track_caller]
    fn from(e: TryFromIntError) -> Self {
        let mut e = PreflateError::new(ExitCode::GeneralFailure, e.to_string().as_str());
        e.add_context();
        e
    }
}

/// translates std::io::Error into PreflateError
impl From<std::io::Error> for PreflateError {
    #[track_caller]
    fn from(e: std::io::Error) -> Self {
        match e.downcast::<PreflateError>() {
            Ok(le) => {
                return le;
            }
            Err(e) => {
                let mut e = PreflateError::new(get_io_error_exit_code(&e), e.to_string().as_str());
                e.add_context();
                e
            }
        }
    }
}

/// translates PreflateError into std::io::Error, which involves putting into a Box and using Other
impl From<PreflateError> for std::io::Error {
    fn from(e: PreflateError) -> Self {
        return std::io::Error::new(std::io::ErrorKind::Other, e);
    }
}

#[test]
fn test_error_translation() {
    // test wrapping inside an io error
    fn my_std_error() -> core::result::Result<(), std::io::Error> {
        Err(PreflateError::new(ExitCode::AnalyzeFailed, "test error").into())
    }

    let e: PreflateError = my_std_error().unwrap_err().into();
    assert_eq!(e.exit_code(), ExitCode::AnalyzeFailed);
    assert_eq!(e.message(), "test error");

    // an IO error should be translated into an OsError
    let e: PreflateError =
        std::io::Error::new(std::io::ErrorKind::NotFound, "file not found").into();
    assert_eq!(e.exit_code(), ExitCode::OsError);
}
