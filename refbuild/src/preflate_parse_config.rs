/*---------------------------------------------------------------------------------------------
 *  Copyright (c) Microsoft Corporation. All rights reserved.
 *  Licensed under the Apache License, Version 2.0. See LICENSE.txt in the project root for license information.
 *  This software incorporates material from third parties. See NOTICE.txt for details.
 *--------------------------------------------------------------------------------------------*/

use crate::add_policy_estimator::DictionaryAddPolicy;

#[derive(Debug, Copy, Clone, PartialEq, Eq, Default)]
pub enum MatchingType {
    #[default]
    Greedy,
    Lazy {
        good_length: u16,
        max_lazy: u16,
    },
}

pub struct PreflateParserConfig {
    pub match_type: MatchingType,
    pub dictionary_add_policy: DictionaryAddPolicy,

    /// if we get this length of a match we immediately stop searching for more
    pub nice_length: u32,
    pub max_chain: u32,
}

pub const ZLIB_PREFLATE_PARSER_SETTINGS: [PreflateParserConfig; 3] = [
    // these three levels are used by zlib

    // max speed, no lazy matches (the lazy field means
    // the maximum length that is added to the dictionary during
    // a match)
    PreflateParserConfig {
        match_type: MatchingType::Greedy,
        dictionary_add_policy: DictionaryAddPolicy::AddFirst(4),
        nice_length: 8,
        max_chain: 4,
    },
    PreflateParserConfig {
        match_type: MatchingType::Greedy,
        dictionary_add_policy: DictionaryAddPolicy::AddFirst(5),
        nice_length: 16,
        max_chain: 8,
    },
    PreflateParserConfig {
        match_type: MatchingType::Greedy,
        dictionary_add_policy: DictionaryAddPolicy::AddFirst(6),
        nice_length: 32,
        max_chain: 32,
    },
];

pub const SLOW_PREFLATE_PARSER_SETTINGS: [PreflateParserConfig; 6] = [
    // 4
    PreflateParserConfig {
        match_type: MatchingType::Lazy {
            good_length: 4,
            max_lazy: 4,
        },
        dictionary_add_policy: DictionaryAddPolicy::AddAll,
        nice_length: 16,
        max_chain: 16,
    },
    // 5
    PreflateParserConfig {
        match_type: MatchingType::Lazy {
            good_length: 8,
            max_lazy: 16,
        },
        dictionary_add_policy: DictionaryAddPolicy::AddAll,
        nice_length: 32,
        max_chain: 32,
    },
    // 6
    PreflateParserConfig {
        match_type: MatchingType::Lazy {
            good_length: 8,
            max_lazy: 16,
        },
        dictionary_add_policy: DictionaryAddPolicy::AddAll,
        nice_length: 128,
        max_chain: 128,
    },
    // 7
    PreflateParserConfig {
        match_type: MatchingType::Lazy {
            good_length: 8,
            max_lazy: 32,
        },
        dictionary_add_policy: DictionaryAddPolicy::AddAll,
        nice_length: 128,
        max_chain: 256,
    },
    // 8
    PreflateParserConfig {
        match_type: MatchingType::Lazy {
            good_length: 32,
            max_lazy: 128,
        },
        dictionary_add_policy: DictionaryAddPolicy::AddAll,
        nice_length: 258,
        max_chain: 1024,
    },
    // 9
    PreflateParserConfig {
        match_type: MatchingType::Lazy {
            good_length: 32,
            max_lazy: 258,
        },
        dictionary_add_policy: DictionaryAddPolicy::AddAll,
        nice_length: 258,
        max_chain: 4096,
    }, // max compression
];
