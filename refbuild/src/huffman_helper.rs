/*---------------------------------------------------------------------------------------------
 *  Copyright (c) Microsoft Corporation. All rights reserved.
 *  Licensed under the Apache License, Version 2.0. See LICENSE.txt in the project root for license information.
 *  This software incorporates material from third parties. See NOTICE.txt for details.
 *--------------------------------------------------------------------------------------------*/

use crate::bit_reader::ReadBits;
use crate::preflate_error::{err_exit_code, ExitCode, Result};
use std::vec;

/// Calculates Huffman code array given an array of Huffman Code Lengths using the RFC 1951 algorithm
pub fn calc_huffman_codes(code_lengths: &[u8]) -> Result<Vec<u16>> {
    let mut result: Vec<u16> = vec![0; code_lengths.len()];

    // The following algorithm generates the codes as integers, intended to be read
    // from least- to most-significant bit.

    // 1)  Count the number of codes for each code length.  Let
    // bl_count[N] be the number of codes of length N, N >= 1.

    let mut maxbits = 0;
    let mut bl_count: [u16; 32] = [0; 32];
    for cbit in code_lengths {
        bl_count[*cbit as usize] += 1;
        if *cbit > maxbits {
            maxbits = *cbit;
        }
    }

    //	2)  Find the numerical value of the smallest code for each code length:

    let mut code: u16 = 0;
    bl_count[0] = 0;
    let mut next_code: [u16; 32] = [0; 32];
    for bits in 1..=maxbits {
        code = (code + bl_count[bits as usize - 1]) << 1;
        next_code[bits as usize] = code;
    }

    // 3)  Assign numerical values to all codes, using consecutive
    // values for all codes of the same length with the base
    // values determined at step 2. Codes that are never used
    // (which have a bit length of zero) must not be assigned a
    // value.

    for n in 0..code_lengths.len() {
        let len = code_lengths[n];
        if len != 0 {
            let mut code = next_code[len as usize];

            // code should be stored in reverse bit order
            let mut rev_code = 0;
            for _ in 0..len {
                rev_code = (rev_code << 1) | (code & 1);
                code >>= 1;
            }

            result[n] = rev_code;
            next_code[len as usize] += 1;
        }
    }

    Ok(result)
}

fn is_valid_huffman_code_lengths(code_lengths: &[u8]) -> bool {
    // Ensure that the array is not empty
    if code_lengths.is_empty() {
        return false;
    }

    // Count the number of codes for each code length using an array
    const MAX_CODE_LENGTH: usize = 16;
    let mut length_count = [0; MAX_CODE_LENGTH];
    for &length in code_lengths.iter() {
        if length as usize >= MAX_CODE_LENGTH {
            return false;
        }
        length_count[length as usize] += 1;
    }

    // essential property of huffman codes is that all internal nodes
    // have exactly two children. This means that the number of internal
    // nodes doubles each time we go down one level in the tree.
    let mut internal_nodes = 2;
    for i in 1..length_count.len() {
        internal_nodes -= length_count[i];
        if internal_nodes < 0 {
            return false;
        }
        internal_nodes *= 2;
    }

    // there should be no more internal nodes left
    internal_nodes == 0
}

/// Calculates Huffman code array given an array of Huffman Code Lengths using the RFC 1951 algorithm
/// Huffman tree will be returned in rg_huff_nodes where:
/// 1. when N is an even number rg_huff_nodes[N] is the array index of the '0' child and
///    rg_huff_nodes[N+1] is the array index of the '1' child
/// 2. If rg_huff_nodes[i] is less than zero then it is a leaf and the literal alphabet value is -rg_huff_nodes[i] + 1
/// 3. The root node index 'N' is rg_huff_nodes.len() - 2. Search should start at that node.
pub fn calculate_huffman_code_tree(code_lengths: &[u8]) -> Result<Vec<i32>> {
    if !is_valid_huffman_code_lengths(code_lengths) {
        return err_exit_code(ExitCode::InvalidDeflate, "Invalid Huffman code lengths");
    }

    let mut c_codes: i32 = 0;
    let mut c_bits_largest = 0;

    // First calculate total number of leaf nodes in the Huffman Tree and the max huffman code length
    for &c_bits in code_lengths {
        if c_bits != 0 {
            c_codes += 1;
        }

        if c_bits > c_bits_largest {
            c_bits_largest = c_bits;
        }
    }

    // Number of internal nodes in the tree will be the ((number of leaf nodes) - 1)
    let mut rg_huff_nodes: Vec<i32> = vec![0; ((c_codes - 1) * 2) as usize]; // Allocation is double as each node has 2 links

    let mut i_huff_nodes: i32 = 0;
    let mut i_huff_nodes_previous_level: i32 = 0;

    // Build the tree from the bottom starting with leafs of longs codes
    for c_bits_cur in (1..=c_bits_largest).rev() {
        let i_huff_nodes_start = i_huff_nodes;
        // Create parent nodes for all leaf codes at current bit length
        for j in 0..code_lengths.len() {
            if code_lengths[j] == c_bits_cur {
                rg_huff_nodes[i_huff_nodes as usize] = -1 - j as i32; // Leaf nodes links store the actual literal character negative biased by -1
                i_huff_nodes += 1;
            }
        }

        // Create parent node links for all remaining nodes from previous iteration
        for j in (i_huff_nodes_previous_level..i_huff_nodes_start).step_by(2) {
            rg_huff_nodes[i_huff_nodes as usize] = j;
            i_huff_nodes += 1;
        }

        i_huff_nodes_previous_level = i_huff_nodes_start;
    }

    Ok(rg_huff_nodes)
}

/// Reads the next Huffman encoded char from bitReader using the Huffman tree encoded in huffman_tree
/// Huffman Nodes are encoded in the array of ints as follows:
/// '0' child link of node 'N' is at huffman_tree[N], '1' child link is at huffman_tree[N + 1]
/// Root of tree is at huffman_tree.len() - 2
pub fn decode_symbol<R: ReadBits>(bit_reader: &mut R, huffman_tree: &[i32]) -> Result<u16> {
    let mut i_node_cur: i32 = huffman_tree.len() as i32 - 2; // Start at the root of the Huffman tree

    loop {
        // Use next bit of input to decide next node
        i_node_cur = huffman_tree[(bit_reader.get(1)? as i32 + i_node_cur) as usize];

        // Negative indicates a leaf node, return alphabet char for this leaf
        if i_node_cur < 0 {
            return Ok((0 - (i_node_cur + 1)) as u16);
        }
    }
}

#[cfg(test)]
/// A ReadBits implementation that reads bits from a single u32 used for unit tests
struct SingleCode {
    pub code: u32,
}

#[cfg(test)]
impl ReadBits for SingleCode {
    fn get(&mut self, cbits: u32) -> std::io::Result<u32> {
        let result = self.code & ((1 << cbits) - 1);
        self.code >>= cbits;

        Ok(result)
    }
}

#[cfg(test)]
fn roundtrip(frequencies: &[u16], huffcalc: crate::huffman_calc::HufftreeBitCalc) {
    use crate::huffman_calc::calc_bit_lengths;

    let code_lengths = calc_bit_lengths(huffcalc, frequencies, 7);

    let codes = calc_huffman_codes(&code_lengths).unwrap();

    let huffman_tree = calculate_huffman_code_tree(&code_lengths).unwrap();

    for i in 0..code_lengths.len() {
        // skip zero length codes
        if code_lengths[i] != 0 {
            // calculate the stream of bits for the code
            let mut code = SingleCode {
                code: codes[i].into(),
            };

            let symbol = decode_symbol(&mut code, &huffman_tree).unwrap();

            assert_eq!(i, symbol as usize);
        }
    }
}
/// verify that the huffman codes generated can be decoded with the huffman code tree
#[test]
fn roundtrip_huffman_code() {
    roundtrip(
        &[1, 0, 2, 3, 5, 8, 13, 0],
        crate::huffman_calc::HufftreeBitCalc::Miniz,
    );
    roundtrip(
        &[1, 0, 2, 3, 5, 8, 13, 0],
        crate::huffman_calc::HufftreeBitCalc::Zlib,
    );

    roundtrip(
        &[1, 0, 2, 3, 5, 1008, 113, 1, 1, 1, 100, 10000],
        crate::huffman_calc::HufftreeBitCalc::Zlib,
    );
}
