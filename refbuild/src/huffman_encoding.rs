/*---------------------------------------------------------------------------------------------
 *  Copyright (c) Microsoft Corporation. All rights reserved.
 *  Licensed under the Apache License, Version 2.0. See LICENSE.txt in the project root for license information.
 *  This software incorporates material from third parties. See NOTICE.txt for details.
 *--------------------------------------------------------------------------------------------*/

use crate::preflate_error::{err_exit_code, ExitCode, Result};

use crate::{
    bit_reader::ReadBits,
    bit_writer::BitWriter,
    huffman_helper::{calc_huffman_codes, calculate_huffman_code_tree, decode_symbol},
    preflate_constants::TREE_CODE_ORDER_TABLE,
};

#[derive(PartialEq, Eq, Clone, Copy, Debug)]
pub enum TreeCodeType {
    /// Code length 0 - 15
    Code = 0,
    /// Copy the previous code length 3 - 6 times.
    Repeat = 16,
    /// Repeat a code length of 0 for 3 - 10 times. (3 bits of length)
    ZeroShort = 17,
    /// Repeat a code length of 0 for 11 - 138 times (7 bits of length)
    ZeroLong = 18,
}

#[derive(Debug, Clone, Eq, PartialEq, Default)]
pub struct HuffmanOriginalEncoding {
    /// Huffman literal/distance lengths as RLE encoded in the file
    pub lengths: Vec<(TreeCodeType, u8)>,

    /// huffman lengths for the code length alphabet used to
    /// encode the huffman table
    pub code_lengths: [u8; 19],

    /// # of Literal/Length codes  (257 - 286)
    pub num_literals: usize,

    /// # of Distance codes         (1 - 32)
    pub num_dist: usize,

    /// # of Code Length codes      (4 - 19)
    pub num_code_lengths: usize,
}

impl HuffmanOriginalEncoding {
    /// Reads a dynamic huffman table from the bit reader. The structure
    /// holds all the information necessary to recode the huffman table
    /// exactly as it was written.
    pub fn read<R: ReadBits>(bit_reader: &mut R) -> Result<HuffmanOriginalEncoding> {
        // 5 Bits: HLIT, # of Literal/Length codes - 257 (257 - 286)
        let hlit = bit_reader.get(5)? as usize + 257;
        // 5 Bits: HDIST, # of Distance codes - 1        (1 - 32)
        let hdist = bit_reader.get(5)? as usize + 1;
        // 4 Bits: HCLEN, # of Code Length codes - 4     (4 - 19)
        let hclen = bit_reader.get(4)? as usize + 4;

        //  HCLEN + 4) x 3 bits: code lengths for the code length
        //  alphabet given just above, in the order: 16, 17, 18,
        //  0, 8, 7, 9, 6, 10, 5, 11, 4, 12, 3, 13, 2, 14, 1, 15
        //	These code lengths are interpreted as 3-bit integers
        //	(0-7); as above, a code length of 0 means the
        //	corresponding symbol (literal/length or distance code
        //	length) is not used.

        let mut code_length_alphabet_code_lengths = [0; 19];
        for i in 0..hclen {
            code_length_alphabet_code_lengths[TREE_CODE_ORDER_TABLE[i]] = bit_reader.get(3)? as u8;
        }

        let code_length_huff_code_tree =
            calculate_huffman_code_tree(&code_length_alphabet_code_lengths)?;

        let c_lengths_combined = hlit + hdist;

        let mut combined_lengths = Vec::new();
        combined_lengths.reserve_exact(c_lengths_combined);

        let mut codes_read: usize = 0;

        while codes_read < c_lengths_combined {
            let w_next: u16 = decode_symbol(bit_reader, &code_length_huff_code_tree)?;

            if w_next <= 15 {
                //	0 - 15: Represent code lengths of 0 - 15
                combined_lengths.push((TreeCodeType::Code, w_next as u8));
                codes_read += 1;
            } else {
                // 16 - 18 represent a repeat code
                let tree_code = match w_next {
                    16 => TreeCodeType::Repeat,
                    17 => TreeCodeType::ZeroShort,
                    18 => TreeCodeType::ZeroLong,
                    _ => {
                        return err_exit_code(ExitCode::InvalidDeflate, "Invalid code length");
                    }
                };

                let (sub, bits) = Self::get_tree_code_adjustment(tree_code);

                let v = bit_reader.get(bits)? as u8 + sub;
                combined_lengths.push((tree_code, v));

                codes_read += v as usize;
            }
        }

        if codes_read != c_lengths_combined {
            return err_exit_code(
                ExitCode::InvalidDeflate,
                "Code table should be same size as hdist + hlit",
            );
        }

        Ok(HuffmanOriginalEncoding {
            lengths: combined_lengths,
            code_lengths: code_length_alphabet_code_lengths,
            num_literals: hlit,
            num_dist: hdist,
            num_code_lengths: hclen,
        })
    }

    /// writes dynamic huffman table to the output buffer using the bitwriter
    pub fn write(&self, bitwriter: &mut BitWriter, output_buffer: &mut Vec<u8>) -> Result<()> {
        bitwriter.write(self.num_literals as u32 - 257, 5, output_buffer);
        bitwriter.write(self.num_dist as u32 - 1, 5, output_buffer);
        bitwriter.write(self.num_code_lengths as u32 - 4, 4, output_buffer);

        for i in 0..self.num_code_lengths {
            bitwriter.write(
                self.code_lengths[TREE_CODE_ORDER_TABLE[i]].into(),
                3,
                output_buffer,
            );
        }

        let codes = calc_huffman_codes(&self.code_lengths)?;

        for &(tree_code, length) in self.lengths.iter() {
            match tree_code {
                TreeCodeType::Code => {
                    bitwriter.write(
                        codes[length as usize].into(),
                        self.code_lengths[length as usize].into(),
                        output_buffer,
                    );
                }
                TreeCodeType::Repeat | TreeCodeType::ZeroShort | TreeCodeType::ZeroLong => {
                    bitwriter.write(
                        codes[tree_code as usize].into(),
                        self.code_lengths[tree_code as usize].into(),
                        output_buffer,
                    );

                    let (sub, bits) = Self::get_tree_code_adjustment(tree_code);
                    bitwriter.write((length - sub).into(), bits, output_buffer);
                }
            }
        }

        Ok(())
    }

    /// returns the length and distance tables for the fixed huffman table
    fn get_fixed_distance_lengths() -> (Vec<u8>, Vec<u8>) {
        let mut lit_code_lengths = Vec::new();
        lit_code_lengths.reserve_exact(288);

        // Create Length table for the Literal Alphabet
        //   Range	Code Length
        //   0 - 143     8
        // 144 - 255     9
        // 256 - 279     7
        // 280 - 287     8
        for i in 0..288 {
            let mut wbits: u8 = 8;
            if (144..=255).contains(&i) {
                wbits = 9;
            } else if (256..=279).contains(&i) {
                wbits = 7;
            }

            lit_code_lengths.push(wbits);
        }

        (lit_code_lengths, vec![5; 32])
    }

    /// returns the combined literal and distance lengths
    pub fn get_literal_distance_lengths(&self) -> (Vec<u8>, Vec<u8>) {
        let mut lengths = Vec::new();
        let mut prevcode = 0;

        for &(tree_code, length) in self.lengths.iter() {
            match tree_code {
                TreeCodeType::Code => {
                    lengths.push(length);
                    prevcode = length;
                }
                TreeCodeType::Repeat => {
                    for _ in 0..length {
                        lengths.push(prevcode);
                    }
                }
                TreeCodeType::ZeroShort | TreeCodeType::ZeroLong => {
                    for _ in 0..length {
                        lengths.push(0);
                    }
                }
            }
        }

        (
            lengths[0..self.num_literals].to_vec(),
            lengths[self.num_literals..].to_vec(),
        )
    }

    /// returns the constants used to adjust the coding of tree code types
    /// (amount to subtract, #bits to encode)
    const fn get_tree_code_adjustment(tree_code: TreeCodeType) -> (u8, u32) {
        match tree_code {
            TreeCodeType::Repeat => (3, 2),
            TreeCodeType::ZeroShort => (3, 3),
            TreeCodeType::ZeroLong => (11, 7),
            TreeCodeType::Code => unreachable!(),
        }
    }
}

pub struct HuffmanReader {
    lit_huff_code_tree: Vec<i32>,
    dist_huff_code_tree: Vec<i32>,
}

pub struct HuffmanWriter {
    lit_code_lengths: Vec<u8>,
    lit_huffman_codes: Vec<u16>,
    dist_code_lengths: Vec<u8>,
    dist_huffman_codes: Vec<u16>,
}

impl HuffmanReader {
    /// Create Fixed Huffman code tables
    ///
    /// The Huffman codes for the two alphabets are fixed, and are not
    /// represented explicitly in the data.  The Huffman code lengths
    /// for the literal/length alphabet are:
    ///
    /// Lit Value    Bits        Codes
    /// ---------    ----        -----
    ///   0 - 143     8          00110000 through
    ///                          10111111
    /// 144 - 255     9          110010000 through
    ///                          111111111
    /// 256 - 279     7          0000000 through
    ///                          0010111
    /// 280 - 287     8          11000000 through
    ///                          11000111
    /// The code lengths are sufficient to generate the actual codes,
    /// as described above; we show the codes in the table for added
    /// clarity.  Literal/length values 286-287 will never actually
    /// occur in the compressed data, but participate in the code
    /// construction.
    pub fn create_fixed() -> Result<Self> {
        let (lit_lengths, dist_lengths) = HuffmanOriginalEncoding::get_fixed_distance_lengths();

        Ok(HuffmanReader {
            lit_huff_code_tree: calculate_huffman_code_tree(&lit_lengths)?,
            dist_huff_code_tree: calculate_huffman_code_tree(&dist_lengths)?,
        })
    }

    /// creates a reader from the encoding of the huffman table
    pub fn create_from_original_encoding(
        huffman_original_encoding: &HuffmanOriginalEncoding,
    ) -> Result<Self> {
        let (lit_lengths, dist_lengths) = huffman_original_encoding.get_literal_distance_lengths();

        Ok(HuffmanReader {
            lit_huff_code_tree: calculate_huffman_code_tree(&lit_lengths)?,
            dist_huff_code_tree: calculate_huffman_code_tree(&dist_lengths)?,
        })
    }

    pub fn fetch_next_literal_code<R: ReadBits>(&self, bit_reader: &mut R) -> Result<u16> {
        decode_symbol(bit_reader, &self.lit_huff_code_tree)
    }

    pub fn fetch_next_distance_char<R: ReadBits>(&self, bit_reader: &mut R) -> Result<u16> {
        decode_symbol(bit_reader, &self.dist_huff_code_tree)
    }
}

impl HuffmanWriter {
    pub fn start_dynamic_huffman_table(
        bitwriter: &mut BitWriter,
        huffman_encoding: &HuffmanOriginalEncoding,
        output_buffer: &mut Vec<u8>,
    ) -> Result<Self> {
        bitwriter.write(2, 2, output_buffer);

        huffman_encoding.write(bitwriter, output_buffer)?; // write the huffman table

        let (lit_lengths, dist_lengths) = huffman_encoding.get_literal_distance_lengths();

        let lit_codes = calc_huffman_codes(&lit_lengths)?;
        let dist_codes = calc_huffman_codes(&dist_lengths)?;

        Ok(HuffmanWriter {
            lit_code_lengths: lit_lengths,
            lit_huffman_codes: lit_codes,
            dist_code_lengths: dist_lengths,
            dist_huffman_codes: dist_codes,
        })
    }

    pub fn start_fixed_huffman_table() -> Self {
        let (lit_lengths, dist_lengths) = HuffmanOriginalEncoding::get_fixed_distance_lengths();

        let lit_codes = calc_huffman_codes(&lit_lengths).unwrap();
        let dist_codes = calc_huffman_codes(&dist_lengths).unwrap();

        HuffmanWriter {
            lit_code_lengths: lit_lengths,
            lit_huffman_codes: lit_codes,
            dist_code_lengths: dist_lengths,
            dist_huffman_codes: dist_codes,
        }
    }

    pub fn write_literal(&self, bitwriter: &mut BitWriter, output_buffer: &mut Vec<u8>, lit: u16) {
        let code = self.lit_huffman_codes[lit as usize];
        let c_bits = self.lit_code_lengths[lit as usize];

        bitwriter.write(code.into(), c_bits.into(), output_buffer);
    }

    pub fn write_distance(
        &self,
        bitwriter: &mut BitWriter,
        output_buffer: &mut Vec<u8>,
        dist: u16,
    ) {
        let code = self.dist_huffman_codes[dist as usize];
        let c_bits = self.dist_code_lengths[dist as usize];

        bitwriter.write(code.into(), c_bits.into(), output_buffer);
    }
}

#[test]
fn roundtrip_huffman_bitreadwrite() {
    use crate::bit_reader::BitReader;
    use std::io::Cursor;

    let code_lengths = [1, 0, 3, 3, 4, 4, 3, 0];

    let codes = calc_huffman_codes(&code_lengths).unwrap();

    let mut bit_writer = BitWriter::default();
    let mut data_buffer = Vec::new();
    for i in 0..code_lengths.len() {
        if code_lengths[i] != 0 {
            bit_writer.write(codes[i] as u32, code_lengths[i] as u32, &mut data_buffer);
        }
    }
    // write a sentinal to make sure that we read everything properly
    bit_writer.write(0x1234, 16, &mut data_buffer);
    bit_writer.pad(0, &mut data_buffer);

    let mut reader = Cursor::new(&data_buffer);
    let mut bit_reader = BitReader::new(&mut reader);

    let huffman_tree = calculate_huffman_code_tree(&code_lengths).unwrap();

    for i in 0..code_lengths.len() {
        if code_lengths[i] != 0 {
            assert_eq!(
                i as u16,
                decode_symbol(&mut bit_reader, &huffman_tree).unwrap()
            );
        }
    }

    // read sentinal to make sure we read everything correctly
    assert_eq!(
        bit_reader.get(16).unwrap(),
        0x1234,
        "sentinal value didn't match"
    );
}

#[test]
fn roundtrip_complicated() {
    #[rustfmt::skip]
    let h = HuffmanOriginalEncoding {
        lengths: vec![(TreeCodeType::ZeroShort, 10), (TreeCodeType::Code, 11), (TreeCodeType::Code, 0), (TreeCodeType::Code, 0),
            (TreeCodeType::Code, 11), (TreeCodeType::ZeroLong, 18), (TreeCodeType::Code, 6), (TreeCodeType::Code, 14), (TreeCodeType::ZeroShort, 5),
            (TreeCodeType::Code, 11), (TreeCodeType::Code, 9), (TreeCodeType::Code, 10), (TreeCodeType::Code, 0), (TreeCodeType::Code, 0), (TreeCodeType::Code, 10),
            (TreeCodeType::Code, 11), (TreeCodeType::Code, 8), (TreeCodeType::Code, 0), (TreeCodeType::Code, 7), (TreeCodeType::Code, 6), (TreeCodeType::Repeat, 6),
            (TreeCodeType::Code, 6), (TreeCodeType::Code, 7), (TreeCodeType::Code, 10), (TreeCodeType::Code, 0), (TreeCodeType::Code, 0), (TreeCodeType::Code, 10),
            (TreeCodeType::ZeroShort, 3), (TreeCodeType::Code, 8), (TreeCodeType::Repeat, 5), (TreeCodeType::Code, 11), (TreeCodeType::Code, 0), (TreeCodeType::Code, 9),
            (TreeCodeType::Code, 0), (TreeCodeType::Code, 0), (TreeCodeType::Code, 10), (TreeCodeType::Code, 10), (TreeCodeType::Code, 11), (TreeCodeType::Code, 9),
            (TreeCodeType::Code, 10), (TreeCodeType::Code, 12), (TreeCodeType::Code, 10), (TreeCodeType::Code, 9), (TreeCodeType::Code, 10),
            (TreeCodeType::Code, 11), (TreeCodeType::Code, 0), (TreeCodeType::Code, 11), (TreeCodeType::ZeroShort, 3), (TreeCodeType::Code, 11), (TreeCodeType::Code, 9), (TreeCodeType::Code, 11),
            (TreeCodeType::Code, 0), (TreeCodeType::Code, 11), (TreeCodeType::Code, 12), (TreeCodeType::Code, 7), (TreeCodeType::Code, 10), (TreeCodeType::Code, 8),
            (TreeCodeType::Code, 8), (TreeCodeType::Code, 6), (TreeCodeType::Code, 9), (TreeCodeType::Code, 8), (TreeCodeType::Code, 8),
            (TreeCodeType::Code, 8), (TreeCodeType::Code, 0), (TreeCodeType::Code, 10), (TreeCodeType::Code, 8), (TreeCodeType::Code, 9),
            (TreeCodeType::Code, 7), (TreeCodeType::Code, 7), (TreeCodeType::Code, 8), (TreeCodeType::Code, 13), (TreeCodeType::Code, 7), (TreeCodeType::Code, 7), (TreeCodeType::Code, 7), (TreeCodeType::Code, 8), (TreeCodeType::Code, 11),
            (TreeCodeType::Code, 10), (TreeCodeType::Code, 10), (TreeCodeType::Code, 8), (TreeCodeType::Code, 12), (TreeCodeType::ZeroLong, 133), (TreeCodeType::Code, 14), (TreeCodeType::Code, 5),
            (TreeCodeType::Code, 6), (TreeCodeType::Code, 6), (TreeCodeType::Code, 4), (TreeCodeType::Code, 5), (TreeCodeType::Code, 5), (TreeCodeType::Code, 8), (TreeCodeType::Code, 5),
            (TreeCodeType::Code, 5), (TreeCodeType::Code, 6), (TreeCodeType::Code, 4), (TreeCodeType::Code, 6), (TreeCodeType::Code, 5), (TreeCodeType::Code, 9), (TreeCodeType::Code, 5), (TreeCodeType::Code, 7), (TreeCodeType::Code, 4),
            (TreeCodeType::Code, 5), (TreeCodeType::Code, 6), (TreeCodeType::Code, 7), (TreeCodeType::Code, 4), (TreeCodeType::Code, 6), (TreeCodeType::Code, 6), (TreeCodeType::Code, 6), (TreeCodeType::Code, 7), (TreeCodeType::Code, 7),
            (TreeCodeType::Code, 8), (TreeCodeType::Code, 8), (TreeCodeType::Code, 6), (TreeCodeType::Code, 12), (TreeCodeType::Code, 0), (TreeCodeType::Code, 0), (TreeCodeType::Code, 13),
            (TreeCodeType::Code, 13), (TreeCodeType::Code, 11), (TreeCodeType::Code, 9), (TreeCodeType::Code, 10), (TreeCodeType::Code, 9), (TreeCodeType::Code, 9), (TreeCodeType::Code, 5), (TreeCodeType::Code, 7), (TreeCodeType::Code, 6),
            (TreeCodeType::Code, 5), (TreeCodeType::Code, 5), (TreeCodeType::Code, 6), (TreeCodeType::Code, 5), (TreeCodeType::Code, 5), (TreeCodeType::Code, 4), (TreeCodeType::Code, 4),
            (TreeCodeType::Code, 3), (TreeCodeType::Code, 3), (TreeCodeType::Code, 4), (TreeCodeType::Repeat, 4), (TreeCodeType::Code, 5), (TreeCodeType::Code, 4), (TreeCodeType::Code, 6)],
        code_lengths: [3, 0, 0, 6, 4, 3, 3, 4, 3, 4, 3, 4, 5, 6, 6, 0, 6, 6, 6],
        num_literals: 286,
        num_dist: 30,
        num_code_lengths: 17
    };

    rountrip_test(h);
}

#[test]
fn roundtrip_huffman_table() {
    // simple hardcoded encoding

    let encoding = HuffmanOriginalEncoding {
        lengths: vec![
            (TreeCodeType::Code, 1),
            (TreeCodeType::Code, 2),
            (TreeCodeType::Code, 3),
            (TreeCodeType::ZeroLong, 138),
            (TreeCodeType::ZeroLong, 115),
            (TreeCodeType::Code, 3),
            (TreeCodeType::Code, 1),
            (TreeCodeType::Code, 2),
            (TreeCodeType::Code, 2),
        ],
        code_lengths: [0, 2, 2, 2, 0, 0, 0, 0, 0, 0, 0, 0, 0, 0, 0, 0, 0, 0, 2],
        num_literals: 257,
        num_dist: 3,
        num_code_lengths: 19,
    };

    rountrip_test(encoding);
}

#[cfg(test)]
fn rountrip_test(encoding: HuffmanOriginalEncoding) {
    use crate::bit_reader::BitReader;
    use std::io::Cursor;

    let mut output_buffer = Vec::new();
    let mut bit_writer = BitWriter::default();
    encoding.write(&mut bit_writer, &mut output_buffer).unwrap();

    // write a sentinal to make sure that we read everything properly
    bit_writer.write(0x1234, 16, &mut output_buffer);

    // flush everything
    bit_writer.pad(0, &mut output_buffer);
    bit_writer.flush_whole_bytes(&mut output_buffer);

    // now re-read the encoding
    let mut reader = Cursor::new(&output_buffer);
    let mut bit_reader = BitReader::new(&mut reader);
    let encoding2 = HuffmanOriginalEncoding::read(&mut bit_reader).unwrap();
    assert_eq!(encoding, encoding2);

    // verify sentinal to make sure we didn't write anything extra or too little
    assert_eq!(
        bit_reader.get(16).unwrap(),
        0x1234,
        "sentinal value didn't match"
    );
}
