/*---------------------------------------------------------------------------------------------
 *  Copyright (c) Microsoft Corporation. All rights reserved.
 *  Licensed under the Apache License, Version 2.0. See LICENSE.txt in the project root for license information.
 *  This software incorporates material from third parties. See NOTICE.txt for details.
 *--------------------------------------------------------------------------------------------*/

 struct PreflateStreamInfo {
    token_count: usize,
    literal_count: usize,
    reference_count: usize,
    max_dist: usize,
    max_tokens_per_block: usize,
    count_blocks: usize,
    count_stored_blocks: usize,
    count_huff_blocks: usize,
    count_rle_blocks: usize,
    count_static_huff_tree_blocks: usize,
}

fn extract_preflate_info(blocks: &Vec<PreflateTokenBlock>) -> PreflateStreamInfo {
    let mut result = PreflateStreamInfo::default();
    result.count_blocks = blocks.len() as u32;
    for (i, b) in blocks.iter().enumerate() {
        if b.block_type == TokenBlockType::Stored {
            result.count_stored_blocks += 1;
            continue;
        }
        if b.block_type == TokenBlockType::StaticHuff {
            result.count_static_huff_tree_blocks += 1;
        }
        result.token_count += b.tokens.len() as u32;
        result.max_tokens_per_block = cmp::max(result.max_tokens_per_block, b.tokens.len() as u32);
        let mut block_max_dist = 0;
        for (j, t) in b.tokens.iter().enumerate() {
            if t.len == 1 {
                result.literal_count += 1;
            } else {
                result.reference_count += 1;
                block_max_dist = cmp::max(block_max_dist, t.dist as u32);
            }
        }
        result.max_dist = cmp::max(result.max_dist, block_max_dist);
        if block_max_dist == 0 {
            result.count_huff_blocks += 1;
        } else if block_max_dist == 1 {
            result.count_rle_blocks += 1;
        }
    }
    return result;
}