/*---------------------------------------------------------------------------------------------
 *  Copyright (c) Microsoft Corporation. All rights reserved.
 *  Licensed under the Apache License, Version 2.0. See LICENSE.txt in the project root for license information.
 *  This software incorporates material from third parties. See NOTICE.txt for details.
 *--------------------------------------------------------------------------------------------*/

use cabac::traits::{CabacReader, CabacWriter};

use crate::{
    bit_helper::bit_length,
    statistical_codec::{
        CodecCorrection, CodecMisprediction, CountNonDefaultActions, PredictionDecoder,
        PredictionEncoder,
    },
};

/// calculates the difference between two values, keeping track
/// of the sign as the lowest bit so that the difference is never negative
pub fn encode_difference(pred_val: u32, act_val: u32) -> u32 {
    if pred_val >= act_val {
        (pred_val - act_val) << 1
    } else {
        ((act_val - pred_val) << 1) | 1
    }
}

/// decodes the result of the previous calculation
pub fn decode_difference(pred_val: u32, encoded_val: u32) -> u32 {
    if encoded_val & 1 == 0 {
        pred_val - (encoded_val >> 1)
    } else {
        pred_val + (encoded_val >> 1)
    }
}

#[test]
fn test_encode_decode_difference() {
    for i in 0..10 {
        assert_eq!(i, decode_difference(0, encode_difference(0, i)));
        assert_eq!(i, decode_difference(10, encode_difference(10, i)));
        assert_eq!(i, decode_difference(100, encode_difference(100, i)));
    }
}

#[derive(Default)]
struct PredictionCabacContext<CTX> {
    default_count: u32,

    default_encoding: [CTX; 16],
    default_encoding_nbits: [CTX; 16],
    correction: [[CTX; 8]; CodecCorrection::MAX as usize],
    correction_bits: [[CTX; 8]; CodecCorrection::MAX as usize],

    non_default_ops_mis: [u32; CodecMisprediction::MAX as usize],

    bypass_bits: u32,
    //debug_ops: VecDeque<DebugOps>,
}

impl<CTX> PredictionCabacContext<CTX> {
    fn write_bypass<W: CabacWriter<CTX>>(value: u32, max_bits: u8, writer: &mut W) {
        for i in (0..max_bits).rev() {
            writer.put_bypass((value >> i) & 1 == 1).unwrap();
        }
    }

    fn write_exp_encoded<const N: usize, W: CabacWriter<CTX>>(
        value: u32,
        context: &mut [CTX; N],
        context_bits: &mut [CTX; N],
        writer: &mut W,
    ) {
        let bl = bit_length(value) as usize;

        writer.put_unary_encoded(bl, context).unwrap();

        if bl > 1 {
            writer
                .put_n_bits((value & ((1 << bl) - 1)).into(), bl - 1, context_bits)
                .unwrap();
        }
    }

    fn read_bypass<R: CabacReader<CTX>>(max_bits: u8, reader: &mut R) -> u32 {
        let mut retval = 0;
        for _i in 0..max_bits {
            retval <<= 1;
            retval |= reader.get_bypass().unwrap() as u32;
        }

        retval
    }

    fn read_exp_value<R: CabacReader<CTX>, const N: usize>(
        context: &mut [CTX; N],
        context_bits: &mut [CTX; N],
        reader: &mut R,
    ) -> u32 {
        let bits_found = reader.get_unary_encoded(context).unwrap();

        match bits_found {
            0 => 0,
            1 => 1,
            _ => {
                reader.get_n_bits(bits_found - 1, context_bits).unwrap() as u32
                    | (1 << (bits_found - 1))
            }
        }
    }

    fn write_default<W: CabacWriter<CTX>>(&mut self, writer: &mut W) {
        Self::write_exp_encoded(
            self.default_count,
            &mut self.default_encoding,
            &mut self.default_encoding_nbits,
            writer,
        );

        /*self.debug_ops
        .push_back(DebugOps::Default(self.default_count));*/

        self.default_count = 0;
    }

    fn encode_value<W: CabacWriter<CTX>>(&mut self, value: u16, max_bits: u8, writer: &mut W) {
        if self.default_count > 0 {
            self.write_default(writer);
        }

        Self::write_bypass(value.into(), max_bits, writer);
        //self.debug_ops.push_back(DebugOps::Bypass(value, max_bits));

        self.bypass_bits += max_bits as u32;
    }

    fn encode_misprediction<W: CabacWriter<CTX>>(
        &mut self,
        misprediction: bool,
        context: CodecMisprediction,
        writer: &mut W,
    ) {
        if self.default_count > 0 {
            self.write_default(writer);
        }

        if misprediction {
            self.write_default(writer);

            self.non_default_ops_mis[context as usize] += 1;
        } else {
            self.default_count += 1;
        }
    }

    fn encode_correction<W: CabacWriter<CTX>>(
        &mut self,
        val: u32,
        context: CodecCorrection,
        writer: &mut W,
    ) {
        if self.default_count > 0 {
            self.write_default(writer);
        }

        if val != 0 {
            self.write_default(writer);

            //self.debug_ops.push_back(DebugOps::Correction(val, context));

            Self::write_exp_encoded(
                val,
                &mut self.correction[context as usize],
                &mut self.correction_bits[context as usize],
                writer,
            );
        } else {
            self.default_count += 1;
        }
    }

    fn flush_encode(&mut self, writer: &mut impl CabacWriter<CTX>) {
        if self.default_count > 0 {
            self.write_default(writer);
        }
    }

    fn read_default<R: CabacReader<CTX>>(&mut self, reader: &mut R) {
        let c = Self::read_exp_value(
            &mut self.default_encoding,
            &mut self.default_encoding_nbits,
            reader,
        );

        self.default_count = c;

        //assert_eq!(DebugOps::Default(c), self.debug_ops.pop_front().unwrap());
    }

    fn decode_value<R: CabacReader<CTX>>(&mut self, max_bits_orig: u8, reader: &mut R) -> u16 {
        assert_eq!(0, self.default_count, "default count should be 0");

        let r = Self::read_bypass(max_bits_orig, reader);

        /*assert_eq!(
            DebugOps::Bypass(r as u16, max_bits_orig),
            self.debug_ops.pop_front().unwrap()
        );*/

        r as u16
    }

    pub fn decode_misprediction<R: CabacReader<CTX>>(
        &mut self,
        _context: CodecMisprediction,
        reader: &mut R,
    ) -> bool {
        if self.default_count == 0 {
            self.read_default(reader);
        }

        if self.default_count > 0 {
            self.default_count -= 1;
            false
        } else {
            true
        }
    }

    fn decode_correction<R: CabacReader<CTX>>(
        &mut self,
        context: CodecCorrection,
        reader: &mut R,
    ) -> u32 {
        if self.default_count == 0 {
            self.read_default(reader);
        }

        if self.default_count > 0 {
            self.default_count -= 1;
            0
        } else {
            /*assert_eq!(
                DebugOps::Correction(r, context),
                self.debug_ops.pop_front().unwrap()
            );*/
            Self::read_exp_value(
                &mut self.correction[context as usize],
                &mut self.correction_bits[context as usize],
                reader,
            )
        }
    }
}

pub struct PredictionEncoderCabac<W, CTX> {
    context: PredictionCabacContext<CTX>,
    count: CountNonDefaultActions,
    writer: W,
}

impl<W: CabacWriter<CTX>, CTX: Default> PredictionEncoderCabac<W, CTX> {
    pub fn new(writer: W) -> Self {
        Self {
            context: PredictionCabacContext::<CTX>::default(),
            writer,
            count: CountNonDefaultActions::default(),
        }
    }

    /// for debugging
    #[allow(dead_code)]
    pub fn print(&self) {
        self.count.print();
        println!("bypass bits: {} bytes", self.context.bypass_bits / 8)
    }
}

#[cfg(feature = "verif-hooks")]
impl<W, CTX> PredictionEncoderCabac<W, CTX> {
    pub(crate) fn verif_writer(&self) -> &W {
        &self.writer
    }
}

#[cfg(feature = "verif-hooks")]
impl<R, CTX> PredictionDecoderCabac<R, CTX> {
    pub(crate) fn verif_reader(&self) -> &R {
        &self.reader
    }
}

impl<W: CabacWriter<CTX>, CTX> PredictionEncoder for PredictionEncoderCabac<W, CTX> {
    fn encode_value(&mut self, value: u16, max_bits: u8) {
        self.context.encode_value(value, max_bits, &mut self.writer);
    }

    fn encode_verify_state(&mut self, _message: &'static str, _checksum: u64) {}

    fn encode_correction(&mut self, action: CodecCorrection, value: u32) {
        self.context
            .encode_correction(value, action, &mut self.writer);
        self.count.record_correction(action, value);
    }

    fn encode_misprediction(&mut self, action: CodecMisprediction, value: bool) {
        self.context
            .encode_misprediction(value, action, &mut self.writer);
        self.count.record_misprediction(action, value);
    }

    fn finish(&mut self) {
        self.context.flush_encode(&mut self.writer);
        self.writer.finish().unwrap();
    }
}

pub struct PredictionDecoderCabac<R, CTX> {
    context: PredictionCabacContext<CTX>,
    reader: R,
}

impl<R: CabacReader<CTX>, CTX: Default> PredictionDecoderCabac<R, CTX> {
    pub fn new(reader: R) -> Self {
        Self {
            context: PredictionCabacContext::<CTX>::default(),
            reader,
        }
    }
}

impl<R: CabacReader<CTX>, CTX> PredictionDecoder for PredictionDecoderCabac<R, CTX> {
    fn decode_value(&mut self, max_bits_orig: u8) -> u16 {
        self.context.decode_value(max_bits_orig, &mut self.reader)
    }
    fn decode_verify_state(&mut self, _message: &'static str, _checksum: u64) {}

    fn decode_correction(&mut self, correction: CodecCorrection) -> u32 {
        self.context.decode_correction(correction, &mut self.reader)
    }

    fn decode_misprediction(&mut self, misprediction: CodecMisprediction) -> bool {
        self.context
            .decode_misprediction(misprediction, &mut self.reader)
    }
}

#[test]
fn roundtree_cabac_decoding() {
    use crate::statistical_codec::{drive_encoder, verify_decoder, CodecAction};
    use cabac::vp8::{VP8Reader, VP8Writer};
    use std::io::Cursor;

    let mut buffer = Vec::new();

    let test_codec_actions = [
        CodecAction::Value(200, 8),
        CodecAction::Misprediction(CodecMisprediction::DistanceCountMisprediction, true),
        CodecAction::Correction(CodecCorrection::TokenCount, 100000),
        CodecAction::Correction(CodecCorrection::BlockTypeCorrection, 5),
        CodecAction::Correction(CodecCorrection::DistAfterLenCorrection, 0),
    ];

    let mut encoder = PredictionEncoderCabac::new(VP8Writer::new(&mut buffer).unwrap());

    drive_encoder(&mut encoder, &test_codec_actions);

    encoder.finish();

    let mut decoder = PredictionDecoderCabac::new(VP8Reader::new(Cursor::new(&buffer)).unwrap());

    verify_decoder(&mut decoder, &test_codec_actions);
}

#[cfg(test)]
#[derive(Copy, Clone, Debug, Eq, PartialEq)]
enum Operation {
    Correction(u32, CodecCorrection),
    Misprediction(bool, CodecMisprediction),
    Value(u16, u8),
}

#[test]
fn roundtree_cabac_correction() {
    // use the debug version of the cabac writer/reader to make sure that the we don't mix up contexts anywhere
    use cabac::debug::{DebugReader, DebugWriter};
    use std::io::Cursor;

    // generate a random set of operations
    let operations = [
        Operation::Misprediction(false, CodecMisprediction::DistanceCountMisprediction),
        Operation::Value(10, 4),
        Operation::Value(10, 4),
        Operation::Correction(1, CodecCorrection::BlockTypeCorrection),
        Operation::Value(156, 8),
        Operation::Correction(2, CodecCorrection::BlockTypeCorrection),
        Operation::Correction(3, CodecCorrection::BlockTypeCorrection),
        Operation::Correction(4, CodecCorrection::BlockTypeCorrection),
        Operation::Value(100, 8),
        Operation::Correction(0, CodecCorrection::DistAfterLenCorrection),
        Operation::Correction(0, CodecCorrection::DistOnlyCorrection),
        Operation::Correction(7, CodecCorrection::LDTypeCorrection),
        Operation::Correction(9, CodecCorrection::LenCorrection),
        Operation::Misprediction(false, CodecMisprediction::DistanceCountMisprediction),
        Operation::Correction(100000, CodecCorrection::TokenCount),
        Operation::Misprediction(false, CodecMisprediction::IrregularLen258),
        Operation::Value(10, 4),
        Operation::Misprediction(false, CodecMisprediction::DistanceCountMisprediction),
        //Operation::Misprediction(true, CodecMisprediction::DistanceCountMisprediction),
    ];

    let mut buffer = Vec::new();

    let mut context = PredictionCabacContext::default();
    let mut writer = DebugWriter::new(&mut buffer).unwrap();

    for &o in operations.iter() {
        match o {
            Operation::Correction(val, context_type) => {
                context.encode_correction(val, context_type, &mut writer);
            }
            Operation::Misprediction(val, context_type) => {
                context.encode_misprediction(val, context_type, &mut writer);
            }
            Operation::Value(value, num_bits) => context.encode_value(value, num_bits, &mut writer),
        }
    }

    context.flush_encode(&mut writer);
    writer.finish().unwrap();

    context = PredictionCabacContext::default();

    let mut reader = DebugReader::new(Cursor::new(&buffer)).unwrap();

    for (i, &o) in operations.iter().enumerate() {
        match o {
            Operation::Correction(val, context_type) => {
                assert_eq!(
                    val,
                    context.decode_correction(context_type, &mut reader),
                    "operation {}",
                    i
                );
            }
            Operation::Misprediction(val, context_type) => {
                assert_eq!(
                    val,
                    context.decode_misprediction(context_type, &mut reader),
                    "operation {}",
                    i
                );
            }
            Operation::Value(val, num_bits) => {
                assert_eq!(
                    val,
                    context.decode_value(num_bits, &mut reader),
                    "operation {}",
                    i
                );
            }
        }
    }
}

#[test]
fn roundtrip_cabac_write_value() {
    use cabac::vp8::{VP8Context, VP8Reader, VP8Writer};
    use std::io::Cursor;

    let mut buffer = Vec::new();

    let mut writer = VP8Writer::new(&mut buffer).unwrap();

    let mut context = [
        VP8Context::default(),
        VP8Context::default(),
        VP8Context::default(),
        VP8Context::default(),
    ];

    let mut context_bits = [
        VP8Context::default(),
        VP8Context::default(),
        VP8Context::default(),
        VP8Context::default(),
    ];

    for i in 0..10 {
        PredictionCabacContext::write_exp_encoded(
            i * 13,
            &mut context,
            &mut context_bits,
            &mut writer,
        );
    }

    writer.finish().unwrap();

    let mut reader = VP8Reader::new(Cursor::new(&buffer)).unwrap();
    context = [
        VP8Context::default(),
        VP8Context::default(),
        VP8Context::default(),
        VP8Context::default(),
    ];

    context_bits = [
        VP8Context::default(),
        VP8Context::default(),
        VP8Context::default(),
        VP8Context::default(),
    ];

    for i in 0..10 {
        assert_eq!(
            i * 13,
            PredictionCabacContext::read_exp_value(&mut context, &mut context_bits, &mut reader)
        );
    }
}
