/*---------------------------------------------------------------------------------------------
 *  Copyright (c) Microsoft Corporation. All rights reserved.
 *  Licensed under the Apache License, Version 2.0. See LICENSE.txt in the project root for license information.
 *  This software incorporates material from third parties. See NOTICE.txt for details.
 *--------------------------------------------------------------------------------------------*/

/// This module is design to detect the appropriate overall parameters for the preflate compressor.
/// Getting the parameters correct means that the resulting diff between the deflate stream
/// and the predicted deflate stream will be as small as possible.
use crate::{
    add_policy_estimator::DictionaryAddPolicy,
    depth_estimator::{new_depth_estimator, HashTableDepthEstimator},
    hash_algorithm::HashAlgorithm,
    preflate_constants,
    preflate_error::{err_exit_code, ExitCode, Result},
    preflate_input::PreflateInput,
    preflate_parse_config::{
        MatchingType, SLOW_PREFLATE_PARSER_SETTINGS, ZLIB_PREFLATE_PARSER_SETTINGS,
    },
    preflate_token::{BlockType, PreflateToken, PreflateTokenBlock, PreflateTokenReference},
};

#[derive(Default)]
pub struct CompLevelInfo {
    pub zlib_compatible: bool,
    pub reference_count: u32,
    pub unfound_references: u32,
    pub matches_to_start_detected: bool,
    pub very_far_matches_detected: bool,
    pub max_dist_3_matches: u16,
    pub min_len: u32,
    pub add_policy: DictionaryAddPolicy,
    pub hash_algorithm: HashAlgorithm,
    pub match_type: MatchingType,
    pub nice_length: u32,
    pub max_chain: u32,
}

struct CandidateInfo {
    hash_algorithm: HashAlgorithm,
    depth_estimator: Box<dyn HashTableDepthEstimator>,

    longest_dist_at_hop_0: u32,
    longest_dist_at_hop_1_plus: u32,
    max_chain_found: u32,
}

impl CandidateInfo {
    fn new(hash_algorithm: HashAlgorithm) -> Self {
        Self {
            hash_algorithm,
            depth_estimator: new_depth_estimator(hash_algorithm),
            longest_dist_at_hop_0: 0,
            longest_dist_at_hop_1_plus: 0,
            max_chain_found: 0,
        }
    }

    fn match_depth(&mut self, token: PreflateTokenReference, input: &PreflateInput) -> bool {
        let mdepth = self.depth_estimator.match_depth(token, input);

        // remove element if the match was impossible due to matching the
        // the hash depth or because in fast mode we can't match partial words
        // added to the dictionary.
        if mdepth < 8196 {
            self.max_chain_found = std::cmp::max(self.max_chain_found, mdepth);

            if mdepth == 0 {
                self.longest_dist_at_hop_0 =
                    std::cmp::max(self.longest_dist_at_hop_0, token.dist());
            } else {
                self.longest_dist_at_hop_1_plus =
                    std::cmp::max(self.longest_dist_at_hop_1_plus, token.dist());
            }

            true
        } else {
            /*if input.pos() == 803428 {
                let mdepth = self.invoke_match_depth(token, window_size, input);
            }

            if self.hash_algorithm() == HashAlgorithm::Libdeflate4 {
                println!("libflate4");
            }

            println!(
                "removed candidate sl={:?}, mask={}, pos={}, token={:?} hash={:?}, max_chain={}",
                self.skip_length,
                self.hash_mask,
                input.pos(),
                token,
                self.hash_algorithm(),
                self.max_chain_found,
            );*/
            false
        }
    }

    fn max_chain_found(&self) -> u32 {
        self.max_chain_found
    }

    fn hash_algorithm(&self) -> HashAlgorithm {
        self.hash_algorithm
    }
}

struct CompLevelEstimatorState<'a> {
    input: PreflateInput<'a>,

    /// candidates for checking for which hash algorithm to use
    candidates: Vec<Box<CandidateInfo>>,

    add_policy: DictionaryAddPolicy,

    blocks: &'a Vec<PreflateTokenBlock>,
    wsize: u16,
    reference_count: u32,
    unfound_references: u32,
    match_to_start: bool,

    longest_len_3_dist: u32,
    min_len: u32,
}

impl<'a> CompLevelEstimatorState<'a> {
    pub fn new(
        wbits: u32,
        mem_level: u32,
        plain_text: &'a [u8],
        add_policy: DictionaryAddPolicy,
        min_len: u32,
        blocks: &'a Vec<PreflateTokenBlock>,
    ) -> Self {
        let hash_bits = mem_level + 7;
        let mem_hash_shift = (hash_bits + 2) / 3;
        let mem_hash_mask = ((1u32 << hash_bits) - 1) as u16;

        let input = PreflateInput::new(plain_text);

        let mut candidates: Vec<Box<CandidateInfo>> = Vec::new();

        if min_len == 3 {
            let mut hashparameters = vec![(5, 0x7fff), (4, 2047), (4, 4095)];

            if !hashparameters
                .iter()
                .any(|&(a, b)| a == mem_hash_shift && b == mem_hash_mask)
            {
                hashparameters.push((mem_hash_shift, mem_hash_mask));
            }

            candidates.push(Box::new(CandidateInfo::new(HashAlgorithm::MiniZFast)));

            for (hash_shift, hash_mask) in [(5, 32767), (4, 2047)] {
                candidates.push(Box::new(CandidateInfo::new(HashAlgorithm::Zlib {
                    hash_mask,
                    hash_shift,
                })));
            }

            // LibFlate4 candidate
            candidates.push(Box::new(CandidateInfo::new(HashAlgorithm::Libdeflate4)));

            // RandomVector candidate
            candidates.push(Box::new(CandidateInfo::new(HashAlgorithm::RandomVector)));
        } else {
            // Libflate4 fast (only 4 bytes or more)
            candidates.push(Box::new(CandidateInfo::new(HashAlgorithm::Libdeflate4Fast)));

            // ZlibNG candidate
            candidates.push(Box::new(CandidateInfo::new(HashAlgorithm::ZlibNG)));

            // Crc32c candidate
            candidates.push(Box::new(CandidateInfo::new(HashAlgorithm::Crc32cHash)));
        }

        CompLevelEstimatorState {
            input,
            add_policy: add_policy,
            candidates,
            blocks,
            wsize: 1 << wbits,
            reference_count: 0,
            unfound_references: 0,
            match_to_start: false,
            longest_len_3_dist: 0,
            min_len: min_len,
        }
    }

    /// updates all the active candidates with the current hash and advance it
    fn update_candidate_hashes(&mut self, length: u32) {
        for i in &mut self.candidates {
            i.depth_estimator
                .update_hash(self.add_policy, &self.input, length);
        }

        self.input.advance(length);
    }

    fn check_match(&mut self, token: PreflateTokenReference) {
        self.reference_count += 1;

        if self.input.pos() < token.dist() || self.candidates.is_empty() {
            self.unfound_references += 1;
            return;
        }

        self.candidates
            .retain_mut(|c| c.match_depth(token, &self.input));

        if token.dist() == self.input.pos() {
            self.match_to_start = true;
        }

        if token.len() == 3 {
            self.longest_len_3_dist = std::cmp::max(self.longest_len_3_dist, token.dist());
        }
    }

    fn check_dump(&mut self) {
        for (_i, b) in self.blocks.iter().enumerate() {
            if b.block_type == BlockType::Stored {
                for _i in 0..b.uncompressed.len() {
                    self.update_candidate_hashes(1);
                }
                continue;
            }
            for (_j, t) in b.tokens.iter().enumerate() {
                match t {
                    PreflateToken::Literal(_) => {
                        self.update_candidate_hashes(1);
                    }
                    &PreflateToken::Reference(r) => {
                        self.check_match(r);
                        self.update_candidate_hashes(r.len());
                    }
                }
            }
        }
    }

    fn recommend(&mut self) -> Result<CompLevelInfo> {
        if self.candidates.is_empty() {
            return err_exit_code(ExitCode::PredictBlock, "no candidates found");
        }

        let candidate = self
            .candidates
            .iter()
            .min_by(|&a, &b| a.max_chain_found().cmp(&b.max_chain_found()))
            .unwrap();

        let mut match_type = MatchingType::Greedy;
        let mut nice_length = 258;

        let max_chain = candidate.max_chain_found() + 1;
        let hash_algorithm = candidate.hash_algorithm();
        let longest_dist_at_hop_0 = candidate.longest_dist_at_hop_0;
        let longest_dist_at_hop_1_plus = candidate.longest_dist_at_hop_1_plus;

        match self.add_policy {
            DictionaryAddPolicy::AddFirst(_)
            | DictionaryAddPolicy::AddFirstAndLast(_)
            | DictionaryAddPolicy::AddFirstWith32KBoundary
            | DictionaryAddPolicy::AddFirstExcept4kBoundary => {
                for config in &ZLIB_PREFLATE_PARSER_SETTINGS {
                    if candidate.max_chain_found() < config.max_chain {
                        match_type = config.match_type;
                        nice_length = config.nice_length;
                        break;
                    }
                }
            }
            DictionaryAddPolicy::AddAll => {
                for config in &SLOW_PREFLATE_PARSER_SETTINGS {
                    if candidate.max_chain_found() < config.max_chain {
                        match_type = config.match_type;
                        nice_length = config.nice_length;
                        break;
                    }
                }
            }
        }

        if candidate.max_chain_found() >= 4096 {
            return err_exit_code(
                ExitCode::PredictBlock,
                format!("max_chain_found too large: {}", candidate.max_chain_found()).as_str(),
            );
        }

        let very_far_matches = longest_dist_at_hop_0
            > self.window_size() - preflate_constants::MIN_LOOKAHEAD
            || longest_dist_at_hop_1_plus >= self.window_size() - preflate_constants::MIN_LOOKAHEAD;

        Ok(CompLevelInfo {
            reference_count: self.reference_count,
            unfound_references: self.unfound_references,
            matches_to_start_detected: self.match_to_start,
            very_far_matches_detected: very_far_matches,
            max_dist_3_matches: self.longest_len_3_dist as u16,
            add_policy: self.add_policy,
            match_type,
            nice_length,
            max_chain,
            min_len: self.min_len,
            hash_algorithm,
            zlib_compatible: !self.match_to_start
                && !very_far_matches
                && (self.longest_len_3_dist < 4096
                    || self.add_policy != DictionaryAddPolicy::AddAll),
        })
    }

    fn window_size(&self) -> u32 {
        self.wsize.into()
    }
}

pub fn estimate_preflate_comp_level(
    wbits: u32,
    mem_level: u32,
    min_len: u32,
    plain_text: &[u8],
    add_policy: DictionaryAddPolicy,
    blocks: &Vec<PreflateTokenBlock>,
) -> Result<CompLevelInfo> {
    let mut state =
        CompLevelEstimatorState::new(wbits, mem_level, plain_text, add_policy, min_len, blocks);
    state.check_dump();
    state.recommend()
}
