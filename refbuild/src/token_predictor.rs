/*---------------------------------------------------------------------------------------------
 *  Copyright (c) Microsoft Corporation. All rights reserved.
 *  Licensed under the Apache License, Version 2.0. See LICENSE.txt in the project root for license information.
 *  This software incorporates material from third parties. See NOTICE.txt for details.
 *--------------------------------------------------------------------------------------------*/

use crate::{
    add_policy_estimator::DictionaryAddPolicy,
    bit_helper::DebugHash,
    cabac_codec::{decode_difference, encode_difference},
    hash_algorithm::HashAlgorithm,
    hash_chain_holder::{new_hash_chain_holder, HashChainHolder, MatchResult},
    preflate_constants::MIN_MATCH,
    preflate_error::{err_exit_code, AddContext, ExitCode, Result},
    preflate_input::PreflateInput,
    preflate_parameter_estimator::PreflateStrategy,
    preflate_parse_config::MatchingType,
    preflate_token::{BlockType, PreflateToken, PreflateTokenBlock, PreflateTokenReference},
    statistical_codec::{
        CodecCorrection, CodecMisprediction, PredictionDecoder, PredictionEncoder,
    },
};

const VERIFY: bool = false;

pub struct TokenPredictor<'a> {
    state: Box<dyn HashChainHolder>,
    params: TokenPredictorParameters,
    pending_reference: Option<PreflateTokenReference>,
    current_token_count: u32,
    max_token_count: u32,
    input: PreflateInput<'a>,
}

#[derive(Debug, Copy, Clone, Eq, PartialEq)]
pub struct TokenPredictorParameters {
    /// Zlib does not match to first byte of a file in order to reserve 0 for the end of chain
    pub matches_to_start_detected: bool,

    /// if there are matches that have a distance larger than window_size - MAX_MATCH.
    /// Zlib does not allow these.
    pub very_far_matches_detected: bool,
    pub window_bits: u32,

    pub strategy: PreflateStrategy,
    pub nice_length: u32,

    /// if something, then we use the "fast" compressor, which only adds smaller substrings
    /// to the dictionary
    pub add_policy: DictionaryAddPolicy,

    pub max_token_count: u16,

    pub zlib_compatible: bool,
    pub max_dist_3_matches: u16,
    pub matching_type: MatchingType,
    pub max_chain: u32,
    pub min_len: u32,

    pub hash_algorithm: HashAlgorithm,
}

impl<'a> TokenPredictor<'a> {
    pub fn new(uncompressed: PreflateInput<'a>, params: &TokenPredictorParameters) -> Self {
        // Implement constructor logic for PreflateTokenPredictor
        // Initialize fields as necessary
        // Create and initialize PreflatePredictorState, PreflateHashChainExt, and PreflateSeqChain instances
        // Construct the analysisResults vector

        let predictor_state = new_hash_chain_holder(params);

        Self {
            state: predictor_state,
            params: *params,
            pending_reference: None,
            current_token_count: 0,
            max_token_count: params.max_token_count.into(),
            input: uncompressed,
        }
    }

    pub fn checksum(&self) -> DebugHash {
        assert!(VERIFY);
        let mut c = DebugHash::default();
        self.state.checksum(&mut c);
        c
    }

    pub fn predict_block<D: PredictionEncoder>(
        &mut self,
        block: &PreflateTokenBlock,
        codec: &mut D,
        last_block: bool,
    ) -> Result<()> {
        self.current_token_count = 0;
        self.pending_reference = None;

        codec.encode_verify_state("blocktypestart", 0);

        codec.encode_correction(
            CodecCorrection::BlockTypeCorrection,
            encode_difference(BlockType::DynamicHuff as u32, block.block_type as u32),
        );

        if block.block_type == BlockType::Stored {
            codec.encode_value(block.uncompressed.len() as u16, 16);

            codec.encode_correction(CodecCorrection::NonZeroPadding, block.padding_bits.into());

            for _i in 0..block.uncompressed.len() {
                self.state.update_hash(1, &self.input);
                self.input.advance(1);
            }

            return Ok(());
        }

        // if the block ends at an unexpected point, or it contains more tokens
        // than expected, we will need to encode the block size
        if (!last_block && block.tokens.len() != self.max_token_count as usize)
            || block.tokens.len() > self.max_token_count as usize
        {
            codec.encode_correction(
                CodecCorrection::TokenCount,
                u32::try_from(block.tokens.len()).unwrap() + 1,
            );
        } else {
            codec.encode_correction(CodecCorrection::TokenCount, 0);
        }

        codec.encode_verify_state("start", if VERIFY { self.checksum().hash() } else { 0 });

        for i in 0..block.tokens.len() {
            let target_token = &block.tokens[i];

            codec.encode_verify_state(
                "token",
                if VERIFY {
                    self.checksum().hash()
                } else {
                    i as u64
                },
            );

            /*
            if i == 7718
                && *target_token
                    == PreflateToken::Reference(PreflateTokenReference::new(7, 17, false))
            {
                println!("target = {:?}", target_token)
            }*/

            let predicted_token = self.predict_token();

            /*
            let hash = self.state.calculate_hash();
            println!(
                "B{}T{}: TGT({},{}) -> PRD({},{}), H({})",
                blockno,
                i,
                block.tokens[i].len(),
                block.tokens[i].dist(),
                predicted_token.len(),
                predicted_token.dist(),
                hash
            );
            */

            // Debug print statement
            // println!("B{}T{}: TGT({},{}) -> PRD({},{})", blockno, i, target_token.len, target_token.dist, predicted_token.len, predicted_token.dist);

            match target_token {
                PreflateToken::Literal(_) => {
                    match predicted_token {
                        PreflateToken::Literal(_) => {
                            codec.encode_misprediction(
                                CodecMisprediction::LiteralPredictionWrong,
                                false,
                            );
                        }
                        PreflateToken::Reference(..) => {
                            // target had a literal, so we were wrong if we predicted a reference
                            codec.encode_misprediction(
                                CodecMisprediction::ReferencePredictionWrong,
                                true,
                            );
                        }
                    }
                }
                PreflateToken::Reference(target_ref) => {
                    let predicted_ref = match predicted_token {
                        PreflateToken::Literal(_) => {
                            // target had a reference, so we were wrong if we predicted a literal
                            codec.encode_misprediction(
                                CodecMisprediction::LiteralPredictionWrong,
                                true,
                            );
                            self.repredict_reference(Some(*target_ref))
                                .with_context(|| {
                                    format!(
                                        "repredict_reference target={:?} index={}",
                                        target_ref, i
                                    )
                                })?
                        }
                        PreflateToken::Reference(r) => {
                            // we predicted a reference correctly, so verify that the length/dist was correct
                            codec.encode_misprediction(
                                CodecMisprediction::ReferencePredictionWrong,
                                false,
                            );
                            r
                        }
                    };

                    codec.encode_correction(
                        CodecCorrection::LenCorrection,
                        encode_difference(predicted_ref.len(), target_ref.len()),
                    );

                    if predicted_ref.len() != target_ref.len() {
                        let rematch = self
                            .state
                            .calculate_hops(target_ref, &self.input)
                            .with_context(|| {
                                format!("calculate_hops p={:?}, t={:?}", predicted_ref, target_ref)
                            })?;
                        codec.encode_correction(CodecCorrection::DistAfterLenCorrection, rematch);
                    } else if target_ref.dist() != predicted_ref.dist() {
                        let rematch = self
                            .state
                            .calculate_hops(target_ref, &self.input)
                            .with_context(|| {
                                format!("calculate_hops p={:?}, t={:?}", predicted_ref, target_ref)
                            })?;
                        codec.encode_correction(CodecCorrection::DistOnlyCorrection, rematch);
                    } else {
                        codec.encode_correction(CodecCorrection::DistOnlyCorrection, 0);
                    }

                    if target_ref.len() == 258 {
                        codec.encode_misprediction(
                            CodecMisprediction::IrregularLen258,
                            target_ref.get_irregular258(),
                        );
                    }
                }
            }

            self.commit_token(target_token, None);
        }

        codec.encode_verify_state("done", if VERIFY { self.checksum().hash() } else { 0 });

        Ok(())
    }

    pub fn recreate_block<D: PredictionDecoder>(
        &mut self,
        codec: &mut D,
    ) -> Result<PreflateTokenBlock> {
        let mut block;
        self.current_token_count = 0;
        self.pending_reference = None;

        const BT_STORED: u32 = BlockType::Stored as u32;
        const BT_DYNAMICHUFF: u32 = BlockType::DynamicHuff as u32;
        const BT_STATICHUFF: u32 = BlockType::StaticHuff as u32;

        codec.decode_verify_state("blocktypestart", 0);

        let bt = decode_difference(
            BT_DYNAMICHUFF,
            codec.decode_correction(CodecCorrection::BlockTypeCorrection),
        );
        match bt {
            BT_STORED => {
                block = PreflateTokenBlock::new(BlockType::Stored);
                let uncompressed_len = codec.decode_value(16).into();
                block.padding_bits = codec.decode_correction(CodecCorrection::NonZeroPadding) as u8;
                block.uncompressed.reserve(uncompressed_len as usize);

                for _i in 0..uncompressed_len {
                    block.uncompressed.push(self.input.cur_char(0));
                    self.state.update_hash(1, &self.input);
                    self.input.advance(1);
                }
                return Ok(block);
            }
            BT_STATICHUFF => {
                block = PreflateTokenBlock::new(BlockType::StaticHuff);
            }
            BT_DYNAMICHUFF => {
                block = PreflateTokenBlock::new(BlockType::DynamicHuff);
            }
            _ => {
                return err_exit_code(ExitCode::InvalidDeflate, "Invalid block type");
            }
        }

        let mut blocksize = codec.decode_correction(CodecCorrection::TokenCount);
        if blocksize == 0 {
            blocksize = self.max_token_count;
        } else {
            blocksize -= 1;
        }

        block.tokens.reserve(blocksize as usize);

        codec.decode_verify_state("start", if VERIFY { self.checksum().hash() } else { 0 });

        while !self.input_eof() && self.current_token_count < blocksize {
            codec.decode_verify_state(
                "token",
                if VERIFY {
                    self.checksum().hash()
                } else {
                    self.current_token_count as u64
                },
            );

            let mut predicted_ref: PreflateTokenReference;
            match self.predict_token() {
                PreflateToken::Literal(l) => {
                    let not_ok =
                        codec.decode_misprediction(CodecMisprediction::LiteralPredictionWrong);
                    if !not_ok {
                        self.commit_token(&PreflateToken::Literal(l), Some(&mut block));
                        continue;
                    }

                    predicted_ref = self.repredict_reference(None).with_context(|| {
                        format!(
                            "repredict_reference token_count={:?}",
                            self.current_token_count
                        )
                    })?;
                }
                PreflateToken::Reference(r) => {
                    let not_ok =
                        codec.decode_misprediction(CodecMisprediction::ReferencePredictionWrong);
                    if not_ok {
                        self.commit_token(
                            &PreflateToken::Literal(self.input.cur_char(0)),
                            Some(&mut block),
                        );
                        continue;
                    }

                    predicted_ref = r;
                }
            }

            let new_len = decode_difference(
                predicted_ref.len(),
                codec.decode_correction(CodecCorrection::LenCorrection),
            );
            if new_len != predicted_ref.len() {
                let hops = codec.decode_correction(CodecCorrection::DistAfterLenCorrection);

                predicted_ref = PreflateTokenReference::new(
                    new_len,
                    self.state
                        .hop_match(new_len, hops, &self.input)
                        .with_context(|| format!("hop_match l={} {:?}", new_len, predicted_ref))?,
                    false,
                );
            } else {
                let hops = codec.decode_correction(CodecCorrection::DistOnlyCorrection);
                if hops != 0 {
                    let new_dist = self
                        .state
                        .hop_match(predicted_ref.len(), hops, &self.input)
                        .with_context(|| {
                            format!("recalculate_distance token {}", self.current_token_count)
                        })?;
                    predicted_ref = PreflateTokenReference::new(new_len, new_dist, false);
                }
            }

            if predicted_ref.len() == 258
                && codec.decode_misprediction(CodecMisprediction::IrregularLen258)
            {
                predicted_ref.set_irregular258(true);
            }

            self.commit_token(&PreflateToken::Reference(predicted_ref), Some(&mut block));
        }

        codec.decode_verify_state("done", if VERIFY { self.checksum().hash() } else { 0 });

        Ok(block)
    }

    pub fn input_eof(&self) -> bool {
        // Return a boolean indicating whether input has reached EOF
        self.input.remaining() == 0
    }

    fn predict_token(&mut self) -> PreflateToken {
        if self.input.pos() == 0 || self.input.remaining() < MIN_MATCH {
            return PreflateToken::Literal(self.input.cur_char(0));
        }

        let m = if let Some(pending) = self.pending_reference {
            MatchResult::Success(pending)
        } else {
            self.state
                .match_token_0(0, self.params.max_chain, &self.input)
        };

        self.pending_reference = None;

        if let MatchResult::Success(match_token) = m {
            if match_token.len() < MIN_MATCH {
                return PreflateToken::Literal(self.input.cur_char(0));
            }

            // match is too small and far way to be worth encoding as a distance/length pair.
            if match_token.len() == 3 && match_token.dist() > self.params.max_dist_3_matches.into()
            {
                return PreflateToken::Literal(self.input.cur_char(0));
            }

            // Check for a longer match that starts at the next byte, in which case we should
            // just emit a literal instead of a distance/length pair.
            if let MatchingType::Lazy {
                good_length,
                max_lazy,
            } = self.params.matching_type
            {
                if match_token.len() < u32::from(max_lazy)
                    && self.input.remaining() >= match_token.len() + 2
                {
                    let mut max_depth = self.params.max_chain;

                    if self.params.zlib_compatible && match_token.len() >= u32::from(good_length) {
                        // zlib shortens the amount we search by half if the match is "good" enough
                        max_depth >>= 2;
                    }

                    let match_next =
                        self.state
                            .match_token_1(match_token.len(), max_depth, &self.input);

                    if let MatchResult::Success(m) = match_next {
                        if m.len() > match_token.len() {
                            self.pending_reference = Some(m);

                            if !self.params.zlib_compatible {
                                self.pending_reference = None;
                            }
                            return PreflateToken::Literal(self.input.cur_char(0));
                        }
                    }
                }
            }

            PreflateToken::Reference(match_token)
        } else {
            PreflateToken::Literal(self.input.cur_char(0))
        }
    }

    /// When the predicted token was a literal, but the actual token was a reference, try again
    /// to find a match for the reference.
    fn repredict_reference(
        &mut self,
        _dist_match: Option<PreflateTokenReference>,
    ) -> Result<PreflateTokenReference> {
        if self.input.pos() == 0 || self.input.remaining() < MIN_MATCH {
            return err_exit_code(
                ExitCode::RecompressFailed,
                "Not enough space left to find a reference",
            );
        }

        /*
        if let Some(x) = dist_match {
            if x.dist() == 32653 {
                println!("dist_match = {:?}", dist_match);
            }
        }
        */

        let match_token = self
            .state
            .match_token_0(0, self.params.max_chain, &self.input);

        self.pending_reference = None;

        if let MatchResult::Success(m) = match_token {
            if m.len() >= MIN_MATCH {
                return Ok(m);
            }
        }

        err_exit_code(
            ExitCode::MatchNotFound,
            format!("Didnt find a match {:?}", match_token).as_str(),
        )
    }

    fn commit_token(&mut self, token: &PreflateToken, block: Option<&mut PreflateTokenBlock>) {
        match token {
            PreflateToken::Literal(lit) => {
                if let Some(block) = block {
                    block.add_literal(*lit);
                }

                self.state.update_hash(1, &self.input);
                self.input.advance(1);
            }
            PreflateToken::Reference(t) => {
                if let Some(block) = block {
                    block.add_reference(t.len(), t.dist(), t.get_irregular258());
                }

                self.state.update_hash(t.len(), &self.input);
                self.input.advance(t.len());
            }
        }

        self.current_token_count += 1;
    }
}
