/*---------------------------------------------------------------------------------------------
 *  Copyright (c) Microsoft Corporation. All rights reserved.
 *  Licensed under the Apache License, Version 2.0. See LICENSE.txt in the project root for license information.
 *  This software incorporates material from third parties. See NOTICE.txt for details.
 *--------------------------------------------------------------------------------------------*/

#[allow(dead_code)]
#[derive(Copy, Clone, Debug, Eq, PartialEq)]
pub enum HufftreeBitCalc {
    Zlib,
    Miniz,
}

pub fn calc_bit_lengths(
    bit_calc: HufftreeBitCalc,
    sym_count: &[u16],
    code_size_limit: usize,
) -> Vec<u8> {
    match bit_calc {
        HufftreeBitCalc::Zlib => calc_zlib::calc_bit_lengths(sym_count, code_size_limit),
        HufftreeBitCalc::Miniz => calc_minzoxide::calc_bit_lengths(sym_count, code_size_limit),
    }
}

mod calc_minzoxide {
    use std::mem;

    const MAX_SUPPORTED_HUFF_CODESIZE: usize = 32;

    /// calculates the bit lengths for a given distribution of symbols.
    /// Trailing zeros are removed and the maximum code size is enforced.
    pub fn calc_bit_lengths(sym_count: &[u16], code_size_limit: usize) -> Vec<u8> {
        let mut symbols0 = Vec::new();
        let mut max_used = 0;

        for i in 0..sym_count.len() {
            if sym_count[i] != 0 {
                symbols0.push(SymFreq {
                    key: sym_count[i],
                    sym_index: i as u16,
                });
                max_used = i + 1;
            }
        }

        let num_used_symbols = symbols0.len();

        let mut symbols1 = Vec::new();
        symbols1.resize(
            num_used_symbols,
            SymFreq {
                key: 0,
                sym_index: 0,
            },
        );

        let symbols = radix_sort_symbols(&mut symbols0[..], &mut symbols1[..]);
        calculate_minimum_redundancy(symbols);

        let mut num_codes = [0i32; MAX_SUPPORTED_HUFF_CODESIZE + 1];
        for symbol in symbols.iter() {
            num_codes[symbol.key as usize] += 1;
        }

        enforce_max_code_size(&mut num_codes, num_used_symbols, code_size_limit);

        let mut code_sizes = vec![0; max_used];

        let mut last = num_used_symbols;
        for (i, &num_item) in num_codes
            .iter()
            .enumerate()
            .take(code_size_limit + 1)
            .skip(1)
        {
            let first = last - num_item as usize;
            for symbol in &symbols[first..last] {
                code_sizes[symbol.sym_index as usize] = i as u8;
            }
            last = first;
        }

        code_sizes
    }

    #[derive(Copy, Clone)]
    struct SymFreq {
        key: u16,
        sym_index: u16,
    }

    fn radix_sort_symbols<'a>(
        symbols0: &'a mut [SymFreq],
        symbols1: &'a mut [SymFreq],
    ) -> &'a mut [SymFreq] {
        let mut hist = [[0; 256]; 2];

        for freq in symbols0.iter() {
            hist[0][(freq.key & 0xFF) as usize] += 1;
            hist[1][((freq.key >> 8) & 0xFF) as usize] += 1;
        }

        let mut n_passes = 2;
        if symbols0.len() == hist[1][0] {
            n_passes -= 1;
        }

        let mut current_symbols = symbols0;
        let mut new_symbols = symbols1;

        for (pass, hist_item) in hist.iter().enumerate().take(n_passes) {
            let mut offsets = [0; 256];
            let mut offset = 0;
            for i in 0..256 {
                offsets[i] = offset;
                offset += hist_item[i];
            }

            for sym in current_symbols.iter() {
                let j = ((sym.key >> (pass * 8)) & 0xFF) as usize;
                new_symbols[offsets[j]] = *sym;
                offsets[j] += 1;
            }

            mem::swap(&mut current_symbols, &mut new_symbols);
        }

        current_symbols
    }

    fn calculate_minimum_redundancy(symbols: &mut [SymFreq]) {
        match symbols.len() {
            0 => (),
            1 => symbols[0].key = 1,
            n => {
                symbols[0].key += symbols[1].key;
                let mut root = 0;
                let mut leaf = 2;
                for next in 1..n - 1 {
                    if (leaf >= n) || (symbols[root].key < symbols[leaf].key) {
                        symbols[next].key = symbols[root].key;
                        symbols[root].key = next as u16;
                        root += 1;
                    } else {
                        symbols[next].key = symbols[leaf].key;
                        leaf += 1;
                    }

                    if (leaf >= n) || (root < next && symbols[root].key < symbols[leaf].key) {
                        symbols[next].key = symbols[next].key.wrapping_add(symbols[root].key);
                        symbols[root].key = next as u16;
                        root += 1;
                    } else {
                        symbols[next].key = symbols[next].key.wrapping_add(symbols[leaf].key);
                        leaf += 1;
                    }
                }

                symbols[n - 2].key = 0;
                for next in (0..n - 2).rev() {
                    symbols[next].key = symbols[symbols[next].key as usize].key + 1;
                }

                let mut avbl = 1;
                let mut used = 0;
                let mut dpth = 0;
                let mut root = (n - 2) as i32;
                let mut next = (n - 1) as i32;
                while avbl > 0 {
                    while (root >= 0) && (symbols[root as usize].key == dpth) {
                        used += 1;
                        root -= 1;
                    }
                    while avbl > used {
                        symbols[next as usize].key = dpth;
                        next -= 1;
                        avbl -= 1;
                    }
                    avbl = 2 * used;
                    dpth += 1;
                    used = 0;
                }
            }
        }
    }

    fn enforce_max_code_size(num_codes: &mut [i32], code_list_len: usize, max_code_size: usize) {
        if code_list_len <= 1 {
            return;
        }

        num_codes[max_code_size] += num_codes[max_code_size + 1..].iter().sum::<i32>();
        let total = num_codes[1..=max_code_size]
            .iter()
            .rev()
            .enumerate()
            .fold(0u32, |total, (i, &x)| total + ((x as u32) << i));

        for _ in (1 << max_code_size)..total {
            num_codes[max_code_size] -= 1;
            for i in (1..max_code_size).rev() {
                if num_codes[i] != 0 {
                    num_codes[i] -= 1;
                    num_codes[i + 1] += 2;
                    break;
                }
            }
        }
    }

    /// verify that the huffman codes generated can be decoded with the huffman code tree
    #[test]
    fn roundtrip_huffman_code() {
        // requires overflow treatment
        let frequencies = [
            1, 0, 1, 0, 9, 9, 8, 19, 36, 70, 73, 34, 5, 6, 0, 0, 11, 1, 0,
        ];
        let code_lengths = calc_bit_lengths(&frequencies, 7);
        assert_eq!(
            code_lengths[..],
            [7, 0, 7, 0, 5, 5, 5, 4, 3, 2, 2, 3, 7, 5, 0, 0, 5, 7]
        );

        let frequencies = [2, 0, 0, 0, 8, 7, 4, 5, 54, 32, 4, 6, 3, 1, 2, 0, 34, 0, 0];
        let code_lengths = calc_bit_lengths(&frequencies, 7);
        assert_eq!(
            code_lengths[..],
            [7, 0, 0, 0, 4, 5, 6, 5, 2, 2, 5, 5, 6, 7, 6, 0, 2]
        );
    }
}

mod calc_zlib {
    #[derive(Copy, Clone, Debug)]
    enum HuffTree {
        Leaf(usize),
        Node { left: usize, right: usize },
    }

    #[derive(Copy, Clone, Debug)]
    struct HuffTreeNode {
        freq: u32,
        depth: u32,
        tree: HuffTree,
    }

    impl Eq for HuffTreeNode {}

    impl PartialEq for HuffTreeNode {
        fn eq(&self, other: &Self) -> bool {
            self.freq == other.freq
        }
    }

    impl Ord for HuffTreeNode {
        fn cmp(&self, other: &Self) -> std::cmp::Ordering {
            let r = other.freq.cmp(&self.freq);
            if r == std::cmp::Ordering::Equal {
                other.depth.cmp(&self.depth)
            } else {
                r
            }
        }
    }

    impl PartialOrd for HuffTreeNode {
        fn partial_cmp(&self, other: &Self) -> Option<std::cmp::Ordering> {
            Some(self.cmp(other))
        }
    }

    /// Restore the heap property by moving down the tree starting at node k.
    /// Exchange a node with the smallest of its two sons if necessary.
    /// Stop when the heap property is re-established (each father smaller than its two sons).
    fn pqdownheap(heap: &mut Vec<HuffTreeNode>, mut root: usize) {
        /// Compares two subtrees using the tree depth as a tie-breaker when frequencies are equal.
        fn smaller(n: &HuffTreeNode, m: &HuffTreeNode) -> bool {
            n.freq < m.freq || (n.freq == m.freq && n.depth <= m.depth)
        }

        let mut child = 2 * root + 1;

        let v = heap[root];

        while child < heap.len() {
            // Set j to the smallest of the two sons:
            if child + 1 < heap.len() && smaller(&heap[child + 1], &heap[child]) {
                child += 1;
            }

            // Exit if v is smaller than both sons
            if smaller(&v, &heap[child]) {
                break;
            }

            heap[root] = heap[child];
            root = child;

            // And continue down the tree, setting j to the left son of k
            child = 2 * root + 1;
        }

        heap[root] = v;
    }

    const SMALLEST: usize = 0;

    pub fn calc_bit_lengths(sym_freq: &[u16], max_bits: usize) -> Vec<u8> {
        // construct binary heap so that we can get out the frequencies in ascending order
        let mut heap = Vec::new();
        let mut max_code = 0;

        for (index, &freq) in sym_freq.iter().enumerate() {
            if freq > 0 {
                heap.push(HuffTreeNode {
                    freq: freq as u32,
                    depth: 0,
                    tree: HuffTree::Leaf(index),
                });
                max_code = index;
            }
        }

        let mut node_bit_len = vec![0u8; max_code + 1];

        if heap.len() <= 1 {
            // only one symbol, so give it a bit length of 1, plus some other random symbol
            // in order to ensure we have a valid tree
            node_bit_len[max_code] = 1;

            if max_code != 0 {
                node_bit_len[0] = 1;
            } else {
                node_bit_len.push(1);
            }

            return node_bit_len;
        }

        let mut n = heap.len() / 2;
        while n >= 1 {
            n -= 1;
            pqdownheap(&mut heap, n);
        }

        let mut nodes = Vec::new();

        loop {
            // get the two smallest frequencies and combine them into one new node
            let least1 = heap[SMALLEST];
            heap[SMALLEST] = heap.pop().unwrap();
            pqdownheap(&mut heap, SMALLEST);

            let least2 = heap[SMALLEST];

            let sum_freq = least1.freq + least2.freq;
            let sum_depth = std::cmp::max(least1.depth, least2.depth) + 1;

            nodes.push(least1);
            nodes.push(least2);

            let node = HuffTreeNode {
                freq: sum_freq,
                depth: sum_depth,
                tree: HuffTree::Node {
                    left: nodes.len() - 1,
                    right: nodes.len() - 2,
                },
            };

            if heap.len() == 1 {
                // last node goes at the end
                nodes.push(node);
                break;
            } else {
                heap[SMALLEST] = node;
                pqdownheap(&mut heap, 0);
            }
        }

        fn count_recursive(
            n: &[HuffTreeNode],
            index: usize,
            node_bit_len: &mut Vec<u8>,
            depth: u8,
        ) {
            match n[index].tree {
                HuffTree::Leaf(symbol) => node_bit_len[symbol] = depth,
                HuffTree::Node { left, right } => {
                    count_recursive(n, left, node_bit_len, depth + 1);
                    count_recursive(n, right, node_bit_len, depth + 1);
                }
            }
        }

        // assign the bit lengths for each symbol by walking down the tree
        // and counting the depth of each leaf node
        count_recursive(&nodes, nodes.len() - 1, &mut node_bit_len, 0);

        // enforce the maximum bit length by counting the number of symbols that
        // have a bit length greater than the maximum and then redistributing
        let mut bl_count = vec![0; max_bits + 1];
        let mut overflow = 0;
        for &bit_len in &node_bit_len {
            let mut new_len: usize = bit_len.into();

            if new_len > max_bits {
                new_len = max_bits;
                overflow += 1;
            }

            bl_count[new_len] += 1;
        }

        if overflow > 0 {
            // redistribute the bit lengths to remove the overflow
            while overflow > 0 {
                let mut bits = max_bits - 1;
                while bl_count[bits] == 0 {
                    bits -= 1;
                }

                bl_count[bits] -= 1;
                bl_count[bits + 1] += 2;
                bl_count[max_bits] -= 1;

                overflow -= 2;
            }

            // now reassign the bitlengths to the nodes (since we already have them in the right order)
            let mut bits = max_bits;
            for node in nodes.iter() {
                if let HuffTree::Leaf(idx) = node.tree {
                    while bl_count[bits] == 0 {
                        bits -= 1;
                    }

                    node_bit_len[idx] = bits as u8;
                    bl_count[bits] -= 1;
                }
            }
        }

        node_bit_len
    }

    #[cfg(test)]
    fn test_result(sym_freq: &[u16], max_bits: usize, expected: &[u8]) {
        let result = calc_bit_lengths(sym_freq, max_bits);
        assert_eq!(result[..], expected[..]);
    }

    #[test]
    fn sift_down_t() {
        let freq = [10, 9, 8, 7, 6, 5, 4];

        let mut heap: Vec<HuffTreeNode> = freq
            .iter()
            .map(|&x| HuffTreeNode {
                freq: x,
                depth: 0,
                tree: HuffTree::Leaf(0),
            })
            .collect();

        println!("{:?}", heap.iter().map(|x| x.freq).collect::<Vec<_>>());
        pqdownheap(&mut heap, 0);
        println!("{:?}", heap.iter().map(|x| x.freq).collect::<Vec<_>>());

        let mut n = heap.len() - 1;
        while n >= 1 {
            n -= 1;
            pqdownheap(&mut heap, n);
        }

        loop {
            println!("{}", heap[0].freq);

            if heap.len() == 1 {
                break;
            }
            heap[0] = heap.pop().unwrap();
            pqdownheap(&mut heap, 0);
        }
    }

    #[test]
    fn roundtrip_huffman_code_simple() {
        test_result(&[0, 1, 2, 4, 8, 16, 32], 7, &[0, 5, 5, 4, 3, 2, 1]);
    }

    // requires overflow treatment
    #[test]
    fn roundtrip_huffman_code_overflow() {
        test_result(
            &[
                1, 0, 1, 1, 5, 10, 9, 18, 29, 59, 91, 28, 11, 1, 2, 0, 12, 1, 0,
            ],
            7,
            &[7, 0, 7, 7, 6, 5, 5, 4, 3, 2, 2, 3, 5, 7, 7, 0, 5, 7],
        );
    }

    #[test]
    fn roundtrip_huffman_code_normal() {
        test_result(
            &[
                1, 0, 1, 0, 9, 9, 8, 19, 36, 70, 73, 34, 5, 6, 0, 0, 11, 1, 0,
            ],
            7,
            &[7, 0, 7, 0, 5, 5, 5, 4, 3, 2, 2, 3, 7, 5, 0, 0, 5, 7],
        );
    }
}
