/*---------------------------------------------------------------------------------------------
 *  Copyright (c) Microsoft Corporation. All rights reserved.
 *  Licensed under the Apache License, Version 2.0. See LICENSE.txt in the project root for license information.
 *  This software incorporates material from third parties. See NOTICE.txt for details.
 *--------------------------------------------------------------------------------------------*/

pub fn bit_length(n: u32) -> u32 {
    32 - n.leading_zeros()
}

#[derive(Copy, Clone, Debug, Eq, PartialEq, Default)]
pub struct DebugHash {
    hash: u64,
}

#[allow(dead_code)]
impl DebugHash {
    pub fn update<T: Into<i64>>(&mut self, v: T) {
        self.hash = self.hash.wrapping_mul(13).wrapping_add(v.into() as u64);
    }

    pub fn update_slice<T: Into<i64> + Copy>(&mut self, v: &[T]) {
        v.iter().for_each(|x| self.update(*x));
    }

    pub fn hash(&self) -> u64 {
        self.hash
    }
}
