use default_boxed::DefaultBoxed;

use crate::{
    add_policy_estimator::DictionaryAddPolicy, hash_algorithm::*, preflate_input::PreflateInput,
    preflate_token::PreflateTokenReference,
};

pub trait HashTableDepthEstimator {
    fn update_hash(&mut self, add_policy: DictionaryAddPolicy, input: &PreflateInput, length: u32);

    /// sees how many matches we need to walk to reach match_pos, which we
    /// do by subtracting the depth of the current node from the depth of the
    /// match node.
    fn match_depth(&self, token: PreflateTokenReference, input: &PreflateInput) -> u32;
}

#[derive(DefaultBoxed)]
struct HashTableDepthEstimatorImpl<H: HashImplementation> {
    /// Represents the head of the hash chain for a given hash value.
    head: [u16; 65536],

    /// Represents the number of following nodes in the chain for a given
    /// position. For example, if chainDepth[100] == 5, then there are 5 more
    /// matches if we follow the prev chain from position 100 back to 0. The value goes back
    /// all the way to be beginning of the compressed data (not readjusted when we shift
    /// the compression window), so in order to calculate the number of chain positions,
    /// you need to subtract the value from the head position.
    ///
    /// This is used during estimation only to figure out how deep we need to match
    /// into the hash chain, which allows us to estimate which parameters were used
    /// to generate the deflate data.
    chain_depth: [i32; 65536],

    /// the hash at this particular position. This is verified to make sure that it
    /// is part of the same hash chain, if not, we know that this was not the correct
    /// hash function to use.
    chain_depth_hash_verify: [u16; 65536],

    /// hash function used to calculate the hash
    hash: H,

    /// the dictionary add policy used to update the hash
    add_policy: DictionaryAddPolicy,
}

impl<H: HashImplementation> HashTableDepthEstimatorImpl<H> {
    /// depth is the number of matches we need to walk to reach the match_pos. This
    /// is only valid if this was part of the same hash chain
    #[inline]
    fn get_node_depth(&self, node: u16, expected_hash: u16) -> i32 {
        debug_assert_eq!(
            self.chain_depth_hash_verify[node as usize],
            expected_hash,
            "hash chain imcomplete {:?} {:?}",
            self.hash.algorithm(),
            self.add_policy
        );
        self.chain_depth[node as usize]
    }

    pub fn box_new(hash: H) -> Box<Self> {
        let mut l = HashTableDepthEstimatorImpl::<H>::default_boxed();
        l.hash = hash;
        l
    }

    fn internal_update_hash(&mut self, chars: &[u8], pos: u32, length: u32) {
        debug_assert!(length as usize <= chars.len());
        if length as usize + H::num_hash_bytes() - 1 >= chars.len() {
            // reached on of the stream so there will be no more matches
            return;
        }

        let mut pos = pos as u16;

        for i in 0..length {
            let h = self.hash.get_hash(&chars[i as usize..]);

            self.chain_depth[usize::from(pos)] =
                self.chain_depth[self.head[usize::from(h)] as usize] + 1;
            self.chain_depth_hash_verify[usize::from(pos)] = h;

            self.head[usize::from(h)] = pos;

            pos = pos.wrapping_add(1);
        }
    }
}

impl<H: HashImplementation> HashTableDepthEstimator for HashTableDepthEstimatorImpl<H> {
    fn update_hash(&mut self, add_policy: DictionaryAddPolicy, input: &PreflateInput, length: u32) {
        self.add_policy = add_policy;
        add_policy.update_hash(
            input.cur_chars(0),
            input.pos(),
            length,
            |chars, pos, len| self.internal_update_hash(chars, pos, len),
        );
    }

    /// sees how many matches we need to walk to reach match_pos, which we
    /// do by subtracting the depth of the current node from the depth of the
    /// match node.
    fn match_depth(&self, token: PreflateTokenReference, input: &PreflateInput) -> u32 {
        let match_pos = (input.pos() - token.dist()) as u16;

        let h = self.hash.get_hash(input.cur_chars(0));
        let head = self.head[usize::from(h)];

        // since we already calculated the dictionary add policy, we should
        // always be on the same chain as the the head
        let cur_depth = self.get_node_depth(head, h);
        let match_depth = self.get_node_depth(match_pos, h);

        debug_assert!(
            cur_depth >= match_depth,
            "current match should be >= to previous c: {} m: {}",
            cur_depth,
            match_depth
        );

        (cur_depth - match_depth) as u32
    }
}

/// Libdeflate is a bit special because it uses the first candidate of the 3 byte match,
/// but then continues with the next 4 bytes.
#[derive(DefaultBoxed)]
struct HashTableDepthEstimatorLibdeflate {
    length4: HashTableDepthEstimatorImpl<LibdeflateHash4>,
    head3: [u32; 65536],
}

const LIB_DEFLATE3_HASH: LibdeflateHash3Secondary = LibdeflateHash3Secondary {};

impl HashTableDepthEstimatorLibdeflate {
    fn internal_update_hash3(&mut self, chars: &[u8], pos: u32, length: u32) {
        debug_assert!(length as usize <= chars.len());
        if length as usize + 3 - 1 >= chars.len() {
            // reached on of the stream so there will be no more matches
            return;
        }

        for i in 0..length {
            let h = LIB_DEFLATE3_HASH.get_hash(&chars[i as usize..]);

            self.head3[usize::from(h)] = pos + i;
        }
    }
}

impl HashTableDepthEstimator for HashTableDepthEstimatorLibdeflate {
    fn update_hash(&mut self, add_policy: DictionaryAddPolicy, input: &PreflateInput, length: u32) {
        add_policy.update_hash(
            input.cur_chars(0),
            input.pos(),
            length,
            |chars, pos, len| {
                self.length4.internal_update_hash(chars, pos, len);
                self.internal_update_hash3(chars, pos, len);
            },
        );
    }

    /// sees how many matches we need to walk to reach match_pos, which we
    /// do by subtracting the depth of the current node from the depth of the
    /// match node.
    fn match_depth(&self, token: PreflateTokenReference, input: &PreflateInput) -> u32 {
        let length3hash = LIB_DEFLATE3_HASH.get_hash(input.cur_chars(0));
        let distance3 = input.pos() - self.head3[usize::from(length3hash)];

        if distance3 == token.dist() {
            return 1;
        } else {
            // anything length 3 should have matched before
            if token.len() == 3 {
                return 65535;
            }

            return if distance3 < 32768 { 1 } else { 0 } + self.length4.match_depth(token, input);
        }
    }
}

/// Factory function to create a new HashTableDepthEstimator based on the hash algorithm
pub fn new_depth_estimator(hash_algorithm: HashAlgorithm) -> Box<dyn HashTableDepthEstimator> {
    match hash_algorithm {
        HashAlgorithm::None => panic!("No hash algorithm specified"),
        HashAlgorithm::Zlib {
            hash_mask,
            hash_shift,
        } => HashTableDepthEstimatorImpl::box_new(ZlibRotatingHash {
            hash_mask,
            hash_shift,
        }),
        HashAlgorithm::MiniZFast => HashTableDepthEstimatorImpl::box_new(MiniZHash {}),
        HashAlgorithm::Libdeflate4 => HashTableDepthEstimatorLibdeflate::default_boxed(),
        HashAlgorithm::Libdeflate4Fast => HashTableDepthEstimatorImpl::box_new(LibdeflateHash4 {}),

        HashAlgorithm::ZlibNG => HashTableDepthEstimatorImpl::box_new(ZlibNGHash {}),
        HashAlgorithm::RandomVector => HashTableDepthEstimatorImpl::box_new(RandomVectorHash {}),
        HashAlgorithm::Crc32cHash => HashTableDepthEstimatorImpl::box_new(Crc32cHash {}),
    }
}

#[test]
fn verify_max_chain_length() {
    use crate::{
        preflate_token::{BlockType, PreflateToken},
        process::parse_deflate,
    };

    let zlib = HashAlgorithm::Zlib {
        hash_mask: 0x7FFF,
        hash_shift: 5,
    };

    #[rustfmt::skip]
    let levels = [
        ("compressed_zlibng_level1.deflate", HashAlgorithm::Crc32cHash, DictionaryAddPolicy::AddFirstWith32KBoundary, 0),
        ("compressed_zlibng_level2.deflate", HashAlgorithm::Crc32cHash, DictionaryAddPolicy::AddFirstAndLast(4), 3),
        ("compressed_zlibng_level3.deflate", HashAlgorithm::Crc32cHash, DictionaryAddPolicy::AddFirstAndLast(96), 5),
        ("compressed_zlibng_level4.deflate", HashAlgorithm::Crc32cHash, DictionaryAddPolicy::AddFirstAndLast(191), 23),
        ("compressed_libdeflate_level1.deflate", HashAlgorithm::Libdeflate4Fast, DictionaryAddPolicy::AddAll, 1),
        ("compressed_libdeflate_level2.deflate", HashAlgorithm::Libdeflate4, DictionaryAddPolicy::AddAll, 6),
        ("compressed_libdeflate_level3.deflate", HashAlgorithm::Libdeflate4, DictionaryAddPolicy::AddAll, 12),
        ("compressed_libdeflate_level4.deflate", HashAlgorithm::Libdeflate4, DictionaryAddPolicy::AddAll, 16),
        ("compressed_libdeflate_level5.deflate", HashAlgorithm::Libdeflate4, DictionaryAddPolicy::AddAll, 16),
        ("compressed_libdeflate_level6.deflate", HashAlgorithm::Libdeflate4, DictionaryAddPolicy::AddAll, 35),
        ("compressed_libdeflate_level7.deflate", HashAlgorithm::Libdeflate4, DictionaryAddPolicy::AddAll, 100),
        ("compressed_libdeflate_level8.deflate", HashAlgorithm::Libdeflate4, DictionaryAddPolicy::AddAll, 300),
        ("compressed_libdeflate_level9.deflate", HashAlgorithm::Libdeflate4, DictionaryAddPolicy::AddAll, 597 /*600*/),
        ("compressed_zlib_level1.deflate", zlib, DictionaryAddPolicy::AddFirst(4), 3),
        ("compressed_zlib_level2.deflate", zlib, DictionaryAddPolicy::AddFirst(5), 7),
        ("compressed_zlib_level3.deflate", zlib, DictionaryAddPolicy::AddFirst(6), 31),
        ("compressed_zlib_level4.deflate", zlib, DictionaryAddPolicy::AddAll, 15),
        ("compressed_zlib_level5.deflate", zlib, DictionaryAddPolicy::AddAll, 31),
        ("compressed_zlib_level6.deflate", zlib, DictionaryAddPolicy::AddAll, 127),
        ("compressed_zlib_level7.deflate", zlib, DictionaryAddPolicy::AddAll, 255),
        ("compressed_zlib_level8.deflate", zlib, DictionaryAddPolicy::AddAll, 1022),
        ("compressed_zlib_level9.deflate", zlib, DictionaryAddPolicy::AddAll, 3986),
        ("compressed_minizoxide_level1.deflate", HashAlgorithm::MiniZFast, DictionaryAddPolicy::AddFirstExcept4kBoundary, 2),

    ];

    for level in levels {
        let compressed_data = crate::process::read_file(level.0);

        let parsed = parse_deflate(&compressed_data, 0).unwrap();

        let add_policy_estimator = crate::add_policy_estimator::estimate_add_policy(&parsed.blocks);

        assert_eq!(
            add_policy_estimator, level.2,
            "add policy for file {} is incorrect (should be {:?})",
            level.0, level.2
        );

        let mut estimator = new_depth_estimator(level.1);

        let mut input = PreflateInput::new(&parsed.plain_text);
        let mut max_depth = 0;
        for block in parsed.blocks {
            match block.block_type {
                BlockType::Stored => {
                    estimator.update_hash(
                        DictionaryAddPolicy::AddAll,
                        &input,
                        block.uncompressed.len() as u32,
                    );
                }
                BlockType::StaticHuff | BlockType::DynamicHuff => {
                    for token in block.tokens {
                        let len = match token {
                            PreflateToken::Literal(_) => 1,
                            PreflateToken::Reference(r) => {
                                max_depth = max_depth.max(estimator.match_depth(r, &input));
                                assert!(max_depth <= 4096, "max depth {} too high", max_depth);
                                r.len()
                            }
                        };

                        estimator.update_hash(level.2, &input, len);
                        input.advance(len);
                    }
                }
            }
        }
        assert_eq!(
            max_depth, level.3,
            "max depth {} for file {} is incorrect (should be {})",
            max_depth, level.0, level.3
        );
    }
}
