/*---------------------------------------------------------------------------------------------
 *  Copyright (c) Microsoft Corporation. All rights reserved.
 *  Licensed under the Apache License, Version 2.0. See LICENSE.txt in the project root for license information.
 *  This software incorporates material from third parties. See NOTICE.txt for details.
 *--------------------------------------------------------------------------------------------*/

#[derive(Default)]
pub struct BitWriter {
    pub bit_buffer: u32,
    pub bits_in: u32,
}

// use to write varying sized bits
impl BitWriter {
    #[inline(always)]
    pub fn write(&mut self, bits: u32, len: u32, data_buffer: &mut Vec<u8>) {
        assert!(bits <= ((1u32 << len) - 1u32));
        self.bit_buffer |= bits << self.bits_in;
        self.bits_in += len;

        self.flush_whole_bytes(data_buffer);
    }

    pub fn pad(&mut self, fillbit: u8, data_buffer: &mut Vec<u8>) {
        let mut offset = 1;
        while (self.bits_in & 7) != 0 {
            self.write(if (fillbit & offset) != 0 { 1 } else { 0 }, 1, data_buffer);
            offset <<= 1;
        }
    }

    pub fn flush_whole_bytes(&mut self, data_buffer: &mut Vec<u8>) {
        while self.bits_in >= 8 {
            data_buffer.push(self.bit_buffer as u8);
            self.bit_buffer >>= 8;
            self.bits_in -= 8;
        }
    }
}

// write a fixed pattern and see if it matches the expected fixed output
#[test]
fn write_simple() {
    let mut b = BitWriter::default();
    let mut data_buffer = Vec::new();

    b.write(1, 4, &mut data_buffer);
    b.write(2, 4, &mut data_buffer);
    b.write(3, 4, &mut data_buffer);
    b.write(4, 4, &mut data_buffer);
    b.write(4, 4, &mut data_buffer);
    b.write(0x56, 8, &mut data_buffer);
    b.write(0x78, 8, &mut data_buffer);
    b.write(0x9f, 8, &mut data_buffer);
    b.write(0xfe, 8, &mut data_buffer);
    b.write(0xe, 4, &mut data_buffer);

    assert_eq!(data_buffer[..], [0x21, 0x43, 0x64, 0x85, 0xf7, 0xe9, 0xef]);
}

/// write various bit patterns and see if the result matches the input
#[test]
fn write_roundtrip() {
    use crate::bit_reader::BitReader;

    let mut b = BitWriter::default();
    let mut data_buffer = Vec::new();

    let pattern = [
        (0, 1),
        (1, 1),
        (1, 2),
        (2, 3),
        (3, 4),
        (4, 5),
        (4, 6),
        (0x156, 9),
        (0x78, 8),
        (0x9f, 8),
        (0xfe, 8),
        (0x7fff, 15),
        (0xffff, 16),
        (0xe, 4),
    ];

    for &(bits, len) in pattern.iter() {
        b.write(bits, len, &mut data_buffer);
    }

    b.pad(0, &mut data_buffer);
    b.flush_whole_bytes(&mut data_buffer);

    let mut cursor = std::io::Cursor::new(data_buffer);
    let mut reader = BitReader::new(&mut cursor);

    for &(bits, len) in pattern.iter() {
        assert_eq!(reader.get(len).unwrap(), bits);
    }
}
