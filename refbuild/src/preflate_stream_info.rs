/*---------------------------------------------------------------------------------------------
 *  Copyright (c) Microsoft Corporation. All rights reserved.
 *  Licensed under the Apache License, Version 2.0. See LICENSE.txt in the project root for license information.
 *  This software incorporates material from third parties. See NOTICE.txt for details.
 *--------------------------------------------------------------------------------------------*/

use crate::preflate_token::{BlockType, PreflateToken, PreflateTokenBlock};

pub struct PreflateStreamInfo {
    pub token_count: u32,
    pub literal_count: u32,
    pub reference_count: u32,
    pub max_dist: u32,
    pub min_len: u32,
    pub max_tokens_per_block: u32,
    pub count_blocks: u32,
    pub count_stored_blocks: u32,
    pub count_huff_blocks: u32,
    pub count_rle_blocks: u32,
    pub count_static_huff_tree_blocks: u32,
}

pub fn extract_preflate_info(blocks: &[PreflateTokenBlock]) -> PreflateStreamInfo {
    let mut result: PreflateStreamInfo = PreflateStreamInfo {
        count_blocks: blocks.len() as u32,
        count_stored_blocks: 0,
        count_static_huff_tree_blocks: 0,
        token_count: 0,
        max_tokens_per_block: 0,
        literal_count: 0,
        reference_count: 0,
        min_len: u32::MAX,
        max_dist: 0,
        count_huff_blocks: 0,
        count_rle_blocks: 0,
    };

    for i in 0..blocks.len() {
        let b = &blocks[i];
        if b.block_type == BlockType::Stored {
            result.count_stored_blocks += 1;
            continue;
        }
        if b.block_type == BlockType::StaticHuff {
            result.count_static_huff_tree_blocks += 1;
        }
        result.token_count += b.tokens.len() as u32;
        result.max_tokens_per_block =
            std::cmp::max(result.max_tokens_per_block, b.tokens.len() as u32);
        let mut block_max_dist = 0;
        let mut block_min_len = u32::MAX;
        for j in 0..b.tokens.len() {
            match &b.tokens[j] {
                PreflateToken::Literal(_) => {
                    result.literal_count += 1;
                }
                PreflateToken::Reference(t) => {
                    result.reference_count += 1;
                    block_max_dist = std::cmp::max(block_max_dist, t.dist());
                    block_min_len = std::cmp::min(block_min_len, t.len());
                }
            }
        }
        result.max_dist = std::cmp::max(result.max_dist, block_max_dist);
        result.min_len = std::cmp::min(result.min_len, block_min_len);

        if block_max_dist == 0 {
            result.count_huff_blocks += 1;
        } else if block_max_dist == 1 {
            result.count_rle_blocks += 1;
        }
    }
    result
}
