NOTES = ("All checks: bin/check <ID> --tier quick|thorough [--replay file]; exit 0 held, 1 VIOLATION lines printed, "
         "2 tool error. TLC scratch in /verif/work. See DESIGN.md.")

TRUST = ("Trusted: TLC, the JSON/IOUtils community modules, the Rust harness's glue code (it packs fields into bytes "
         "and compares; the format knowledge lives in the TLA+ modules), the cabac/zstd/crc32fast crates below the "
         "modelled level. Release profile (debug assertions off). Conformance is sampling: exhaustive where the spec "
         "enumerates, seeded random elsewhere.")

T3 = "TLA+ model checking (TLC) + spec-generated replay + trace validation"

def _c(text, ref, technique=T3, note=TRUST):
    return {"text": text, "design_ref": ref, "note": note, "technique": technique}

CHECKS = {
    "C01": _c("Scan.tla models the scanner's two cursors over abstract files; TLC checks tiling, totality, chunk "
              "alternation and termination for every file of up to 3 (thorough: 4) segments over 28 segment classes; "
              "every such file is concretised with real compressor streams and round-tripped (also through zstd); "
              "random, damaged and sample files and all short byte strings are round-tripped; expand/recreate runs "
              "are validated chunk by chunk against Chunks.tla (container bytes, IDAT descriptor, thresholds).",
              "DESIGN.md 4 (C01)"),
    "C02": _c("Gen_Deflate (RFC 1951 in TLA+) generates valid streams that use the format's unused freedom; each is "
              "analysed with both verify flags and must reconstruct to the input prefix, give identical results for "
              "both flags and be independent of the bytes after compressed_size; the same on compressor outputs and "
              "their mutations and on the grammar catalogue of MC_Deflate. Predict.tla (abstract matcher oracle) and "
              "MC_Match.tla (the concrete matcher of Match.tla: every small plaintext, every valid parse, 7 parameter "
              "vectors) model-check that the reconstructor decodes exactly what the analyser saw; joint encode / decode "
              "traces of real runs are validated by Trace_Stream.",
              "DESIGN.md 4 (C02)"),
    "C03": _c("Deflate.tla is the reference inflater (RFC 1951 transcribed independently of the Rust tables; itself "
              "validated against zlib on every generated stream). Generated behaviours carry the tokens and plaintext "
              "they denote and the parser must report exactly those; parser reports on generated and compressor-made "
              "streams are validated field by field, bit position by bit position, by Trace_Deflate, which also "
              "states C03 against zlib's verdict logged in the trace.",
              "DESIGN.md 4 (C03)"),
    "C04": _c("History.tla defines the history space (reference build writes, upgrade, current build reads) and the "
              "version gate; TLC shows NoSilentLoss for every history iff equal versions imply equal formats, finds the "
              "silent change in the negative configuration and shows that a same-build round trip cannot see it. The "
              "frozen reference build (/verif/refbuild) and the working tree are linked into one process: objects the "
              "reference writes (correction data of compressor-made, generated and boundary-sweep streams; containers) "
              "are read by the current build and compared byte for byte, and the operation sequence the reference "
              "encoded is compared with the one the current build decodes; every such history is validated by "
              "Trace_History. Independently of the reference build the stored format is frozen as a specification: "
              "Match.tla (all hash functions, dictionary policy, chain walk, limits, lazy rule, hop counts, the "
              "correction operations of every token), HuffCalc / TreePredict / Stream / Params; the current build's "
              "analyses (all compressors, a sloppy compressor, perturbed parameter vectors, and every plaintext up to "
              "8 (thorough: 10) bytes with every valid parse) are validated token by token by Trace_Match and "
              "Trace_Stream.",
              "DESIGN.md 4 (C04)"),
    "C05": _c("Generated valid-but-unusual streams, compressor outputs with 8 mutations each, and every byte string up "
              "to 2 (thorough: 3) bytes are analysed with both verify flags under a watchdog; a panic or a hang is a "
              "trace event the specification has no transition for; a run that dies is repeated case by case in "
              "forked children with CPU and memory limits. DeflateParse / MC_Deflate: the reader terminates on every "
              "byte prefix of the grammar catalogue. Positions.tla: the 16-bit position arithmetic of the hash tables "
              "never overflows (TLC bounded, Apalache inductive invariant for all positions), and the critical "
              "positions it prints are realised as zlib streams.",
              "DESIGN.md 4 (C05)"),
    "C06": _c("Scan.tla predicts the chunk structure of every abstract file (invariants Found / NothingElse: exactly "
              "the embedded streams above the threshold are expanded, at the right offsets); all files of up to 3 "
              "segments are built with real streams over the wrapper variants and the real chunk list and the verbatim "
              "presence of each plaintext are compared with the prediction.",
              "DESIGN.md 4 (C06)"),
    "C07": _c("Every generated stream (padding values, HLIT/HDIST/HCLEN slack, arbitrary run-length choices, empty "
              "blocks, 284+31) and every compressor output goes through the hook parse_and_rewrite (parser + block "
              "writer, no predictor); the oracle is the input prefix.",
              "DESIGN.md 4 (C07)"),
    "C08": _c("Params.tla gives the header layout, widths and the estimator's range; MC_Params checks that every "
              "boundary-valued vector fits and reads back (and that the pinned range with limits up to 257 does not); "
              "every such vector is forced onto compressor-made and generated streams through roundtrip_with_params "
              "(Err, or exact reconstruction and the vector read back); on driver streams the header operations, both "
              "sides' operations and predictor states are validated by Trace_Stream.",
              "DESIGN.md 4 (C08)"),
    "C10": _c("Codec.tla specifies the codec at bin level; TLC checks losslessness and reader/writer context agreement "
              "for every operation sequence up to a bound; every such sequence is replayed into the real codec with the "
              "spec's bins as the expected coder input; recorded round trips of long random sequences and of real "
              "analyses are validated event by event against the same spec.",
              "DESIGN.md 4 (C10)"),
    "C11": _c("Zstd.tla states what each (frame class, capacity) pair demands; MC_Zstd checks the wrapper model against "
              "it; recorded calls of decompress_zstd around the per-file expanded size and on 8 kinds of non-frames are "
              "validated against the same demands; the files include ones that do not compress (several zstd blocks "
              "long) and ones larger than their expanded form, the non-frames every kind of cut of the frame.",
              "DESIGN.md 4 (C11), 16"),
    "C12": _c("CAbi.tla states the caller-visible contract (guards intact, status in {0,-1,-2}, result_size only on "
              "success and within capacity, undersized buffer negative, no unwinding); MC_CAbi checks a memory model of "
              "one call; recorded calls of both wrappers on canary-guarded buffers over capacities around the needed "
              "size are validated against the same contract - including call histories inside one process (frames "
              "around damaged containers that make the library panic behind catch_unwind, refused calls, a reused input "
              "buffer with other contents, then the good calls again: the demands on a call do not depend on earlier "
              "calls), a file whose expanded form is exactly 128 MiB, and a file larger than its expanded form.",
              "DESIGN.md 4 (C12), 16"),
    "C13": _c("IO.tla models recreated_zlib_chunks against an environment that fragments and fails I/O; TLC explores "
              "every schedule over small containers (prefix, Ok-is-complete, hard errors surface, fragmentation is "
              "harmless, termination); on real containers one fault of each kind is injected at every I/O call index "
              "and every call sequence is validated by Trace_IO; one byte per call on a 256 KiB stack.",
              "DESIGN.md 4 (C13)"),
    "C14": _c("Concurrency.tla shows determinism under every interleaving when no mutable cell is shared (and finds "
              "the race when one is: negative self-test); a source inventory monitors that hypothesis; 16 threads "
              "released together call the public functions on shared and distinct inputs and every result is compared "
              "by Trace_Conc with a reference computed on a thread of its own; a second process must reproduce the "
              "reference. The model also covers call sequences with a cell retained by the thread (second negative "
              "configuration), and the recorded runs vary everything that is not an argument: history (long-lived "
              "threads running every call after every other, the C wrappers on a reused input buffer after refused "
              "calls), the address of the input modulo 8, the number of processors (one vs all), noisy neighbours.",
              "DESIGN.md 4 (C14), 16"),
}

_NOT_YET = "check not built yet in this session (planned, see DESIGN.md 9)"
NOT_APPLICABLE = {
    "C09": "aggregate, relational, quantitative statistic versus another build (acceptance rate within 1%, correction "
           "bytes within 3% per compressor family): not a safety property of any state machine; a TLA+ model has "
           "nothing to say about coded sizes. See DESIGN.md 6.",
}
for _p in ["C01", "C02", "C03", "C04", "C05", "C06", "C07", "C08", "C11", "C12", "C13", "C14"]:
    if _p not in CHECKS:
        NOT_APPLICABLE[_p] = _NOT_YET
