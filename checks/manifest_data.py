NOTES = ("All checks: bin/check <ID> --tier quick|thorough [--replay file]; exit 0 held, 1 VIOLATION lines printed, "
         "2 tool error. TLC scratch in /verif/work. See DESIGN.md.")

TRUST = ("Trusted: TLC, the JSON/IOUtils community modules, the Rust harness's glue code (it packs fields into bytes "
         "and compares; the format knowledge lives in the TLA+ modules), the cabac/zstd/crc32fast crates below the "
         "modelled level. Release profile (debug assertions off). Conformance is sampling: exhaustive where the spec "
         "enumerates, seeded random elsewhere.")

CHECKS = {
    "C10": {
        "text": "Codec.tla specifies the codec at bin level; TLC checks losslessness and reader/writer context agreement "
                "for every operation sequence up to a bound; every such sequence is replayed into the real codec with the "
                "spec's bins as the expected coder input; recorded round trips of long random sequences and of real "
                "analyses are validated event by event against the same spec.",
        "design_ref": "DESIGN.md 4 (C10)",
        "note": TRUST,
        "technique": "TLA+ model checking (TLC) + spec-generated replay + trace validation",
    },
}

_NOT_YET = "check not built yet in this session (planned, see DESIGN.md 9)"
NOT_APPLICABLE = {
    "C09": "aggregate, relational, quantitative statistic versus another build (acceptance rate within 1%, correction "
           "bytes within 3% per compressor family): not a safety property of any state machine; a TLA+ model has "
           "nothing to say about coded sizes. See DESIGN.md 6.",
}
for _p in ["C01", "C02", "C03", "C04", "C05", "C06", "C07", "C08", "C11", "C12", "C13", "C14"]:
    if _p not in CHECKS:
        NOT_APPLICABLE[_p] = _NOT_YET
