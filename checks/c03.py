"""C03 - recovered plaintext and consumed length agree with a reference inflater."""
from deflate_common import *


def run_check(tier, seed, replay=None):
    c = Check("C03", tier, seed)
    build_harness()
    if replay:
        return replay_hex(c, "C03", replay)
    wd = workdir("c03")
    mc_deflate(c, wd)
    replay_catalogue(c, wd, "C03")
    all_pairs(c, wd, "C03")
    # G: valid streams from the specification, with the tokens and plaintext they denote
    gen = gen_streams(wd, tier, seed)
    res = replay_generated(c, wd, gen)
    n, acc = account(c, res, "C03", "generated")
    if acc == 0:
        raise ToolError("vacuity: the library accepted none of the %d generated streams" % n)
    feats = {}
    for r in res:
        if r["kind"] == "case" and r["lib"].startswith("ok"):
            for f in r.get("feat") or []:
                feats[f] = feats.get(f, 0) + 1
    c.cov["features_accepted"] = feats
    # T: the parser's report on generated and on compressor-made streams, validated against RFC 1951
    gtr = os.path.join(wd, "gen.trace")
    vh(["deflate-trace-generated", "--in", gen, "--trace", gtr, "--max", 60 if tier == "quick" else 600])
    validate_parse_traces(c, "C03", wd, gtr)
    dres, dtr = record_driver(wd, tier, seed, traces=24 if tier == "quick" else 200)
    account(c, dres, "C03", "drivers")
    validate_parse_traces(c, "C03", wd, dtr)
    for r in res[:2]:
        c.sample({"generated_stream": {k: r.get(k) for k in ("id", "lib", "len", "plain_len", "feat")}})
    for r in dres[:3]:
        c.sample({"driver_stream": {k: r.get(k) for k in ("label", "lib", "len", "plain_len")}})
    return c.finish(rule="evaluations = streams run through decompress_deflate_stream and compared with zlib's "
                         "inflate (model validation: every generated stream must also inflate under zlib to the "
                         "plaintext its tokens denote); non-trivial = distinct accepted streams with non-empty "
                         "plaintext; traces = parser reports accepted by Trace_Deflate (RFC 1951 transcription)")
