"""C10 - the correction codec is lossless for every operation sequence."""
import json, os
from common import *


def run_check(tier, seed, replay=None):
    c = Check("C10", tier, seed)
    build_harness()
    if replay:
        return replay_case(c, replay)
    wd = workdir("c10")
    n = 3 if tier == "quick" else 4

    # M: bounded exhaustive model
    invs = ["DecodedIsPrefix", "ContextsAgree", "AllConsumed", "RunAtMostOne", "WholeAgrees"]
    r = mc("MC_Codec", wd, constants={"N": n, "Emit": "FALSE"}, invariants=invs,
           must_cover=["EncStep", "EncFin", "DecStep", "DecFin"], timeout=3000)
    c.add_model(r, "all operation sequences of length <= %d over a 27-operation alphabet" % n)

    if tier == "thorough":
        tlaps(c, "DiffProof", wd)

    # G: spec -> impl, every sequence of the model with the bins the spec computes
    gen = os.path.join(wd, "gen.ndjson")
    g = generate("MC_Codec", wd, gen, constants={"N": n if tier == "thorough" else 3, "Emit": "TRUE"},
                 invariants=["Replay"], timeout=3000)
    gens = [gen]
    if tier == "thorough":
        g2p = os.path.join(wd, "gen_singles.ndjson")
        generate("Gen_CodecSingles", wd, g2p, constants={"Lo": 0, "Hi": 131071, "Ctxs": "{0, 3, 9}"},
                 invariants=["Lossless", "Replay"], timeout=3000)
        gens.append(g2p)
    else:
        g2p = os.path.join(wd, "gen_singles.ndjson")
        generate("Gen_CodecSingles", wd, g2p, constants={"Lo": 0, "Hi": 4099, "Ctxs": "{0, 9}"},
                 invariants=["Lossless", "Replay"], timeout=600)
        gens.append(g2p)
    # long runs of default operations (run-length form; the oracle is losslessness itself)
    g3p = os.path.join(wd, "gen_runs.ndjson")
    runs_set = "{65535, 65536, 65537, 1048575, 1048576, 1048577, 1048590}" if tier == "quick" else \
               "{255, 256, 65535, 65536, 65537, 1048575, 1048576, 1048577, 1048590, 2097151, 2097153, 4194305, 16777217}"
    generate("Gen_CodecRuns", wd, g3p, constants={"Runs": runs_set, "Small": "{0, 1, 2, 3, 17}"},
             invariants=["Lossless", "Replay"], timeout=1200, workers=2)
    gens.append(g3p)
    for gp in gens:
        res = gp + ".res"
        vh(["codec-replay", "--in", gp, "--out", res])
        for rec in read_ndjson(res):
            if rec["kind"] == "summary":
                c.cov["evaluations"] += rec["cases"]
                c.cov["distinct_nontrivial"] += rec["distinct_nontrivial"]
                if rec.get("sample"):
                    c.sample({"from": os.path.basename(gp), "ops": rec["sample"]})
            elif rec["why"].endswith("bins differ from the specification"):
                # the sequence came back intact; only the binarisation is not the specified one.  Losslessness
                # (C10) holds on this case; that the stored format changed is C04's business.
                c.defer_tool_error("the codec no longer produces the bins Codec.tla specifies although it still decodes what "
                                   "it encoded (%s); the specification needs attention" % json.dumps(rec["case"].get("ops"))[:200])
            else:
                c.violation("codec.replay:" + rec["why"].split(":")[0],
                            "generated sequence: " + rec["why"],
                            {"kind": "codec-replay", "case": rec["case"], "observed": rec["observed"]})

    # T: impl -> spec, long random sequences recorded from the real codec
    trace = os.path.join(wd, "trace.ndjson")
    runs, maxops = (12, 400) if tier == "quick" else (30, 5000)
    vh(["codec-record", "--seed", seed, "--runs", runs, "--maxops", maxops, "--out", trace])
    streams = os.path.join(wd, "trace_streams.ndjson")
    nstreams = 2 if tier == "quick" else 8
    vh(["codec-record-streams", "--seed", seed, "--runs", nstreams, "--out", streams,
        "--maxlen", 20000 if tier == "quick" else 120000])
    cases = {}
    for tr in (trace, streams):
        for rec in read_ndjson(tr + ".cases"):
            cases[(tr, rec["run"])] = rec
        acc, rej, states = validate_runs("Trace_Codec", wd, tr, invariants=["RunAtMostOne"], timeout=6000,
                                         heap="8g", view="TraceView")
        c.cov["traces_validated_against_impl"] += acc
        c.cov["states"] += states
        c.cov["transitions"] += states
        lossless = lossless_runs(tr) if rej else {}
        for x in rej:
            case = cases.get((tr, x["run"]), {})
            if lossless.get(x["run"]):
                c.defer_tool_error("Trace_Codec rejects run %s at %s although the decoder returned exactly the encoded "
                                   "operations: the binarisation differs from Codec.tla; the specification needs attention"
                                   % (x["run"], json.dumps(x["event"])[:200]))
                continue
            c.violation("codec.trace:" + str(x["event"].get("e")),
                        "recorded codec trace rejected by Trace_Codec at event %s (%d events into run %s)" % (
                            json.dumps(x["event"])[:200], x["line_in_run"], x["run"]),
                        {"kind": "codec-trace", "case": case, "event": x["event"]})
    c.sample({"trace_run": next(iter(cases.values()), {}).get("ops", [])[:8]})
    c.cov["exhaustive"] = True
    return c.finish(rule="evaluations = generated operation sequences replayed into the real codec "
                         "(every sequence of the bounded model plus all single corrections in the stated range); "
                         "non-trivial = distinct sequences containing at least one non-default operation; "
                         "traces = recorded codec round trips (random sequences and operation streams of real "
                         "analyses) accepted by Trace_Codec")


def lossless_runs(trace):
    """run id -> did the decoder return exactly the operations that were encoded (and finish)?"""
    res, run, enc, dec, done = {}, None, [], [], False
    def close():
        if run is not None:
            res[run] = done and enc == dec
    for ev in read_ndjson(trace):
        if ev["e"] == "Reset":
            close()
            run, enc, dec, done = ev.get("run"), [], [], False
        elif ev["e"] == "E":
            enc.append((ev["k"], ev["c"], ev["v"], ev["n"]))
        elif ev["e"] == "D":
            dec.append((ev["k"], ev["c"], ev["v"], ev["n"]))
        elif ev["e"] == "Done":
            done = True
    close()
    return res


def replay_case(c, path):
    case = json.load(open(path))
    tmp = os.path.join(workdir("c10_replay"), "case.ndjson")
    with open(tmp, "w") as f:
        f.write(json.dumps(case["case"]) + "\n")
    res = tmp + ".res"
    vh(["codec-replay", "--in", tmp, "--out", res])
    bad = [r for r in read_ndjson(res) if r["kind"] == "violation"]
    if not bad and case.get("kind") == "codec-trace":
        # re-record and validate
        tr = tmp + ".trace"
        vh(["codec-record-case", "--in", tmp, "--out", tr])
        acc, rej, _ = validate_runs("Trace_Codec", os.path.dirname(tmp), tr)
        bad = rej
    c.cov["evaluations"] = 1
    if bad:
        c.violation(case.get("signature", "codec.replay"), "replayed case still fails", {"kind": case.get("kind"), "case": case["case"]})
    return c.finish(rule="replay of one saved case")
