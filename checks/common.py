"""Shared machinery of /verif/bin/check: building the harness, running TLC in
its three roles (model checker, behaviour generator, trace validator), the
findings workflow, evidence files and exit codes.

Exit codes of a check: 0 property held on everything explored (KNOWN-FINDING
lines may have been printed); 1 at least one VIOLATION line was printed, each
with a replay file; 2 tool error or timeout (never a verdict)."""

import hashlib
import json
import os
import re
import shutil
import subprocess
import sys
import time

VERIF = os.path.dirname(os.path.dirname(os.path.abspath(__file__)))
REPO = os.environ.get("VERIF_REPO", "/repo")
SPEC = os.path.join(VERIF, "spec")
# (the three overrides below exist for bin/try_seed_iso, which runs a check against a scratch copy of
# /repo with a seeded change applied while /repo itself is in use; registered commands never set them)
WORK = os.environ.get("VERIF_WORK", os.path.join(VERIF, "work"))
HARNESS = os.environ.get("VERIF_HARNESS", os.path.join(VERIF, "harness"))
VH = os.path.join(HARNESS, "target", "release", "vh")
EVIDENCE = os.environ.get("VERIF_EVIDENCE", os.path.join(VERIF, "evidence"))
REPLAYS = os.path.join(WORK, "replays") if "VERIF_WORK" in os.environ else os.path.join(VERIF, "replays")
FINDINGS = os.path.join(VERIF, "known_findings.json")

NCPU = os.cpu_count() or 4
TLA_CP = "/opt/veriftools/tla/tla2tools.jar:/opt/veriftools/tla/CommunityModules-deps.jar"


class ToolError(Exception):
    pass


def log(*a):
    print(*a, flush=True)


def workdir(name):
    d = os.path.join(WORK, name)
    if os.path.isdir(d):
        shutil.rmtree(d, ignore_errors=True)
    os.makedirs(d, exist_ok=True)
    os.makedirs(os.path.join(WORK, "tmp"), exist_ok=True)
    return d


def run(cmd, timeout, env=None, cwd=None, stdout_path=None):
    e = dict(os.environ)
    if env:
        e.update(env)
    t0 = time.time()
    try:
        if stdout_path:
            with open(stdout_path, "wb") as f:
                p = subprocess.run(cmd, stdout=f, stderr=subprocess.STDOUT, env=e, cwd=cwd, timeout=timeout)
            out = ""
        else:
            p = subprocess.run(cmd, stdout=subprocess.PIPE, stderr=subprocess.STDOUT, env=e, cwd=cwd, timeout=timeout)
            out = p.stdout.decode("utf-8", "replace")
    except subprocess.TimeoutExpired:
        raise ToolError("timeout after %ds: %s" % (timeout, " ".join(cmd[:6])))
    return p.returncode, out, time.time() - t0


_built = False


def build_harness():
    """cargo build of the harness; it has a path dependency on /repo, so this
    rebuilds the library from /repo's current working tree with hooks on."""
    global _built
    if _built:
        return
    env = {"CARGO_NET_OFFLINE": "true"}
    rc, out, dt = run(["cargo", "build", "--release", "--offline"], 1800, env=env, cwd=HARNESS)
    if rc != 0:
        tail = "\n".join(out.splitlines()[-40:])
        raise ToolError("harness build failed:\n" + tail)
    _built = True
    log("[build] harness up to date (%.1fs)" % dt)


def vh(args, timeout=3600, ok_codes=(0,)):
    rc, out, dt = run([VH] + [str(a) for a in args], timeout)
    if rc not in ok_codes:
        raise ToolError("vh %s exited %d:\n%s" % (args[0], rc, out[-3000:]))
    return rc, out, dt


# --------------------------------------------------------------------- TLC

JAVA_OPTS = "-Xss1g -Djava.io.tmpdir=%s" % os.path.join(WORK, "tmp")


def write_cfg(path, spec="Spec", constants=None, invariants=(), properties=(), postcondition=None,
              constraint=None, view=None, deadlock=False, init=None, next_=None):
    lines = []
    if init:
        lines += ["INIT " + init, "NEXT " + next_]
    else:
        lines.append("SPECIFICATION " + spec)
    if constants:
        lines.append("CONSTANTS")
        for k, v in constants.items():
            if isinstance(v, str) and v.startswith("<-"):
                lines.append("  %s %s" % (k, v))
            else:
                lines.append("  %s = %s" % (k, v))
    for i in invariants:
        lines.append("INVARIANT " + i)
    for p in properties:
        lines.append("PROPERTY " + p)
    if postcondition:
        lines.append("POSTCONDITION " + postcondition)
    if constraint:
        lines.append("CONSTRAINT " + constraint)
    if view:
        lines.append("VIEW " + view)
    lines.append("CHECK_DEADLOCK " + ("TRUE" if deadlock else "FALSE"))
    with open(path, "w") as f:
        f.write("\n".join(lines) + "\n")


def _tla_unescape(s):
    out = []
    i = 0
    while i < len(s):
        c = s[i]
        if c == "\\" and i + 1 < len(s):
            n = s[i + 1]
            out.append({"n": "\n", "t": "\t", "r": "\r", "f": "\f"}.get(n, n))
            i += 2
        else:
            out.append(c)
            i += 1
    return "".join(out)


REPLAY_RE = re.compile(r'^<<"REPLAY", "(.*)">>\s*$')
COVER_RE = re.compile(r"^<(\w+) line \d+, col \d+ to line \d+, col \d+ of module (\w+)>: (\d+):(\d+)")
STATES_RE = re.compile(r"^(\d+) states generated, (\d+) distinct states found")


def tlc(module, cfg, wd, workers=None, timeout=1800, simulate=None, seed=None, env=None,
        coverage=True, replay_out=None, extra=()):
    """Runs TLC on spec/<module>.tla.  Returns a dict with states (distinct),
    transitions (states generated), actions {name: count}, ok, errors, and the
    number of REPLAY lines written to replay_out."""
    os.makedirs(wd, exist_ok=True)
    log_path = os.path.join(wd, module + ".out")
    # java is started directly (not through the tlc wrapper) so that -Xss also applies to the
    # main thread, which evaluates ASSUMEs and initial states (deep recursive operators)
    cmd = ["java", "-Xss512m", "-XX:+UseParallelGC", "-cp", TLA_CP, "tlc2.TLC",
           "-metadir", os.path.join(wd, "states"), "-checkpoint", "0", "-cleanup", "-noGenerateSpecTE",
           "-workers", str(workers or max(2, NCPU // 2))]
    if coverage:
        cmd += ["-coverage", "1"]
    if simulate:
        cmd += ["-simulate", simulate]
    if seed is not None:
        cmd += ["-seed", str(seed)]
    cmd += list(extra)
    cmd += ["-config", cfg, os.path.join(SPEC, module + ".tla")]
    e = {"JAVA_TOOL_OPTIONS": JAVA_OPTS}
    if env:
        e.update(env)
    rc, _, dt = run(cmd, timeout, env=e, cwd=wd, stdout_path=log_path)
    res = {"module": module, "rc": rc, "wall_s": round(dt, 2), "states": 0, "transitions": 0,
           "actions": {}, "errors": [], "replays": 0, "log": log_path, "rejected_line": None}
    rout = open(replay_out, "w") if replay_out else None
    with open(log_path, "r", errors="replace") as f:
        for line in f:
            m = REPLAY_RE.match(line)
            if m:
                if rout:
                    rout.write(_tla_unescape(m.group(1)) + "\n")
                res["replays"] += 1
                continue
            m = STATES_RE.match(line)
            if m:
                res["transitions"] = int(m.group(1))
                res["states"] = int(m.group(2))
                continue
            m = COVER_RE.match(line)
            if m:
                res["actions"][m.group(1)] = max(res["actions"].get(m.group(1), 0), int(m.group(4)))
                continue
            if line.startswith("<<\"TRACE-REJECTED"):
                m2 = re.search(r'line", (\d+)', line)
                if m2:
                    res["rejected_line"] = int(m2.group(1))
                res["errors"].append(line.strip())
                continue
            if line.startswith("Error:") or "is violated" in line or line.startswith("TLC threw") or "Exception" in line:
                res["errors"].append(line.strip())
    if rout:
        rout.close()
    res["ok"] = (rc == 0 and not res["errors"])
    return res


def mc(module, wd, constants=None, invariants=(), properties=(), constraint=None, view=None,
       deadlock=False, workers=None, timeout=1800, must_cover=(), spec="Spec", replay_out=None):
    """Bounded exhaustive model checking.  A failure here is a defect of the
    specification (the model does not depend on /repo), hence a tool error."""
    os.makedirs(wd, exist_ok=True)
    cfg = os.path.join(wd, module + ".cfg")
    write_cfg(cfg, spec=spec, constants=constants, invariants=invariants, properties=properties,
              constraint=constraint, view=view, deadlock=deadlock)
    r = tlc(module, cfg, wd, workers=workers, timeout=timeout, replay_out=replay_out)
    if not r["ok"]:
        raise ToolError("model checking %s failed: %s (log %s)" % (module, r["errors"][:3], r["log"]))
    for a in must_cover:
        if r["actions"].get(a, 0) == 0:
            raise ToolError("vacuity: action %s of %s was never taken (log %s)" % (a, module, r["log"]))
    log("[mc] %s: %d distinct states, %d transitions, %.1fs" % (module, r["states"], r["transitions"], r["wall_s"]))
    return r


def generate(module, wd, out, constants=None, invariants=("Replay",), simulate=None, seed=None,
             workers=None, timeout=1800, constraint=None, spec="Spec"):
    """Runs TLC as an enumerator / simulator; REPLAY lines go to `out` (ndjson)."""
    cfg = os.path.join(wd, module + "_gen.cfg")
    write_cfg(cfg, spec=spec, constants=constants, invariants=invariants, constraint=constraint)
    r = tlc(module, cfg, wd, workers=workers, timeout=timeout, simulate=simulate, seed=seed,
            coverage=False, replay_out=out)
    if r["errors"] or r["rc"] != 0:
        raise ToolError("generator %s failed: %s (log %s)" % (module, r["errors"][:3], r["log"]))
    if r["replays"] == 0:
        raise ToolError("generator %s produced no behaviours (log %s)" % (module, r["log"]))
    log("[gen] %s: %d behaviours, %.1fs" % (module, r["replays"], r["wall_s"]))
    return r


def validate_trace(module, wd, trace, invariants=(), timeout=1800, heap="4g", view=None):
    """Trace validation.  Returns (accepted, rejected_line, result)."""
    cfg = os.path.join(wd, module + ".cfg")
    write_cfg(cfg, invariants=invariants, postcondition="Accepted", view=view)
    env = {"TRACE": trace,
           "JAVA_TOOL_OPTIONS": JAVA_OPTS + " -Xmx%s -Dtlc2.tool.queue.IStateQueue=StateDeque" % heap}
    r = tlc(module, cfg, wd, workers=1, timeout=timeout, env=env, coverage=False)
    if r["rejected_line"] is not None:
        return False, r["rejected_line"], r
    if not r["ok"]:
        # an invariant of the trace spec failed, or TLC itself failed
        inv = [e for e in r["errors"] if "is violated" in e]
        if inv:
            return False, max(1, r["states"]), r
        raise ToolError("trace validation %s failed: %s (log %s)" % (module, r["errors"][:3], r["log"]))
    return True, None, r


def validate_runs(module, wd, trace, invariants=(), max_rejections=20, timeout=1800, heap="4g", view=None):
    """Validates a trace made of runs that each start with a Reset event (which resets the whole
    state of the trace specification, so runs are independent).  On a rejection the runs before
    the offending one stand accepted, the offending run is recorded, and validation continues
    with the runs after it, so that one defect does not leave the remainder unexamined.  Returns
    (runs_accepted, [(run_id, reset_event, first_unmatched_event, line)], states)."""
    with open(trace) as f:
        lines = f.read().splitlines()
    total = sum(1 for l in lines if l.startswith('{"e":"Reset"'))
    rejected = []
    states = 0
    rounds = 0
    cur = trace
    unexamined = 0
    while lines:
        ok, line, r = validate_trace(module, wd, cur, invariants=invariants, timeout=timeout, heap=heap, view=view)
        states += r["states"]
        if ok:
            break
        rounds += 1
        # locate the run containing the rejected line
        start = None
        for i in range(min(line, len(lines)) - 1, -1, -1):
            if lines[i].startswith('{"e":"Reset"'):
                start = i
                break
        if start is None:
            raise ToolError("trace rejected before the first Reset (line %d)" % line)
        end = len(lines)
        for i in range(start + 1, len(lines)):
            if lines[i].startswith('{"e":"Reset"'):
                end = i
                break
        reset = json.loads(lines[start])
        ev = json.loads(lines[line - 1]) if line - 1 < len(lines) else {"e": "eof"}
        for big in ("ebins", "dbins", "bytes", "plain"):
            reset.pop(big, None)
            ev.pop(big, None)
        rejected.append({"run": reset.get("run"), "reset": reset, "event": ev, "line_in_run": line - start})
        lines = lines[end:]
        if rounds >= max_rejections:
            unexamined = sum(1 for l in lines if l.startswith('{"e":"Reset"'))
            log("[trace] %s: %d rejections, %d runs left unexamined" % (module, rounds, unexamined))
            break
        cur = os.path.join(wd, "trace_retry_%d.ndjson" % rounds)
        with open(cur, "w") as f:
            f.write("\n".join(lines) + ("\n" if lines else ""))
    return total - len(rejected) - unexamined, rejected, states


# ---------------------------------------------------------------- findings

def load_findings():
    if not os.path.exists(FINDINGS):
        return []
    with open(FINDINGS) as f:
        return json.load(f).get("findings", [])


class Check:
    """Collects what one run of a check covered and found."""

    current = None            # the check in progress (bin/check finishes it if a tool error interrupts it)

    def __init__(self, pid, tier, seed):
        Check.current = self
        self.pid = pid
        self.tier = tier
        self.seed = seed
        self.t0 = time.time()
        self.violations = []      # (signature, description, replay path)
        self.known = []
        self.cov = {"states": 0, "transitions": 0, "traces_validated_against_impl": 0,
                    "samples": [], "evaluations": 0, "distinct_nontrivial": 0, "models": [],
                    "notes": []}
        self.assumptions = [
            "harness and library built in release profile (debug assertions and overflow checks off), as shipped",
            "the cabac, zstd and crc32fast crates are below the modelled level: executed by every replay, not modelled",
        ]
        self.findings = [f for f in load_findings() if f.get("property") == pid]
        self.deferred = None      # a tool error that must not hide violations already found

    def add_model(self, r, what):
        self.cov["states"] += r["states"]
        self.cov["transitions"] += r["transitions"]
        self.cov["models"].append({"module": r["module"], "role": what, "distinct_states": r["states"],
                                   "states_generated": r["transitions"], "wall_s": r["wall_s"],
                                   "actions_taken": {k: v for k, v in r["actions"].items() if v}})

    def sample(self, s):
        if len(self.cov["samples"]) < 6:
            self.cov["samples"].append(s)

    def note(self, s):
        self.cov["notes"].append(s)
        log("[note] " + s)

    def violation(self, signature, description, replay):
        """Reports one violating case unless known_findings.json lists its
        signature as an open finding."""
        for f in self.findings:
            if f.get("status") == "open" and f.get("signature") == signature:
                if signature not in self.known:
                    self.known.append(signature)
                    log("KNOWN-FINDING: property=%s %s (%s)" % (self.pid, signature, f.get("what", "")))
                return
        seen = sum(1 for v in self.violations if v[0] == signature)
        if seen >= 3:
            # enough replay files for this class; keep counting
            self.violations.append((signature, description, self.violations[-1][2]))
            return
        d = os.path.join(REPLAYS, self.pid)
        os.makedirs(d, exist_ok=True)
        body = json.dumps(replay, sort_keys=True)
        name = hashlib.sha1(body.encode()).hexdigest()[:16] + ".json"
        path = os.path.join(d, name)
        replay = dict(replay)
        replay.update({"property": self.pid, "signature": signature, "description": description,
                       "tier": self.tier, "seed": self.seed})
        with open(path, "w") as f:
            json.dump(replay, f)
        self.violations.append((signature, description, path))
        log("VIOLATION property=%s replay=%s" % (self.pid, path))
        log("  [%s] %s" % (signature, description[:300]))

    def defer_tool_error(self, msg):
        if self.deferred is None:
            self.deferred = msg
        log("[deferred tool error] " + msg[:400])

    def finish(self, level="model_checking", rule=""):
        if self.deferred and not self.violations:
            raise ToolError(self.deferred)
        cov = self.cov
        cov["rule"] = rule
        cov["violations_by_signature"] = {}
        for s, _, _ in self.violations:
            cov["violations_by_signature"][s] = cov["violations_by_signature"].get(s, 0) + 1
        cov["known_findings_seen"] = self.known
        if not cov["samples"]:
            cov["samples"] = ["(no sample recorded)"]
        if cov["states"] == 0 or cov["transitions"] == 0:
            # no model was explored in this run (e.g. a replay): fall back to the generic keys
            for k in ("states", "transitions"):
                cov.pop(k, None)
        ev = {"property_id": self.pid, "tier": self.tier, "seed": self.seed, "level": level,
              "coverage": cov, "assumptions": self.assumptions,
              "wall_s": round(time.time() - self.t0, 2), "violations": len(self.violations)}
        os.makedirs(EVIDENCE, exist_ok=True)
        with open(os.path.join(EVIDENCE, self.pid + ".json"), "w") as f:
            json.dump(ev, f, indent=1)
        log("[done] %s tier=%s states=%d traces=%d evaluations=%d violations=%d known=%d wall=%.0fs" % (
            self.pid, self.tier, cov.get("states", 0), cov["traces_validated_against_impl"], cov["evaluations"],
            len(self.violations), len(self.known), time.time() - self.t0))
        return 1 if self.violations else 0


def read_ndjson(path):
    with open(path) as f:
        for line in f:
            line = line.strip()
            if line:
                yield json.loads(line)


def tlaps(c, name, wd, timeout=600):
    """Unbounded complement: a small TLAPS proof (spec/proofs/<name>.tla).  Recorded in the
    evidence when it goes through; never a verdict (back-end provers time out under load)."""
    src = os.path.join(SPEC, "proofs", name + ".tla")
    d = os.path.join(wd, "tlaps")
    os.makedirs(d, exist_ok=True)
    shutil.copy(src, d)
    try:
        rc, out, dt = run(["tlapm", "--threads", "4", "--stretch", "3", name + ".tla"], timeout, cwd=d)
    except (ToolError, FileNotFoundError) as e:
        c.note("TLAPS proof %s not checked: %s" % (name, e))
        return
    m = re.search(r"All (\d+) obligations? proved", out)
    if not m:
        # a complement, never a verdict: provers time out under load
        c.note("TLAPS proof %s was not completed in this run (%s)" % (name, " ".join(out.split())[-200:]))
        return
    c.cov.setdefault("proof_complements", []).append(
        {"module": "proofs/" + name + ".tla", "obligations_proved": int(m.group(1)), "wall_s": round(dt, 1),
         "checker": "tlapm"})
    log("[tlaps] %s: %s obligations proved, %.1fs" % (name, m.group(1), dt))


def apalache_inductive(c, module, wd, cinit, init, ind_init, ind_inv, inv, neg_cinit=None, timeout=600):
    """Unbounded complement: Apalache discharges an inductive invariant (Init => IndInv,
    IndInit /\ Next => IndInv', IndInv => Inv) over unbounded integers.  Recorded in the evidence
    when it goes through; never a verdict.  With neg_cinit the last obligation must FAIL for the
    negative constants (vacuity guard)."""
    out_dir = os.path.join(wd, "apalache")
    def one(ci, ini, iv, length):
        try:
            rc, out, dt = run(["apalache-mc", "check", "--cinit=" + ci, "--init=" + ini, "--inv=" + iv, "--length=%d" % length,
                               "--out-dir=" + out_dir, os.path.join(SPEC, module + ".tla")], timeout)
        except (ToolError, FileNotFoundError) as e:
            return None, 0.0
        if "EXITCODE: OK" in out:
            return True, dt
        if "Checker has found an error" in out:
            return False, dt
        return None, dt
    obligations = [(cinit, init, ind_inv, 0), (cinit, ind_init, ind_inv, 1), (cinit, ind_init, inv, 0)]
    total = 0.0
    for o in obligations:
        ok, dt = one(*o)
        total += dt
        if ok is not True:
            c.note("Apalache did not discharge %s of %s in this run" % (o[1:3], module))
            shutil.rmtree(out_dir, ignore_errors=True)
            return
    neg = None
    if neg_cinit:
        neg, dt = one(neg_cinit, ind_init, inv, 0)
        total += dt
        if neg is not False:
            c.note("Apalache: the negative constants of %s did not produce the expected counterexample" % module)
            shutil.rmtree(out_dir, ignore_errors=True)
            return
    shutil.rmtree(out_dir, ignore_errors=True)
    c.cov.setdefault("proof_complements", []).append(
        {"module": module + ".tla", "checker": "apalache-mc", "inductive_invariant": ind_inv, "implies": inv,
         "obligations": 3, "negative_constants_refuted": bool(neg_cinit), "wall_s": round(total, 1)})
    log("[apalache] %s: %s is inductive and implies %s for all positions and lengths, %.1fs" % (module, ind_inv, inv, total))
