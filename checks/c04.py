"""C04 - data written by the reference build is still reconstructed by the current build."""
from container_common import *


def in_estimator_range(p):
    """Params!InEstimatorRange for vectors with a dictionary (the only ones the prediction traces carry)."""
    if not p or len(p) != 18:
        return False
    return (p[0] in (0, 1) and p[1] in (0, 1, 2) and p[2] in (0, 1) and 9 <= p[3] <= 15 and 1 <= p[4] <= 7
            and ((p[5], p[6]) in ((5, 32767), (4, 2047)) if p[4] == 1 else (p[5], p[6]) == (0, 0))
            and (p[4] in (1, 2, 3, 6) if p[15] == 3 else p[4] in (4, 5, 7))
            and p[7] in (127, 255, 511, 1023, 2047, 4095, 8191, 16383, 32767) and 0 <= p[8] <= 32768
            and p[9] in (0, 1) and p[10] in (0, 1)
            and (p[11], p[12]) in ((0, 0), (4, 4), (8, 16), (8, 32), (32, 128), (32, 258)) and p[13] in (8, 16, 32, 128, 258)
            and 1 <= p[14] <= 4096 and 3 <= p[15] <= 258 and 0 <= p[16] <= 4
            and (0 <= p[17] <= 255 if p[16] in (1, 2) else p[17] == 0))


def run_check(tier, seed, replay=None):
    c = Check("C04", tier, seed)
    build_harness()
    wd = workdir("c04")
    q = tier == "quick"
    if replay:
        seed = json.load(open(replay)).get("seed", seed)
    consts = {"Inputs": "{1, 2}", "MaxObjects": 3, "VersionCur": 1, "VersionRef": 1, "FmtCur": 1, "FmtRef": 1}
    r = mc("History", wd, constants=consts, invariants=["NoSilentLoss", "SelfRoundTrip"], must_cover=["Write", "Upgrade", "Read"])
    c.add_model(r, "all histories of Write / Upgrade / Read over 3 objects, same version and same format")
    r2 = mc("History", os.path.join(wd, "bump"), constants=dict(consts, VersionCur=2, FmtCur=2),
            invariants=["NoSilentLoss", "SelfRoundTrip"])
    c.add_model(r2, "format change announced by a version bump")
    # negative self-test: a silent format change must be found by the model
    cfg = os.path.join(wd, "neg.cfg")
    write_cfg(cfg, constants=dict(consts, FmtCur=2), invariants=["NoSilentLoss"])
    neg = tlc("History", cfg, os.path.join(wd, "neg"), coverage=False)
    if neg["ok"]:
        raise ToolError("History.tla does not find the silent format change in the negative configuration")
    # SelfRoundTrip holds there: exactly why the repository's tests cannot see it
    cfg2 = os.path.join(wd, "neg2.cfg")
    write_cfg(cfg2, constants=dict(consts, FmtCur=2), invariants=["SelfRoundTrip"])
    if not tlc("History", cfg2, os.path.join(wd, "neg2"), coverage=False)["ok"]:
        raise ToolError("SelfRoundTrip should hold under a silent format change")
    tr = os.path.join(wd, "hist.trace")
    from deflate_common import gen_streams, gen_hex
    extra = gen_hex(wd, gen_streams(wd, tier, seed + 4))
    run_quiet(["hist-record", "--seed", seed, "--streams", 60 if q else 800, "--files", 12 if q else 150,
               "--maxlen", 40000 if q else 250000, "--out", tr, "--extra", extra,
               "--sweeps", 8 if q else 64, "--window", 48 if q else 160])
    evs = list(read_ndjson(tr))
    resets = [x for x in evs if x["e"] == "Reset"]
    if resets and resets[0]["versions"]["ref"] != resets[0]["versions"]["cur"]:
        c.note("announced format change: version numbers %s; nothing is claimed" % json.dumps(resets[0]["versions"]))
    acc, rej, states = validate_runs("Trace_History", wd, tr, timeout=3000)
    c.cov["traces_validated_against_impl"] += acc
    c.cov["states"] += states
    c.cov["transitions"] += states
    written = sum(1 for x in evs if x["e"] == "Write" and x["result"] == "ok")
    if written == 0:
        raise ToolError("vacuity: the reference build accepted nothing")
    c.cov["evaluations"] += sum(1 for x in evs if x["e"] == "Read" and x["build"] == "cur")
    c.cov["distinct_nontrivial"] = len({(x["kind"], x["len"]) for x in resets})
    c.cov["objects_written_by_reference"] = written
    for x in rej:
        ev = x["event"]
        rs = x["reset"]
        if ev.get("e") == "Read" and ev.get("build") == "ref":
            raise ToolError("the reference build cannot read its own data: %s %s" % (json.dumps(rs)[:200], json.dumps(ev)))
        c.violation("history:%s:%s:%s" % (rs.get("kind"), ev.get("e"), ev.get("result", "")),
                    "data written by the reference build: %s [%s %s]" % (json.dumps(ev), rs.get("kind"), json.dumps(rs.get("label"))[:160]),
                    {"kind": "history", "seed": seed, "reset": rs, "event": ev})
    # frozen implicit format: the current build's predictions, the correction operations of every
    # token and the decoder's reading of them recomputed by Match.tla (no reference build
    # involved): hash function, dictionary policy, candidate order, search limits, the lazy rule
    # and the hop count of a distance are part of what gives stored corrections their meaning.
    # Streams of all compressors, of a deliberately sloppy one, and every stream again under
    # parameter vectors next to the estimated one.
    same_versions = not (resets and resets[0]["versions"]["ref"] != resets[0]["versions"]["cur"])
    mtr = os.path.join(wd, "match.trace")
    vh(["match-record", "--seed", seed, "--streams", 40 if q else 300, "--sweeps", 4 if q else 20, "--window", 4,
        "--perturb", 2 if q else 3, "--maxplain", 3000 if q else 4000, "--out", mtr], timeout=7200)
    mcases = {r["run"]: r for r in read_ndjson(mtr + ".cases")}
    macc, mrej, mstates = validate_runs("Trace_Match", wd, mtr, view="TraceView", heap="12g", timeout=6000)
    supported = sum(1 for x in read_ndjson(mtr) if x["e"] == "Reset" and x["supported"])
    c.cov["traces_validated_against_impl"] += macc
    c.cov["states"] += mstates
    c.cov["transitions"] += mstates
    c.cov["prediction_traces"] = {"runs": len(mcases), "with_modelled_hash": supported}
    if supported == 0:
        raise ToolError("vacuity: no stream used a hash function Match.tla models")
    for x in mrej:
        ev = x["event"]
        case = mcases.get(x["run"], {})
        if not same_versions:
            continue
        if case.get("forced") and not in_estimator_range(x["reset"].get("params")):
            c.defer_tool_error("Trace_Match rejects a run under a parameter vector outside the estimator's range (%s): no stored "
                               "data can carry it; the specification needs attention" % x["reset"].get("params"))
            continue
        c.violation("prediction:%s" % ev.get("e"),
                    "the predictor no longer predicts what the frozen format (Match.tla) demands: %s on %s, parameters %s" % (
                        json.dumps(ev), x["reset"].get("label"), x["reset"].get("params")),
                    {"kind": "deflate-hex", "hex": case.get("hex"), "event": ev, "seed": seed})
    # the same, exhaustively at small scope (the implementation's side of MC_Match): every plaintext of
    # up to n bytes over two letters, every valid parse, every parameter vector of MC_Match
    vecs = os.path.join(wd, "match_vectors.json")
    generate("MC_Match", wd, vecs, constants={"N": 1, "Alphabet": "{97}", "Asym": "FALSE"}, invariants=["Replay"], workers=1, timeout=600)
    xtr = os.path.join(wd, "match_exhaustive.trace")
    vh(["match-exhaustive", "--n", 8 if q else 10, "--vectors", vecs, "--out", xtr], timeout=7200)
    xcases = {r["run"]: r for r in read_ndjson(xtr + ".cases")}
    xacc, xrej, xstates = validate_runs("Trace_Match", wd, xtr, view="TraceView", heap="12g", timeout=14000)
    c.cov["traces_validated_against_impl"] += xacc
    c.cov["states"] += xstates
    c.cov["transitions"] += xstates
    c.cov["prediction_traces"]["exhaustive_small_scope_runs"] = len(xcases)
    if xacc == 0:
        raise ToolError("vacuity: no exhaustive small-scope run was analysed")
    for x in xrej:
        if not same_versions:
            continue
        if not in_estimator_range(x["reset"].get("params")):
            c.defer_tool_error("Trace_Match rejects an exhaustive run under a parameter vector outside the estimator's range (%s)" %
                               x["reset"].get("params"))
            continue
        ev = x["event"]
        case = xcases.get(x["run"], {})
        c.violation("prediction:%s" % ev.get("e"),
                    "the predictor no longer predicts / corrects what the frozen format (Match.tla) demands: %s on %s, parameters %s" % (
                        json.dumps(ev), x["reset"].get("label"), x["reset"].get("params")),
                    {"kind": "deflate-hex", "hex": case.get("hex"), "forced": case.get("forced"), "event": ev, "seed": seed})
    # frozen explicit format: operation grammar, parameter header, tree prediction and the
    # Huffman length calculation (Stream / Params / TreePredict / HuffCalc) on the current build
    from stream_common import record_stream_traces, validate_stream_traces
    str_tr = record_stream_traces(wd, tier, seed + 4, name="fmt")
    for kind, x, case in validate_stream_traces(c, wd, str_tr):
        if not same_versions:
            continue
        ev = x["event"]
        c.violation("format:" + kind,
                    "the current build no longer follows the frozen format specification (%s) at %s on %s" % (
                        kind, json.dumps(ev)[:300], x["reset"].get("label")),
                    {"kind": "deflate-hex", "hex": case.get("hex"), "event": ev, "seed": seed})
    for x in resets[:2] + resets[-2:]:
        c.sample({"kind": x["kind"], "label": x["label"], "len": x["len"]})
    return c.finish(rule="evaluations = objects (correction data of a stream, container of a file) written by the frozen "
                         "reference build (/verif/refbuild, commit in REF_COMMIT) and read by the build of /repo's "
                         "working tree in the same process, compared byte for byte with the original; for streams also "
                         "the operation sequence the reference encoded against the one the current build decodes; "
                         "non-trivial = distinct (kind, length)")
