"""C01 - container round trip is exact and total for every byte string."""
from container_common import *


def run_check(tier, seed, replay=None):
    c = Check("C01", tier, seed)
    build_harness()
    if replay:
        return replay_hex(c, "C01", replay)
    wd = workdir("c01")
    mc_scan(c, wd, tier)
    mc_chunks(c, wd, tier)
    files = gen_files(wd, tier, seed)
    res = replay_files(wd, files, seed)
    account_files(c, res, "C01", "model files")
    rres, tr = record_files(wd, tier, seed, traces=60 if tier == "quick" else 600)
    account_files(c, rres, "C01", "random, damaged and sample files")
    validate_container_traces(c, "C01", wd, tr)
    for r in res[:2] + rres[:2]:
        c.sample({"file": r.get("desc"), "len": r.get("len"), "chunks": r.get("chunks")})
    return c.finish(rule="evaluations = files pushed through expand_zlib_chunks -> recreated_zlib_chunks (and the zstd "
                         "pair): every abstract file of <= 3 segments the scanner model enumerates, concretised with "
                         "real compressor streams; random segment mixes; truncations, bit flips, splices of those; "
                         "the repository's sample containers; every byte string up to the stated length. "
                         "non-trivial = distinct (length, container length, chunk kinds) with a non-literal chunk or "
                         "a structured description; traces = expand/recreate runs accepted by Trace_Container")
