"""Shared by C02 C03 C05 C07: generation of valid streams with Gen_Deflate,
replay into the real library, driver streams, parser trace validation."""
import json, os
from common import *


def gen_streams(wd, tier, seed, name="gen"):
    """Random valid streams from the specification (spec -> impl)."""
    out = os.path.join(wd, name + ".ndjson")
    per_worker = 40 if tier == "quick" else 400
    parts = []
    batches = [("FALSE", "mixed", per_worker), ("TRUE", "mixed", max(10, per_worker // 4)),
               ("FALSE", "far", max(15, per_worker // 3)), ("FALSE", "twin", max(10, per_worker // 4))]
    for i, (repzero, mode, n) in enumerate(batches):
        p = os.path.join(wd, "%s_%d.ndjson" % (name, i))
        generate("Gen_Deflate", wd, p, constants={"MaxTok": 30, "MaxBlk": 2 if mode == "twin" else 3, "RepZero": repzero, "Mode": '"%s"' % mode},
                 invariants=["Replay"], simulate="num=%d" % n, seed=seed * 10 + i, workers=6, timeout=3000)
        parts.append(p)
    with open(out, "w") as o:
        for p in parts:
            o.write(open(p).read())
    return out


def gen_hex(wd, gen):
    """packs generated behaviours into hex lines (for drivers that take raw streams)"""
    out = gen + ".hex"
    vh(["deflate-pack", "--in", gen, "--out", out])
    return out


def vh_or_isolate(args, what):
    """Runs a harness command in-process (fast); if the process is killed (abort, stack overflow,
    runaway allocation) or its watchdog fires, runs it again with every case in a forked child, so
    that the culprit is reported as a case outcome instead of taking the whole run down."""
    rc, out, _ = run([VH] + [str(a) for a in args], 7200)
    if rc == 0:
        return
    log("[isolate] %s ended with status %s; repeating it case by case in child processes" % (what, rc))
    rc2, out2, _ = run([VH] + [str(a) for a in args] + ["--isolate", "1"], 14400)
    if rc2 != 0:
        raise ToolError("vh %s exited %d even in isolation:\n%s" % (args[0], rc2, out2[-2000:]))


def replay_generated(c, wd, gen, threads=12):
    res = gen + ".res"
    vh_or_isolate(["deflate-replay", "--in", gen, "--out", res, "--threads", threads], "replay of generated streams")
    return list(read_ndjson(res))


def record_driver(wd, tier, seed, traces, streams=None, mutants=None, maxlen=None, tracemax=None, name="drv"):
    res = os.path.join(wd, name + ".res")
    tr = os.path.join(wd, name + ".trace")
    q = tier == "quick"
    args = ["deflate-record", "--seed", seed, "--streams", streams or (120 if q else 1500),
            "--maxlen", maxlen or (60000 if q else 300000), "--mutants", mutants if mutants is not None else 3,
            "--samples", 1, "--out", res, "--threads", 14, "--sweeps", 8 if q else 64, "--window", 48 if q else 160,
            "--corpus", os.path.join(VERIF, "corpus", "deflate")]
    if traces:
        args += ["--trace", tr, "--traces", traces, "--tracemax", tracemax or (20000 if q else 120000)]
    vh_or_isolate(args, "driver streams")
    return list(read_ndjson(res)), (tr if traces else None)


def account(c, results, pid, what):
    """Turns harness result lines into coverage numbers and violations of `pid`."""
    n = 0
    accepted = 0
    distinct = set()
    for r in results:
        if r["kind"] == "timeout":
            c.violation("hang", "a call did not return within the time limit (case %s)" % r["id"],
                        {"kind": "deflate-hex", "id": r["id"], "hex": r.get("hex")})
            continue
        if r["kind"] != "case":
            continue
        n += 1
        if r.get("model_error"):
            raise ToolError("model validation failed on %s: %s" % (r["id"], r["model_error"]))
        if r["lib"].startswith("ok"):
            accepted += 1
            if r.get("nontrivial"):
                distinct.add((r["len"], r.get("plain_len"), r.get("corr_len")))
        for v in r.get("viol", []):
            if v["prop"] == pid:
                c.violation(v["sig"], "%s [%s]" % (v["why"], r.get("label")),
                            {"kind": "deflate-hex", "hex": r.get("hex"), "label": r.get("label"), "feat": r.get("feat")})
    c.cov["evaluations"] += n
    c.cov["distinct_nontrivial"] += len(distinct)
    c.cov.setdefault("accepted_by_library", {})[what] = accepted
    c.cov.setdefault("cases", {})[what] = n
    return n, accepted


def classify_rejections(c, pid, rejected, cases):
    """A rejected parser trace is a violation only where the property speaks."""
    for x in rejected:
        rs = x["reset"]
        case = cases.get(x["run"], {})
        ev = x["event"]
        if ev.get("e") == "Panic":
            if pid == "C05":
                c.violation("parse-panic", "the parser panicked: %s" % ev.get("msg"), {"kind": "deflate-hex", "hex": case.get("hex")})
            continue
        if not rs.get("zok"):
            c.cov["domain_exits"] = c.cov.get("domain_exits", 0) + 1   # library more lenient than RFC 1951 / zlib
            continue
        if rs.get("zeq") is False or ev.get("e") == "End":
            if pid == "C03":
                c.violation("trace:" + str(ev.get("e")),
                            "parser trace rejected by Trace_Deflate at %s (run %s, %s)" % (json.dumps(ev)[:160], x["run"], rs.get("label")),
                            {"kind": "deflate-hex", "hex": case.get("hex"), "event": ev})
            continue
        raise ToolError("Trace_Deflate rejects a parse that zlib confirms (run %s %s, event %s): the specification "
                        "and the parser disagree without a property consequence" % (x["run"], rs.get("label"), json.dumps(ev)[:200]))


def validate_parse_traces(c, pid, wd, trace):
    cases = {r["run"]: r for r in read_ndjson(trace + ".cases")}
    acc, rej, states = validate_runs("Trace_Deflate", wd, trace, invariants=["Monotone"], timeout=3000, heap="12g")
    c.cov["traces_validated_against_impl"] += acc
    c.cov["states"] += states
    c.cov["transitions"] += states
    classify_rejections(c, pid, rej, cases)
    return acc


def replay_hex(c, pid, path):
    case = json.load(open(path))
    hx = case.get("hex")
    if not hx:
        raise ToolError("replay file has no input bytes")
    rc, out, _ = vh(["deflate-replay-hex", "--hex", hx])
    r = json.loads(out.strip().splitlines()[-1])
    c.cov["evaluations"] = 1
    for v in r.get("viol", []):
        if v["prop"] == pid:
            c.violation(v["sig"], v["why"], {"kind": "deflate-hex", "hex": hx})
    return c.finish(rule="replay of one saved case")


def mc_deflate(c, wd):
    """The reader's grammar as a state machine over the catalogue of MC_Deflate; the same run
    prints every catalogue input with the verdict, reason and tokens the specification computed."""
    cat = os.path.join(wd, "catalogue.ndjson")
    r = mc("MC_Deflate", wd, constants={"Emit": "TRUE"},
           invariants=["Total", "Verdicts", "ProperPrefixOfValid", "ReserialiseIsIdentity", "Replay"],
           properties=["Terminates"], must_cover=["Next"], timeout=3000, replay_out=cat)
    c.add_model(r, "DEFLATE reader grammar: every production, every way it can fail, end of input inside every "
                   "field (all byte prefixes of the catalogue inputs)")
    if r["replays"] == 0:
        raise ToolError("MC_Deflate printed no catalogue")
    return r


def replay_catalogue(c, wd, pid):
    """spec -> impl: the catalogue through the real parser and the public API."""
    cat = os.path.join(wd, "catalogue.ndjson")
    res = cat + ".res"
    vh_or_isolate(["deflate-edge-replay", "--in", cat, "--out", res], "replay of the grammar catalogue")
    rs = list(read_ndjson(res))
    account(c, rs, pid, "grammar catalogue")
    len_obs = sorted({r["spec"]["reason"] for r in rs if r.get("leniency")})
    c.cov["library_more_lenient_than_rfc_on"] = len_obs
    unexpected = [r["label"] for r in rs if r.get("leniency") and not r["spec"]["lenient"]]
    if unexpected:
        c.note("the library accepts inputs RFC 1951 and zlib reject, beyond the documented leniencies: %s" % unexpected[:5])
    return rs


def critical_positions(c, wd, pid, seed, near=1):
    """Positions.tla: the 16-bit position arithmetic of the hash tables never overflows for any
    token sequence (model), does overflow under the seeded threshold (negative configuration),
    and the critical positions the model prints are realised as real zlib streams (spec -> impl)."""
    consts = {"Thresh": 65032, "Delta": 32256, "MaxPos": 140000, "Lens": "{1, 3, 257, 258}", "Emit": "TRUE"}
    crit = os.path.join(wd, "critical.json")
    r = mc("MC_Positions", wd, constants=consts, invariants=["NoOverflow", "WindowKept", "Replay"], workers=8, timeout=1800,
           replay_out=crit)
    c.add_model(r, "relative positions of the hash tables over every sequence of token lengths 1, 3, 257, 258 up to "
                   "position 140000: every conversion to 16 bits in range, nothing inside the window dropped")
    cfg = os.path.join(wd, "positions_neg.cfg")
    write_cfg(cfg, constants=dict(consts, Thresh=65278, Emit="FALSE"), invariants=["NoOverflow"])
    if tlc("MC_Positions", cfg, os.path.join(wd, "positions_neg"), coverage=False, timeout=1800)["ok"]:
        raise ToolError("Positions.tla does not find the overflow under the late reshift threshold (negative configuration)")
    c.note("negative model (reshift threshold 0x10000 - 258) violates NoOverflow as expected")
    apalache_inductive(c, "Positions", wd, "ConstInit", "Init", "IndInit", "IndInv", "NoOverflow", neg_cinit="ConstInitLate")
    res = os.path.join(wd, "critical.res")
    vh(["deflate-critical", "--in", crit, "--out", res, "--seed", seed, "--near", near], timeout=3600)
    rs = list(read_ndjson(res))
    for x in rs:
        if x["kind"] == "summary":
            c.cov["critical_positions"] = x
            if x["realised"] * 2 < x["cases"]:
                raise ToolError("vacuity: only %d of %d critical-position streams have the planted token" % (x["realised"], x["cases"]))
    account(c, rs, pid, "critical positions")


def all_pairs(c, wd, pid):
    """Every (length, distance, spelling of 258) pair under the fixed code and under a dynamic
    code whose length and far-distance symbols have the longest codes: the tables come from
    Gen_Tables (RFC 1951 as transcribed in Deflate.tla), the harness only concatenates fields."""
    tab = os.path.join(wd, "tables.json")
    generate("Gen_Tables", wd, tab, invariants=["Replay"], timeout=900, workers=2)
    res = os.path.join(wd, "pairs.res")
    vh(["deflate-pairs", "--tables", tab, "--out", res, "--stride", 1, "--threads", 14], timeout=3600)
    for r in read_ndjson(res):
        if r["kind"] == "summary":
            c.cov["evaluations"] += r["pairs"]
            c.cov["length_distance_pairs"] = r
            c.cov["exhaustive"] = True
        elif r["prop"] == "MODEL":
            raise ToolError("all-pairs: " + r["why"])
        elif r["prop"] == pid:
            c.violation("pairs:" + r["code"], "%s [%s code, %d pairs from (len index %d, dist %d)]" % (
                r["why"], r["code"], r["pairs"], r["first_pair"][0], r["first_pair"][1]),
                {"kind": "deflate-hex", "hex": r.get("hex"), "code": r["code"], "first_pair": r["first_pair"]})
