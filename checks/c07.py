"""C07 - DEFLATE parse then re-serialise is the identity on every valid stream."""
from deflate_common import *


def run_check(tier, seed, replay=None):
    c = Check("C07", tier, seed)
    build_harness()
    if replay:
        return replay_hex(c, "C07", replay)
    wd = workdir("c07")
    mc_deflate(c, wd)
    replay_catalogue(c, wd, "C07")
    all_pairs(c, wd, "C07")
    gen = gen_streams(wd, tier, seed + 1)
    res = replay_generated(c, wd, gen)
    n, acc = account(c, res, "C07", "generated")
    dres, dtr = record_driver(wd, tier, seed + 1, traces=0)
    account(c, dres, "C07", "drivers")
    parsed = sum(1 for r in res if r["kind"] == "case" and "parse-rejects-valid" not in r["lib"])
    if parsed == 0:
        raise ToolError("vacuity: the parser accepted none of the generated streams")
    c.cov["parsed_generated"] = parsed
    for r in res[:3]:
        c.sample({"generated_stream": {k: r.get(k) for k in ("id", "lib", "len", "plain_len", "feat")}})
    return c.finish(rule="evaluations = streams pushed through the hook parse_and_rewrite (parser + block writer, no "
                         "predictor); the oracle is the input prefix; non-trivial = distinct accepted streams")
