"""C13 - reconstruction tolerates fragmented I/O and fails cleanly on I/O errors."""
from container_common import *


def run_check(tier, seed, replay=None):
    c = Check("C13", tier, seed)
    build_harness()
    wd = workdir("c13")
    if replay:
        case = json.load(open(replay))
        tr = os.path.join(wd, "replay.trace")
        run_quiet(["io-replay", "--case", replay, "--out", tr])
        acc, rej, _ = validate_runs("Trace_IO", wd, tr, invariants=["Bounds"])
        c.cov["evaluations"] = 1
        for x in rej:
            c.violation(case.get("signature", "io"), "replayed schedule still rejected", {"kind": "io", "case": case.get("case")})
        return c.finish(rule="replay of one saved case")
    q = tier == "quick"
    r = mc("MC_IO", wd, constants={"Shapes": "<- MCShapes" if q else "<- MCShapesBig", "BUF": 2, "MaxFaults": 2 if q else 3},
           invariants=["WrittenIsPrefix", "OkIsComplete", "HardErrorSurfaces", "FragmentationIsHarmless", "Terminal"],
           properties=["Terminates"], must_cover=["Next"], timeout=3000)
    c.add_model(r, "recreate against every schedule of read/write outcomes (full, short, Interrupted, hard error, "
                   "zero write) over containers of up to 3 chunks")
    tr = os.path.join(wd, "io.trace")
    run_quiet(["io-record", "--seed", seed, "--files", 9, "--out", tr, "--maxcalls", 120 if q else 2000,
               "--mixed", 20 if q else 300, "--maxlen", 30000 if q else 120000])
    cases = {x["run"]: x for x in read_ndjson(tr + ".cases")}
    acc, rej, states = validate_runs("Trace_IO", wd, tr, invariants=["Bounds"], timeout=3000, heap="12g")
    c.cov["traces_validated_against_impl"] += acc
    c.cov["states"] += states
    c.cov["transitions"] += states
    c.cov["evaluations"] += len(cases)
    kinds = set()
    for x in cases.values():
        kinds.add((x["file"], x["label"].split(":")[1].split("@")[0]))
    c.cov["distinct_nontrivial"] = len([k for k in kinds if k[1] != "plain"]) + sum(
        1 for x in cases.values() if x["script"]["at"])
    for x in rej:
        case = cases.get(x["run"], {})
        ev = x["event"]
        c.violation("io:%s:%s" % (ev.get("e"), ev.get("result", ev.get("ret", ""))),
                    "I/O trace rejected by Trace_IO at %s (run %s %s)" % (json.dumps(ev)[:200], x["run"], case.get("label")),
                    {"kind": "io", "case": case, "event": ev})
    for x in list(cases.values())[:1] + list(cases.values())[40:42]:
        c.sample({"label": x["label"], "script": x["script"], "segs": x["segs"]})
    return c.finish(rule="evaluations = scripted runs of recreated_zlib_chunks on 9 container shapes: unfaulted, short "
                         "transfers everywhere, one byte at a time, one fault of each kind (hard error, Interrupted, "
                         "zero write, short) at every I/O call index (sampled above the stated call count), and faults "
                         "under fragmentation; non-trivial = runs with at least one short transfer or fault; every "
                         "run's call sequence is validated by Trace_IO")
