"""C12 - C ABI wrappers respect caller buffers, report status, and round-trip."""
from container_common import *


def run_check(tier, seed, replay=None):
    c = Check("C12", tier, seed)
    build_harness()
    wd = workdir("c12")
    q = tier == "quick"
    if replay:
        seed = json.load(open(replay)).get("seed", seed)
    r = mc("MC_CAbi", wd, constants={"Guard": 2, "Needed": 3, "Bound": 4, "Caps": "{0, 1, 2, 3, 4, 5, 9}"},
           invariants=["Meets", "GuardsIntact"], must_cover=["WriteOut", "Finish"])
    c.add_model(r, "one wrapper call: capacities around the needed size x inner outcome Ok/Err/Panic, memory with "
                   "guard cells")
    tr = os.path.join(wd, "abi.trace")
    run_quiet(["abi-record", "--seed", seed, "--files", 10 if q else 120, "--out", tr, "--maxlen", 30000 if q else 200000,
               "--limit", 1])
    resets = [x for x in read_ndjson(tr) if x["e"] == "Reset"]
    cfgc = {"Guard": 4096}
    acc, rej, states = validate_runs_const("Trace_Abi", wd, tr, cfgc)
    c.cov["traces_validated_against_impl"] += acc
    c.cov["states"] += states
    c.cov["transitions"] += states
    calls = [x for x in read_ndjson(tr) if x["e"] in ("Compress", "Decompress")]
    c.cov["evaluations"] += len(calls)
    c.cov["distinct_nontrivial"] = len({(x["e"], x["cap"], x["status"]) for x in calls})
    for x in rej:
        ev = x["event"]
        c.violation("abi:%s:status%s" % (ev.get("e"), ev.get("status")),
                    "wrapper call rejected by Trace_Abi: %s (file of %s bytes)" % (json.dumps(ev), x["reset"].get("flen")),
                    {"kind": "abi", "seed": seed, "reset": x["reset"], "event": ev})
    for x in calls[:3]:
        c.sample(x)
    return c.finish(rule="evaluations = calls of WrapperCompressZip / WrapperDecompressZip on a buffer carved out of a "
                         "larger allocation with 4 KiB of canary on both sides, capacities 0, 1, needed-1, needed, "
                         "needed+1, ZSTD_compressBound, beyond; plus garbage / truncated / non-container frames; frames around "
                         "damaged containers followed, in the same process, by the good calls again; one file whose "
                         "expanded form is exactly 128 MiB; "
                         "non-trivial = distinct (call, capacity, status)")


def validate_runs_const(module, wd, trace, constants):
    # validate_runs with CONSTANTS in the generated cfg
    import common
    orig = common.write_cfg
    def patched(path, **kw):
        kw["constants"] = constants
        return orig(path, **kw)
    common.write_cfg = patched
    try:
        return validate_runs(module, wd, trace, timeout=3000)
    finally:
        common.write_cfg = orig
