"""C14 - public functions are deterministic and safe to call concurrently."""
import re, glob
from container_common import *

SUSPECT = re.compile(r"static\s+mut\b|thread_local!|\b(AtomicU?\w*|Mutex|RwLock|RefCell|UnsafeCell|OnceCell|OnceLock|LazyLock|LazyCell|lazy_static)\b"
                     r"|\bLazy(::new|<)|\bHash(Map|Set)\b|SystemTime|Instant::now|std::env::|\brand::|RandomState")


def inventory():
    """Monitors the hypothesis SharedCells = {} of Concurrency.tla: everything in
    /repo/src that could be shared mutable state or a source of nondeterminism.
    Reported, never a violation by itself."""
    hits = []
    for p in sorted(glob.glob(os.path.join(REPO, "src", "*.rs"))):
        if p.endswith("verif.rs"):
            continue
        for i, line in enumerate(open(p, errors="replace"), 1):
            s = line.strip()
            if s.startswith("//"):
                continue
            if SUSPECT.search(s):
                hits.append("%s:%d: %s" % (os.path.basename(p), i, s[:120]))
    return hits


def run_check(tier, seed, replay=None):
    c = Check("C14", tier, seed)
    build_harness()
    wd = workdir("c14")
    if replay:
        seed = json.load(open(replay)).get("seed", seed)
    r = mc("Concurrency", wd, constants={"Threads": "{1, 2, 3}", "Inputs": "{1, 2}", "K": 2, "Calls": 2, "SharedCells": "{}", "Retained": "{}"},
           invariants=["Deterministic"], must_cover=["Start", "Work", "Finish"], workers=8)
    c.add_model(r, "3 threads x sequences of 2 calls x 2 inputs x 2 internal steps, no shared and no retained cells: every "
                   "interleaving and every history")
    # negative self-tests of the model: one shared cell must yield the race, one retained cell the history dependence
    for name, consts, what in (
            ("shared", {"Threads": "{1, 2}", "Inputs": "{1, 2}", "K": 2, "Calls": 1, "SharedCells": "{1}", "Retained": "{}"}, "one shared cell"),
            ("retained", {"Threads": "{1}", "Inputs": "{1, 2}", "K": 1, "Calls": 2, "SharedCells": "{}", "Retained": "{1}"}, "one cell retained by the thread")):
        cfg = os.path.join(wd, "neg_%s.cfg" % name)
        write_cfg(cfg, constants=consts, invariants=["Deterministic"])
        if tlc("Concurrency", cfg, os.path.join(wd, "neg_" + name), coverage=False)["ok"]:
            raise ToolError("the negative configuration of Concurrency.tla (%s) found no counterexample" % what)
        c.note("negative model (%s) yields the expected counterexample" % what)
    hyp = inventory()
    c.cov["hypothesis_monitor"] = hyp
    stress = tier == "thorough" or bool(hyp)
    if hyp:
        c.note("source inventory is not empty: SharedCells = {} is no longer evident; running the thorough stress")
    hashes = []
    for proc in range(2):
        tr = os.path.join(wd, "conc%d.trace" % proc)
        run_quiet(["conc-record", "--seed", seed, "--out", tr, "--threads", 16, "--rounds", 12 if stress else 4,
                   "--inputs", 8 if stress else 5, "--maxlen", 60000 if stress else 20000])
        acc, rej, states = validate_runs("Trace_Conc", wd, tr, timeout=3000)
        c.cov["traces_validated_against_impl"] += acc
        c.cov["states"] += states
        c.cov["transitions"] += states
        evs = list(read_ndjson(tr))
        c.cov["evaluations"] += sum(1 for x in evs if x["e"] in ("Fresh", "Seq", "End"))
        hashes.append({(x["fn"], x["x"]): x["hash"] for x in evs if x["e"] in ("Fresh", "Seq")})
        for x in rej:
            ev = x["event"]
            rd = ev.get("round")
            how = "on the main thread after other calls" if ev.get("e") == "Seq" else \
                  {-2: "in a history thread after other calls", -3: "on the same bytes at another address modulo 8",
                   -4: "beside threads whose calls are all rejected", -5: "on a thread pinned to one processor"}.get(rd, "beside other calls")
            kind = "history" if rd == -2 or ev.get("e") == "Seq" else "alignment" if rd == -3 else "environment" if rd == -5 else "concurrent"
            c.violation("conc:%s:%s" % (ev.get("fn"), kind),
                        "a call %s returned a result different from the same call on a thread of its own: %s" % (how, json.dumps(ev)),
                        {"kind": "conc", "seed": seed, "event": ev})
        if proc == 0:
            c.sample([x for x in evs if x["e"] == "End"][:3])
    c.cov["distinct_nontrivial"] = len(hashes[0])
    if hashes[0] != hashes[1]:
        diff = [k for k in hashes[0] if hashes[0][k] != hashes[1].get(k)]
        c.violation("conc:process", "two processes computed different results for the same inputs: %s" % diff[:5],
                    {"kind": "conc", "seed": seed, "diff": [list(k) for k in diff[:5]]})
    return c.finish(rule="evaluations = calls of expand / recreate / decompress / recompress / compress_zstd / decompress_zstd: "
                         "a reference per (function, input) computed on a thread of its own; the same calls one after the "
                         "other on the main thread; three long-lived threads running every call twice in orders of their "
                         "own (inputs include a file over 4 MiB and streams of one text under four window sizes); the same bytes at "
                         "every address modulo 8; a 4 MiB file with streams at every equal-parts cut, with all processors and pinned to "
                         "one; the C wrappers on a per-thread input buffer, refused calls followed by a twin of the same "
                         "length; files expanded beside threads that do nothing but get garbage rejected; then 16 "
                         "threads released together by a barrier (same call; same function on distinct inputs; random "
                         "mixes); every result compared with the reference by Trace_Conc; a second process must "
                         "reproduce the reference hashes; non-trivial = distinct (function, input)")
