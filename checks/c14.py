"""C14 - public functions are deterministic and safe to call concurrently."""
import re, glob
from container_common import *

SUSPECT = re.compile(r"static\s+mut\b|thread_local!|\b(AtomicU?\w*|Mutex|RwLock|RefCell|UnsafeCell|OnceCell|OnceLock|LazyLock|LazyCell|lazy_static)\b"
                     r"|\bLazy(::new|<)|\bHash(Map|Set)\b|SystemTime|Instant::now|std::env::|\brand::|RandomState")


def inventory():
    """Monitors the hypothesis SharedCells = {} of Concurrency.tla: everything in
    /repo/src that could be shared mutable state or a source of nondeterminism.
    Reported, never a violation by itself."""
    hits = []
    for p in sorted(glob.glob(os.path.join(REPO, "src", "*.rs"))):
        if p.endswith("verif.rs"):
            continue
        for i, line in enumerate(open(p, errors="replace"), 1):
            s = line.strip()
            if s.startswith("//"):
                continue
            if SUSPECT.search(s):
                hits.append("%s:%d: %s" % (os.path.basename(p), i, s[:120]))
    return hits


def run_check(tier, seed, replay=None):
    c = Check("C14", tier, seed)
    build_harness()
    wd = workdir("c14")
    if replay:
        seed = json.load(open(replay)).get("seed", seed)
    r = mc("Concurrency", wd, constants={"Threads": "{1, 2, 3}", "Inputs": "{1, 2}", "K": 3, "SharedCells": "{}"},
           invariants=["Deterministic"], must_cover=["Start", "Work", "Finish"])
    c.add_model(r, "3 threads x 2 inputs x 3 internal steps, no shared mutable cells: every interleaving")
    # negative self-test of the model: one shared cell must yield the race
    cfg = os.path.join(wd, "neg.cfg")
    write_cfg(cfg, constants={"Threads": "{1, 2}", "Inputs": "{1, 2}", "K": 2, "SharedCells": "{1}"}, invariants=["Deterministic"])
    neg = tlc("Concurrency", cfg, os.path.join(wd, "neg"), coverage=False)
    if neg["ok"]:
        raise ToolError("the negative configuration of Concurrency.tla (one shared cell) found no race")
    c.note("negative model (one shared cell) yields the expected counterexample")
    hyp = inventory()
    c.cov["hypothesis_monitor"] = hyp
    stress = tier == "thorough" or bool(hyp)
    if hyp:
        c.note("source inventory is not empty: SharedCells = {} is no longer evident; running the thorough stress")
    hashes = []
    for proc in range(2):
        tr = os.path.join(wd, "conc%d.trace" % proc)
        run_quiet(["conc-record", "--seed", seed, "--out", tr, "--threads", 16, "--rounds", 12 if stress else 4,
                   "--inputs", 8 if stress else 5, "--maxlen", 60000 if stress else 20000])
        acc, rej, states = validate_runs("Trace_Conc", wd, tr, timeout=3000)
        c.cov["traces_validated_against_impl"] += acc
        c.cov["states"] += states
        c.cov["transitions"] += states
        evs = list(read_ndjson(tr))
        c.cov["evaluations"] += sum(1 for x in evs if x["e"] in ("Seq", "End"))
        hashes.append({(x["fn"], x["x"]): x["hash"] for x in evs if x["e"] == "Seq"})
        for x in rej:
            ev = x["event"]
            c.violation("conc:%s" % ev.get("fn"), "a concurrent call returned a result different from the sequential "
                        "reference: %s" % json.dumps(ev), {"kind": "conc", "seed": seed, "event": ev})
        if proc == 0:
            c.sample([x for x in evs if x["e"] == "End"][:3])
    c.cov["distinct_nontrivial"] = len(hashes[0])
    if hashes[0] != hashes[1]:
        diff = [k for k in hashes[0] if hashes[0][k] != hashes[1].get(k)]
        c.violation("conc:process", "two processes computed different results for the same inputs: %s" % diff[:5],
                    {"kind": "conc", "seed": seed, "diff": [list(k) for k in diff[:5]]})
    return c.finish(rule="evaluations = calls of expand/recreate/decompress/recompress: a sequential reference per "
                         "(function, input), then 16 threads released together by a barrier (same call; same function "
                         "on distinct inputs; random mixes), each result compared with the reference by Trace_Conc; "
                         "a second process must reproduce the reference hashes; non-trivial = distinct (function, input)")
