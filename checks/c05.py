"""C05 - analysing arbitrary bytes ends in Ok or Err: no panic, no hang."""
from deflate_common import *


def run_check(tier, seed, replay=None):
    c = Check("C05", tier, seed)
    build_harness()
    if replay:
        return replay_hex(c, "C05", replay)
    wd = workdir("c05")
    mc_deflate(c, wd)
    replay_catalogue(c, wd, "C05")
    gen = gen_streams(wd, tier, seed + 2)
    res = replay_generated(c, wd, gen)
    account(c, res, "C05", "generated")
    dres, _ = record_driver(wd, tier, seed + 2, traces=0, mutants=8,
                            streams=150 if tier == "quick" else 2500, maxlen=40000 if tier == "quick" else 64000)
    account(c, dres, "C05", "drivers+mutations")
    critical_positions(c, wd, "C05", seed, near=1 if tier == "quick" else 20)
    # every byte string up to a length
    sh = os.path.join(wd, "short.res")
    rc, _, _ = run([VH, "deflate-short", "--maxlen", str(2 if tier == "quick" else 3), "--out", sh, "--threads", "14"], 7200)
    if rc not in (0, 3):
        raise ToolError("vh deflate-short exited %s" % rc)
    sres = list(read_ndjson(sh))
    account(c, [r for r in sres if r["kind"] in ("case", "timeout")], "C05", "short")
    for r in sres:
        if r["kind"] == "summary":
            c.cov["evaluations"] += r["evaluations"]
            c.cov["exhaustive_short_strings"] = r
    outcomes = {}
    for r in res + dres:
        if r["kind"] == "case":
            k = r["lib"].split("+")[0]
            outcomes[k] = outcomes.get(k, 0) + 1
    c.cov["outcomes"] = outcomes
    for r in dres[:4]:
        c.sample({"driver_stream": {k: r.get(k) for k in ("label", "lib", "len")}})
    return c.finish(rule="evaluations = calls of decompress_deflate_stream (both verify flags) on generated valid "
                         "streams, compressor outputs, 8 mutations of each, and every byte string up to the stated "
                         "length; a panic or a call exceeding the time limit is a violation; non-trivial = distinct "
                         "accepted streams")
