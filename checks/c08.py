"""C08 - reconstruction never depends on the estimated parameters being right."""
from stream_common import *


def run_check(tier, seed, replay=None):
    c = Check("C08", tier, seed)
    build_harness()
    wd = workdir("c08")
    q = tier == "quick"
    if replay:
        case = json.load(open(replay))
        tmp = os.path.join(wd, "vec.ndjson")
        hx = os.path.join(wd, "s.hex")
        open(tmp, "w").write(json.dumps({"vec": case["vec"]}) + "\n")
        open(hx, "w").write(case["hex"] + "\n")
        res = os.path.join(wd, "vec.res")
        vh(["params-replay", "--in", tmp, "--out", res, "--streams", 0, "--extra", hx, "--extramax", 1])
        c.cov["evaluations"] = 1
        for r in read_ndjson(res):
            if r["kind"] == "violation" and r["label"].startswith("generated"):
                c.violation(r["sig"], r["why"], {"kind": "params", "vec": r["vec"], "hex": r["hex"]})
        return c.finish(rule="replay of one saved case")
    mc_predict(c, wd, "quick")
    consts = {"LimitMax": 255, "Emit": "FALSE", "Wide": "FALSE" if q else "TRUE"}
    r = mc("MC_Params", wd, constants=consts, invariants=["FitsWidths", "ReadsBack", "InRange"], timeout=6000)
    c.add_model(r, "boundary-valued parameter vectors of the estimator's range: header fits and reads back")
    cfg = os.path.join(wd, "neg.cfg")
    write_cfg(cfg, constants={"LimitMax": 257, "Emit": "FALSE", "Wide": "FALSE"}, invariants=["FitsWidths"])
    if tlc("MC_Params", cfg, os.path.join(wd, "neg"), coverage=False, timeout=3000)["ok"]:
        raise ToolError("MC_Params does not find the 8-bit limit overflow in the negative configuration")
    c.note("negative model (add-policy limit up to 257) violates FitsWidths as expected")
    vec = os.path.join(wd, "vec.ndjson")
    generate("MC_Params", wd, vec, constants=dict(consts, Emit="TRUE"), invariants=["Replay"], timeout=6000)
    gen = gen_hex(wd, gen_streams(wd, "quick", seed + 8))
    res = os.path.join(wd, "vec.res")
    vh_or_isolate(["params-replay", "--in", vec, "--out", res, "--seed", seed, "--streams", 8 if q else 30, "--stride", 5 if q else 24,
                   "--maxlen", 6000 if q else 40000, "--extra", gen, "--extramax", 6 if q else 40, "--threads", 14],
                  "replay of parameter vectors")
    for rec in read_ndjson(res):
        if rec["kind"] == "summary":
            c.cov["evaluations"] += rec["evaluations"]
            c.cov["distinct_nontrivial"] += rec["ok"]
            c.cov["param_roundtrips"] = {k: rec[k] for k in ("vectors", "streams", "evaluations", "ok", "err")}
            if rec["ok"] == 0:
                raise ToolError("vacuity: no parameter vector produced corrections")
            c.sample(rec["sample"])
        else:
            c.violation("params:" + rec["sig"], "%s [%s]" % (rec["why"], rec["label"]),
                        {"kind": "params", "vec": rec["vec"], "hex": rec["hex"], "label": rec["label"]})
    # T: the header the estimator's own vector is written with, on driver streams
    tr = record_stream_traces(wd, tier, seed + 8, extra=gen)
    for kind, x, case in validate_stream_traces(c, wd, tr):
        ev = x["event"]
        if kind == "header":
            c.violation("header", "parameter header rejected by Trace_Stream (Params.tla: layout, widths, read-back, "
                        "estimator range) on %s: header ops %s" % (x["reset"].get("label"), json.dumps(ev.get("eo"))[:300]),
                        {"kind": "deflate-hex", "hex": case.get("hex"), "event": ev})
        elif kind in ("mirror", "predictor-state-differs", "end", "panic"):
            c.violation("stream:" + kind, "analysis under the estimated parameters does not reconstruct (%s) on %s" % (
                kind, x["reset"].get("label")), {"kind": "deflate-hex", "hex": case.get("hex"), "event": ev})
        else:
            c.defer_tool_error("Trace_Stream and the implementation disagree on the operation grammar (%s) at %s; "
                               "the specification needs attention" % (kind, json.dumps(ev)[:300]))
    return c.finish(rule="evaluations = (parameter vector, stream) pairs through the hook roundtrip_with_params: "
                         "every vector MC_Params enumerates (all hash algorithms, add policies, greedy/lazy, "
                         "boundary values of every numeric field) x compressor-made and generated streams; oracle: Err, "
                         "or the rebuilt stream equals the input prefix and the vector reads back; "
                         "non-trivial = pairs that produced corrections; traces = streams whose header operations "
                         "were validated against Params.tla by Trace_Stream")
