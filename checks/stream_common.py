"""Joint analysis/reconstruction traces validated by Trace_Stream (C02, C08, C04)."""
import json, os
from common import *
from deflate_common import gen_streams, gen_hex


def record_stream_traces(wd, tier, seed, name="st", extra=None, cross=False):
    tr = os.path.join(wd, name + ".trace")
    q = tier == "quick"
    a = ["stream-record", "--seed", seed, "--streams", 30 if q else 400, "--sweeps", 16 if q else 64,
         "--window", 16 if q else 64, "--maxlen", 8000 if q else 60000, "--maxtok", 6000 if q else 40000,
         "--samples", 1, "--samplemax", 30000 if q else 300000, "--out", tr]
    if extra:
        a += ["--extra", extra]
    if cross:
        a += ["--cross", 1]
    vh(a, timeout=7200)
    return tr


def classify(ev):
    """Which obligation of Trace_Stream an unmatched event breaks (pure equalities
    on the logged fields; no format knowledge needed here)."""
    e = ev.get("e")
    if e in ("Panic", "ReconstructPanic"):
        return "panic"
    if e == "End":
        return "end"
    if e == "Seg":
        if ev.get("dm") != ev.get("m") or ev.get("do") != ev.get("eo"):
            return "mirror"
        if "ap" in ev and ev.get("ap") != ev.get("rp"):
            return "predictor-state-differs"
        if ev.get("m") == "hdr":
            return "header"
        if "ap" in ev and ev["ap"][1] == 1:
            return "pending"
        return "grammar"
    return "other"


def validate_stream_traces(c, wd, trace):
    cases = {r["run"]: r for r in read_ndjson(trace + ".cases")}
    acc, rej, states = validate_runs("Trace_Stream", wd, trace, invariants=["PosInRange"], timeout=6000, heap="12g")
    c.cov["traces_validated_against_impl"] += acc
    c.cov["states"] += states
    c.cov["transitions"] += states
    out = []
    for x in rej:
        out.append((classify(x["event"]), x, cases.get(x["run"], {})))
    return out
