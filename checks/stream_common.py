"""Joint analysis/reconstruction traces validated by Trace_Stream (C02, C08, C04)."""
import json, os
from common import *
from deflate_common import gen_streams, gen_hex, vh_or_isolate


def record_stream_traces(wd, tier, seed, name="st", extra=None, cross=False):
    tr = os.path.join(wd, name + ".trace")
    q = tier == "quick"
    a = ["stream-record", "--seed", seed, "--streams", 30 if q else 400, "--sweeps", 16 if q else 64,
         "--window", 16 if q else 64, "--maxlen", 8000 if q else 60000, "--maxtok", 6000 if q else 40000,
         "--samples", 1, "--samplemax", 30000 if q else 300000, "--smallblocks", 10 if q else 40, "--out", tr]
    if extra:
        a += ["--extra", extra]
    if cross:
        a += ["--cross", 1]
    vh(a, timeout=7200)
    return tr


def classify(ev):
    """Which obligation of Trace_Stream an unmatched event breaks (pure equalities
    on the logged fields; no format knowledge needed here)."""
    e = ev.get("e")
    if e in ("Panic", "ReconstructPanic"):
        return "panic"
    if e == "End":
        return "end"
    if e == "Seg":
        if ev.get("dm") != ev.get("m") or ev.get("do") != ev.get("eo"):
            return "mirror"
        if "ap" in ev and ev.get("ap") != ev.get("rp"):
            return "predictor-state-differs"
        if ev.get("m") == "hdr":
            return "header"
        if "ap" in ev and ev["ap"][1] == 1:
            return "pending"
        return "grammar"
    return "other"


def validate_stream_traces(c, wd, trace):
    cases = {r["run"]: r for r in read_ndjson(trace + ".cases")}
    acc, rej, states = validate_runs("Trace_Stream", wd, trace, invariants=["PosInRange"], timeout=6000, heap="12g")
    c.cov["traces_validated_against_impl"] += acc
    c.cov["states"] += states
    c.cov["transitions"] += states
    # how each run ended (a rejection stops at the first unmatched event; whether the stream was
    # reconstructed exactly is known all the same)
    ends, run = {}, None
    if rej:
        for ev in read_ndjson(trace):
            if ev["e"] == "Reset":
                run = ev.get("run")
            elif ev["e"] in ("End", "Panic", "ReconstructPanic"):
                ends[run] = ev
    out = []
    for x in rej:
        kind = classify(x["event"])
        end = ends.get(x["run"])
        if kind in ("grammar", "other", "pending", "header") and end is not None:
            failed = end["e"] != "End" or end.get("result") != "ok" or not end.get("rebuilt_equal") or not end.get("blocks_equal")
            if failed:
                # not only does the run deviate from the grammar: its reconstruction is not exact either
                kind = "end"
                x = dict(x, event=dict(end, first_deviation=x["event"].get("m") or x["event"].get("e")))
        out.append((kind, x, cases.get(x["run"], {})))
    return out


PREDICT_INVS = ["ProtocolSync", "Restored", "HopsInvert"]


def mc_predict(c, wd, tier):
    """Predict.tla: analyser / reconstructor protocol for every matcher oracle."""
    base = {"N": 5, "MaxBlocks": 2, "MaxTok": 2, "MaxLen": 4, "MaxDist": 2, "Lazy": "TRUE", "ZlibCompat": "TRUE",
            "AKeepsPending": "FALSE"}
    runs = [("n5", base), ("n6", dict(base, N=6, MaxDist=1)), ("greedy", dict(base, Lazy="FALSE")),
            ("notzlib", dict(base, N=6, MaxDist=1, ZlibCompat="FALSE"))]
    if tier == "thorough":
        runs += [("n6d2", dict(base, N=6)), ("n7", dict(base, N=7, MaxDist=1, MaxBlocks=3))]
    for name, consts in runs:
        r = mc("Predict", os.path.join(wd, "predict_" + name), constants=consts, invariants=PREDICT_INVS,
               properties=["Finishes"], must_cover=["A_Block", "A_Token", "A_End", "R_EofCheck", "R_Block", "R_Token", "R_Final"],
               timeout=14000, workers=12)
        c.add_model(r, "analyser/reconstructor protocol, every stream of <= %s blocks over %s bytes and every matcher "
                       "oracle (%s)" % (consts["MaxBlocks"], consts["N"], name))
    # negative self-test: a deferred match kept across a block boundary by the analyser only
    cfg = os.path.join(wd, "predict_neg.cfg")
    write_cfg(cfg, constants=dict(base, N=6, MaxDist=1, AKeepsPending="TRUE"), invariants=PREDICT_INVS)
    if tlc("Predict", cfg, os.path.join(wd, "predict_neg"), coverage=False, timeout=3000, workers=12)["ok"]:
        raise ToolError("Predict.tla does not find the one-sided pending match in the negative configuration")
    c.note("negative model (analyser keeps a deferred match across a block boundary) violates ProtocolSync as expected")
    # the same obligation for the concrete matcher of Match.tla: every plaintext, every valid parse
    mm = {"N": 9 if tier == "quick" else 11, "Alphabet": "{97, 98}", "Asym": "FALSE"}
    r = mc("MC_Match", os.path.join(wd, "mc_match"), constants=mm, invariants=["Restored", "PredictionValid", "PendingValid"],
           must_cover=["Step"], timeout=14000, workers=12)
    c.add_model(r, "concrete matcher (Match.tla): every plaintext of <= %s bytes over two letters, every valid LZ77 parse, 7 "
                   "parameter vectors over 5 hash functions: what the reconstructor decodes is what the analyser saw" % mm["N"])
    if tier != "quick":
        r = mc("MC_Match", os.path.join(wd, "mc_match3"), constants=dict(mm, N=8, Alphabet="{97, 98, 99}"),
               invariants=["Restored", "PredictionValid", "PendingValid"], timeout=14000, workers=12)
        c.add_model(r, "concrete matcher, plaintexts of <= 8 bytes over three letters")
    for probe in ("ProbeRejected", "ProbeDone"):
        cfg = os.path.join(wd, "mc_match_%s.cfg" % probe)
        write_cfg(cfg, constants=dict(mm, N=7), invariants=[probe])
        if tlc("MC_Match", cfg, os.path.join(wd, "mc_match_probe"), coverage=False, timeout=3000, workers=4)["ok"]:
            raise ToolError("vacuity: MC_Match never reaches the state %s excludes" % probe)
    cfg = os.path.join(wd, "mc_match_neg.cfg")
    write_cfg(cfg, constants=dict(mm, N=8, Asym="TRUE"), invariants=["Restored"])
    if tlc("MC_Match", cfg, os.path.join(wd, "mc_match_neg"), coverage=False, timeout=3000, workers=8)["ok"]:
        raise ToolError("MC_Match does not find the one-sided 3-byte table in the negative configuration")
    c.note("negative model (reconstructor without libdeflate's 3-byte table) violates Restored as expected")
