"""C06 - embedded streams in supported wrappers are found and expanded, not copied."""
from container_common import *


def run_check(tier, seed, replay=None):
    c = Check("C06", tier, seed)
    build_harness()
    if replay:
        return replay_hex(c, "C06", replay)
    wd = workdir("c06")
    mc_scan(c, wd, tier)
    files = gen_files(wd, tier, seed + 5)
    res = replay_files(wd, files, seed + 5, zstd=False)
    account_files(c, res, "C06", "model files")
    found = sum(1 for r in res if any(k != 0 for k, _ in r["chunks"]))
    if found == 0:
        raise ToolError("vacuity: no file produced a stream chunk")
    c.cov["files_with_stream_chunks"] = found
    rres, _ = record_files(wd, tier, seed + 5, traces=0)
    account_files(c, rres, "C06", "random files")
    for r in res[:3]:
        c.sample({"file": r.get("desc"), "chunks": r.get("chunks")})
    return c.finish(rule="evaluations = files built from abstract segment lists; the oracle is the chunk structure the "
                         "scanner model predicts (kinds from Scan.tla, exact spans from the real sizes) and the "
                         "plaintext of every embedded stream found verbatim in the container; "
                         "non-trivial = distinct files with at least one stream chunk or a structured description")
