"""C02 - stream split/reconstruct is bit-exact whenever the split succeeds."""
from deflate_common import *
from stream_common import *


def run_check(tier, seed, replay=None):
    c = Check("C02", tier, seed)
    build_harness()
    if replay:
        return replay_hex(c, "C02", replay)
    wd = workdir("c02")
    mc_predict(c, wd, tier)
    tlaps(c, "DiffProof", wd)
    # the grammar catalogue (every production, every way it can fail, ill-formed look-alikes of
    # tolerated forms) through both verify settings: nothing ill-formed is accepted and rebuilt differently
    mc_deflate(c, wd)
    replay_catalogue(c, wd, "C02")
    gen = gen_streams(wd, tier, seed + 3)
    res = replay_generated(c, wd, gen)
    n, acc = account(c, res, "C02", "generated")
    if acc == 0:
        raise ToolError("vacuity: the library accepted none of the %d generated streams" % n)
    dres, _ = record_driver(wd, tier, seed + 3, traces=0)
    account(c, dres, "C02", "drivers")
    # T: joint encode/decode traces: mirror of operations, predictor states, exact reconstruction
    tr = record_stream_traces(wd, tier, seed + 3, extra=gen_hex(wd, gen))
    for kind, x, case in validate_stream_traces(c, wd, tr):
        ev = x["event"]
        if kind in ("mirror", "predictor-state-differs", "end", "panic"):
            c.violation("stream:" + kind, "encode and decode side are not mirror images (%s) at %s [%s]" % (
                kind, json.dumps(ev)[:300], x["reset"].get("label")), {"kind": "deflate-hex", "hex": case.get("hex"), "event": ev})
        elif kind == "pending":
            # both sides carry a deferred match over a block start, in step: the reconstruction is still exact (C02
            # holds); what changed is the meaning of stored corrections, which is C04's business
            c.defer_tool_error("both sides keep a deferred match across a block start (%s): the stored format differs from "
                               "Predict.tla / Trace_Stream; the specification needs attention" % x["reset"].get("label"))
        elif kind == "header":
            c.note("header deviates from Params.tla on %s (C08's business)" % x["reset"].get("label"))
        else:
            c.defer_tool_error("Trace_Stream and the implementation disagree on the operation grammar (%s) at %s; "
                               "the specification needs attention" % (kind, json.dumps(ev)[:300]))
    for r in res[:2]:
        c.sample({"generated_stream": {k: r.get(k) for k in ("id", "lib", "len", "plain_len", "feat")}})
    for r in dres[:3]:
        c.sample({"driver_stream": {k: r.get(k) for k in ("label", "lib", "len", "plain_len", "corr_len")}})
    return c.finish(rule="evaluations = byte strings analysed with both verify flags; for every Ok result the "
                         "reconstruction must equal the input prefix, both flags must agree, and the result must not "
                         "change when the tail after compressed_size is removed or replaced; non-trivial = distinct "
                         "accepted streams with non-empty plaintext")
