"""Shared by C01 C06 C11: the scanner model, systematic abstract files from it,
random and damaged files, container trace validation."""
import json, os
from common import *

SCAN_INVS = ["Tiling", "CursorOrder", "Total", "Alternation", "Found", "NothingElse", "NoNegativeLiteral"]


def mc_scan(c, wd, tier):
    n = 3 if tier == "quick" else 4
    r = mc("Scan", wd, constants={"MaxSeg": n, "Emit": "FALSE"}, invariants=SCAN_INVS, properties=["Terminates"],
           must_cover=["NextSignature", "ProbeAccept", "ProbeReject", "TailLiteral"], timeout=6000,
           workers=8)
    c.add_model(r, "every abstract file of <= %d segments over 28 segment classes" % n)
    return r


def mc_chunks(c, wd, tier):
    """Writer / reader symmetry of the container grammar on varint-boundary lengths."""
    n = 2 if tier == "quick" else 3
    r = mc("MC_Chunks", wd, constants={"MaxChunks": n, "ZeroSizes": "FALSE"},
           invariants=["RoundTrip", "VarintRoundTrip"], workers=8, timeout=3000)
    c.add_model(r, "every list of <= %d chunks with lengths on the varint boundaries: reader inverts writer" % n)
    cfg = os.path.join(wd, "chunks_neg.cfg")
    write_cfg(cfg, constants={"MaxChunks": 1, "ZeroSizes": "TRUE"}, invariants=["RoundTrip"])
    if tlc("MC_Chunks", cfg, os.path.join(wd, "chunks_neg"), coverage=False, timeout=3000)["ok"]:
        raise ToolError("MC_Chunks does not find the zero-size IDAT descriptor collision in the negative configuration")
    c.note("negative model (an IDAT descriptor may carry a chunk of size 0) violates RoundTrip as expected")


def gen_files(wd, tier, seed):
    out = os.path.join(wd, "files.ndjson")
    # spec -> impl: every abstract file of <= 3 segments (14 142 files); 4-segment files only in the model
    generate("Scan", wd, out, constants={"MaxSeg": 2 if os.environ.get("VERIF_TINY") else 3, "Emit": "TRUE"},
             invariants=["Replay"], seed=seed, timeout=3000, workers=8)
    return out


def replay_files(wd, files, seed, zstd=True, pool=12, maxlen=40000):
    res = files + ".res"
    a = ["container-replay", "--in", files, "--out", res, "--seed", seed, "--pool", pool, "--maxlen", maxlen,
         "--threads", 14]
    if zstd:
        a += ["--zstd", 1]
    run_quiet(a)
    return list(read_ndjson(res))


def run_quiet(a, timeout=7200):
    # the library prints diagnostics for zip members (loglevel 1 is hard-wired there)
    rc, _, _ = run([VH] + [str(x) for x in a], timeout, stdout_path=os.path.join(WORK, "vh_stdout.log"))
    if rc != 0:
        raise ToolError("vh %s exited %d (see %s)" % (a[0], rc, os.path.join(WORK, "vh_stdout.log")))


def record_files(wd, tier, seed, traces):
    res = os.path.join(wd, "rand.res")
    tr = os.path.join(wd, "rand.trace")
    q = tier == "quick"
    a = ["container-record", "--seed", seed, "--files", 60 if q else 600, "--mutants", 6 if q else 10,
         "--cuts", 12 if q else 16, "--zstd", 1, "--samples", 1, "--out", res, "--short", 2 if q else 3,
         "--pool", 12 if q else 40, "--maxlen", 40000 if q else 200000, "--threads", 14]
    if traces:
        a += ["--trace", tr, "--traces", traces]
    run_quiet(a)
    return list(read_ndjson(res)), (tr if traces else None)


def account_files(c, results, pid, what):
    n = 0
    nontrivial = set()
    drift = []
    for r in results:
        if r["kind"] == "summary":
            c.cov["evaluations"] += r.get("short_strings", 0)
            c.cov["exhaustive_short_files"] = r
            continue
        n += 1
        kinds = tuple(k for k, _ in r["chunks"])
        if any(k != 0 for k in kinds) or r.get("desc"):
            nontrivial.add((r["len"], r["container_len"], kinds))
        for v in r["viol"]:
            if v["prop"] == pid:
                c.violation(v["sig"], "%s [%s]" % (v["why"], json.dumps(r.get("desc"))[:300]),
                            {"kind": "file-hex", "hex": r.get("hex"), "desc": r.get("desc")})
            elif v["prop"] == "SCAN" and pid == "C06" and not any(w["prop"] == "C06" for w in r["viol"]):
                # the scanner cut the file differently from Scan.tla's prediction although every embedded
                # stream's plaintext is in the container: C06 holds on this file
                drift.append("%s [%s]" % (v["why"][:200], json.dumps(r.get("desc"))[:200]))
    if drift:
        c.cov.setdefault("scan_prediction_differs", []).extend(drift[:5])
        if len(drift) >= 3:
            # systematic: the model is out of date
            c.defer_tool_error("the scanner's chunk list differs from the one Scan.tla predicts on %d files while every plaintext "
                               "is carried verbatim (first: %s); the specification needs attention" % (len(drift), drift[0]))
        else:
            # isolated: bytes of one segment completing a candidate of another by accident (junk is random)
            c.note("chunk list differs from the model's on %d of %d files (property holds on them): %s" % (len(drift), n, drift[0][:200]))
    c.cov["evaluations"] += n
    c.cov["distinct_nontrivial"] += len(nontrivial)
    c.cov.setdefault("cases", {})[what] = n


def validate_container_traces(c, pid, wd, trace):
    cases = {r["run"]: r for r in read_ndjson(trace + ".cases")}
    acc, rej, states = validate_runs("Trace_Container", wd, trace, invariants=["Tiling"], timeout=3000)
    c.cov["traces_validated_against_impl"] += acc
    c.cov["states"] += states
    c.cov["transitions"] += states
    outcome = {}
    run = None
    for ev in read_ndjson(trace):
        if ev["e"] == "Reset":
            run = ev.get("run")
            outcome[run] = None
        elif ev["e"] in ("ExpandErr", "Panic"):
            outcome[run] = False
        elif ev["e"] == "Recreate":
            outcome[run] = ev.get("result") == "ok" and bool(ev.get("equal"))
    for x in rej:
        case = cases.get(x["run"], {})
        if pid == "C01" and outcome.get(x["run"]) is True:
            # the round trip of this file is exact; what Trace_Container objects to is the shape of the
            # container (headers, thresholds, alternation): format drift, not a violation of C01
            c.defer_tool_error("Trace_Container rejects run %s at %s although expand / recreate round-trips the file: "
                               "the container no longer has the shape Chunks.tla describes; the specification needs "
                               "attention" % (x["run"], json.dumps(x["event"])[:200]))
            continue
        c.violation("trace:" + str(x["event"].get("e")),
                    "container trace rejected by Trace_Container at %s (run %s, %s)" % (
                        json.dumps(x["event"])[:200], x["run"], json.dumps(case.get("desc"))[:200]),
                    {"kind": "file-hex", "hex": case.get("hex"), "desc": case.get("desc"), "event": x["event"]})


def replay_hex(c, pid, path):
    case = json.load(open(path))
    hx = case.get("hex")
    if not hx:
        raise ToolError("replay file has no input bytes")
    tmp = os.path.join(workdir(pid.lower() + "_replay"), "out.json")
    rc, out, _ = run([VH, "container-replay-hex", "--hex", hx], 600)
    line = [l for l in out.splitlines() if l.startswith('{"')][-1]
    r = json.loads(line)
    c.cov["evaluations"] = 1
    for v in r["viol"]:
        if v["prop"] == pid:
            c.violation(v["sig"], v["why"], {"kind": "file-hex", "hex": hx})
    return c.finish(rule="replay of one saved case")
