"""C11 - zstd wrappers round-trip; capacity and framing problems are errors."""
from container_common import *


def run_check(tier, seed, replay=None):
    c = Check("C11", tier, seed)
    build_harness()
    wd = workdir("c11")
    q = tier == "quick"
    r = mc("MC_Zstd", wd, constants={"MaxSize": 4 if q else 12}, invariants=["Meets"], must_cover=["Call"])
    c.add_model(r, "frame classes x capacities around the expanded size")
    tr = os.path.join(wd, "zstd.trace")
    run_quiet(["zstd-record", "--seed", int(replay_seed(replay, seed)), "--files", 14 if q else 150, "--out", tr,
               "--maxlen", 30000 if q else 200000, "--noise", 1])
    resets = [x for x in read_ndjson(tr) if x["e"] == "Reset"]
    acc, rej, states = validate_runs("Trace_Zstd", wd, tr, timeout=3000)
    c.cov["traces_validated_against_impl"] += acc
    c.cov["states"] += states
    c.cov["transitions"] += states
    nd = sum(1 for x in read_ndjson(tr) if x["e"] == "Decompress")
    c.cov["evaluations"] += nd
    c.cov["distinct_nontrivial"] = len({(x["flen"], x["size"]) for x in resets if x["flen"] > 0}) * 2
    for x in rej:
        rs = x["reset"]
        ev = x["event"]
        c.violation("zstd:%s:%s:%s" % (ev.get("e"), ev.get("frame"), ev.get("result")),
                    "decompress_zstd outcome rejected by Trace_Zstd: %s (file of %s bytes, expanded size %s)" % (
                        json.dumps(ev), rs.get("flen"), rs.get("size")),
                    {"kind": "zstd", "seed": seed, "reset": rs, "event": ev})
    for x in resets[:3]:
        c.sample({"file_len": x["flen"], "expanded_size": x["size"], "segs": x["segs"]})
    return c.finish(rule="evaluations = calls of decompress_zstd: compress_zstd(F) with capacities 0, 1, size/2, "
                         "size-1, size, size+1, size+1000, 128 MiB where size = len(expand_zlib_chunks(F)) measured "
                         "per file, and 8 classes of input that is not the frame; verdicts demanded by Zstd.tla; "
                         "non-trivial = distinct files x {capacity boundary, framing}")


def replay_seed(replay, seed):
    if replay:
        return json.load(open(replay)).get("seed", seed)
    return seed
