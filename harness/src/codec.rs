// C10: the correction codec. Replays model-generated operation sequences into
// the real codec, and records traces of the real codec for validation by TLC.

use crate::util::*;
use preflate_rs::verif::{cabac_roundtrip, context_names, Bin, Op};
use serde_json::{json, Value};
use std::collections::HashMap;
use std::io::{BufRead, Write};

pub fn op_from_json(v: &Value, mis_names: &[String], corr_names: &[String]) -> Op {
    let k = v["k"].as_str().unwrap();
    let c = v["c"].as_u64().unwrap() as u8;
    let val = v["v"].as_u64().unwrap();
    match k {
        "V" => Op::Value {
            v: val as u16,
            bits: v["n"].as_u64().unwrap() as u8,
        },
        "M" => Op::Mis {
            ctx: c,
            name: mis_names.get(c as usize).cloned().unwrap_or_default(),
            v: val != 0,
        },
        "C" => Op::Corr {
            ctx: c,
            name: corr_names.get(c as usize).cloned().unwrap_or_default(),
            v: val as u32,
        },
        _ => panic!("bad op kind"),
    }
}

pub fn op_to_json(op: &Op) -> Value {
    match op {
        Op::Value { v, bits } => json!({"k":"V","c":0,"v":v,"n":bits}),
        Op::Mis { ctx, v, .. } => json!({"k":"M","c":ctx,"v":*v as u32,"n":0}),
        Op::Corr { ctx, v, .. } => json!({"k":"C","c":ctx,"v":v,"n":0}),
        Op::State { msg, v } => json!({"k":"S","c":0,"v":v,"n":0,"msg":msg}),
    }
}

fn bins_json(b: &[Bin]) -> Value {
    Value::Array(
        b.iter()
            .map(|x| json!([x.ctx + 1, x.bit as u32]))
            .collect(),
    )
}

/// spec bins [[arr,k,idx,bit]..] -> (first-use id (0 bypass), bit)
fn rename_spec_bins(b: &Value) -> Vec<(i32, bool)> {
    let mut names: HashMap<String, i32> = HashMap::new();
    b.as_array()
        .unwrap()
        .iter()
        .map(|x| {
            let arr = x[0].as_str().unwrap();
            let bit = x[3].as_u64().unwrap() != 0;
            if arr == "byp" {
                (-1, bit)
            } else {
                let key = format!("{}:{}:{}", arr, x[1], x[2]);
                let n = names.len() as i32;
                (*names.entry(key).or_insert(n), bit)
            }
        })
        .collect()
}

/// spec -> impl: every generated sequence must decode to itself and the real
/// coder must have been given exactly the bins the spec computes
pub fn replay(args: &Args) -> i32 {
    quiet_panics();
    let (mis, corr) = context_names();
    let f = std::fs::File::open(args.req("in")).unwrap();
    let mut out = std::fs::File::create(args.req("out")).unwrap();
    let mut n = 0u64;
    let mut bad = 0u64;
    let mut nontrivial = std::collections::HashSet::new();
    let mut sample: Option<Value> = None;
    for (lineno, line) in std::io::BufReader::new(f).lines().enumerate() {
        let line = line.unwrap();
        if line.trim().is_empty() {
            continue;
        }
        let case: Value = serde_json::from_str(&line).unwrap();
        // either the operations one by one (with the bins the specification computed), or in
        // run-length form [[op, count], ...] without bins (long runs: the oracle is losslessness)
        let ops: Vec<Op> = if let Some(rle) = case.get("rle").and_then(|x| x.as_array()) {
            let mut v = Vec::new();
            for it in rle {
                let o = op_from_json(&it[0], &mis, &corr);
                for _ in 0..it[1].as_u64().unwrap_or(1) { v.push(o.clone()); }
            }
            v
        } else {
            case["ops"].as_array().unwrap().iter().map(|o| op_from_json(o, &mis, &corr)).collect()
        };
        let with_bins = case.get("bins").is_some();
        n += 1;
        let expect = if with_bins { rename_spec_bins(&case["bins"]) } else { Vec::new() };
        let r = guarded(|| cabac_roundtrip(&ops));
        let verdict = match &r {
            Err(p) => Some(format!("panic: {}", p)),
            Ok(None) => Some("unknown context".to_string()),
            Ok(Some(t)) => {
                let eb: Vec<(i32, bool)> = t.enc_bins.iter().map(|b| (b.ctx, b.bit)).collect();
                let db: Vec<(i32, bool)> = t.dec_bins.iter().map(|b| (b.ctx, b.bit)).collect();
                if t.decoded != ops {
                    Some("decoded operations differ from encoded operations".to_string())
                } else if with_bins && eb != expect {
                    Some("encoder bins differ from the specification".to_string())
                } else if with_bins && db != expect {
                    Some("decoder bins differ from the specification".to_string())
                } else {
                    None
                }
            }
        };
        if ops.iter().any(|o| match o {
            Op::Corr { v, .. } => *v != 0,
            Op::Mis { v, .. } => *v,
            _ => false,
        }) {
            nontrivial.insert(fnv(line.as_bytes()));
        }
        if sample.is_none() && ops.len() >= 2 && with_bins {
            sample = Some(case["ops"].clone());
        }
        if let Some(why) = verdict {
            bad += 1;
            let observed = match &r {
                Ok(Some(t)) if t.decoded.len() > 5000 => json!({"decoded_len": t.decoded.len(), "encoded_len": ops.len(),
                    "first_difference": t.decoded.iter().zip(ops.iter()).position(|(a, b)| a != b)}),
                Ok(Some(t)) => json!({
                    "decoded": t.decoded.iter().map(op_to_json).collect::<Vec<_>>(),
                    "enc_bins": bins_json(&t.enc_bins),
                    "dec_bins": bins_json(&t.dec_bins)}),
                _ => Value::Null,
            };
            writeln!(
                out,
                "{}",
                json!({"kind":"violation","line":lineno+1,"why":why,"case":case,"observed":observed})
            )
            .unwrap();
        }
    }
    writeln!(
        out,
        "{}",
        json!({"kind":"summary","cases":n,"violations":bad,"distinct_nontrivial":nontrivial.len(),"sample":sample})
    )
    .unwrap();
    0
}

fn random_ops(rng: &mut Rng, n: usize) -> Vec<Op> {
    let (mis, corr) = context_names();
    let mut ops = Vec::with_capacity(n);
    let style = rng.below(4);
    while ops.len() < n {
        let r = rng.below(100);
        let p_default = match style {
            0 => 90, // long default runs
            1 => 50,
            2 => 10,
            _ => 70,
        };
        if r < 8 {
            let bits = rng.range(1, 16) as u8;
            let v = match rng.below(4) {
                0 => 0,
                1 => ((1u32 << bits) - 1) as u16,
                _ => (rng.next() as u32 & ((1u32 << bits) - 1)) as u16,
            };
            ops.push(Op::Value { v, bits });
        } else if r < 40 {
            let c = rng.below(mis.len() as u64) as u8;
            ops.push(Op::Mis {
                ctx: c,
                name: mis[c as usize].clone(),
                v: !rng.chance(p_default, 100),
            });
        } else {
            let c = rng.below(corr.len() as u64) as u8;
            let v = if rng.chance(p_default, 100) {
                0
            } else {
                let bl = rng.range(1, 31);
                let hi = 1u64 << (bl - 1);
                match rng.below(4) {
                    0 => hi as u32,
                    1 => ((hi << 1) - 1) as u32,
                    _ => (hi | (rng.next() & (hi - 1))) as u32,
                }
            };
            ops.push(Op::Corr {
                ctx: c,
                name: corr[c as usize].clone(),
                v,
            });
        }
    }
    ops
}

/// writes the trace of one codec round trip; returns false if the real codec
/// panicked (the trace then ends in a Panic event)
pub fn write_run(out: &mut impl Write, run: usize, label: &str, ops: &[Op]) -> bool {
    let ops: Vec<Op> = ops
        .iter()
        .filter(|o| !matches!(o, Op::State { .. }))
        .cloned()
        .collect();
    let r = guarded(|| cabac_roundtrip(&ops));
    match r {
        Ok(Some(t)) => {
            writeln!(
                out,
                "{}",
                event("Reset", json!({"run":run,"label":label,"n":ops.len(),
                       "ebins":bins_json(&t.enc_bins),"dbins":bins_json(&t.dec_bins)}))
            )
            .unwrap();
            for (i, op) in ops.iter().enumerate() {
                let mut j = op_to_json(op);
                j["end"] = json!(t.enc_ends[i]);
                writeln!(out, "{}", event("E", j)).unwrap();
            }
            writeln!(out, "{}", event("F", json!({"end":t.enc_ends[ops.len()]}))).unwrap();
            for (i, op) in t.decoded.iter().enumerate() {
                let mut j = op_to_json(op);
                j["end"] = json!(t.dec_ends[i]);
                writeln!(out, "{}", event("D", j)).unwrap();
            }
            writeln!(out, "{}", event("Done", json!({}))).unwrap();
            true
        }
        Ok(None) => {
            writeln!(out, "{}", event("Reset", json!({"run":run,"label":label,"n":ops.len(),"ebins":[],"dbins":[]}))).unwrap();
            writeln!(out, "{}", event("UnknownContext", json!({}))).unwrap();
            false
        }
        Err(p) => {
            writeln!(out, "{}", event("Reset", json!({"run":run,"label":label,"n":ops.len(),"ebins":[],"dbins":[]}))).unwrap();
            writeln!(out, "{}", event("Panic", json!({"msg":p}))).unwrap();
            false
        }
    }
}

/// impl -> spec: random operation sequences through the real codec
pub fn record(args: &Args) -> i32 {
    quiet_panics();
    let seed = args.num("seed", 1);
    let runs = args.num("runs", 10) as usize;
    let maxops = args.num("maxops", 300) as usize;
    let mut rng = Rng::new(seed);
    let mut out = std::io::BufWriter::new(std::fs::File::create(args.req("out")).unwrap());
    let mut cases = std::io::BufWriter::new(
        std::fs::File::create(format!("{}.cases", args.req("out"))).unwrap(),
    );
    for run in 0..runs {
        let n = if run == 0 { maxops } else { rng.range(1, maxops as u64) as usize };
        let ops = random_ops(&mut rng, n);
        writeln!(
            cases,
            "{}",
            json!({"run":run,"ops":ops.iter().map(op_to_json).collect::<Vec<_>>()})
        )
        .unwrap();
        write_run(&mut out, run, "random", &ops);
    }
    0
}

/// replays one saved case (replay file) and reports whether it still fails
pub fn replay_one(case: &Value) -> Option<String> {
    let (mis, corr) = context_names();
    let ops: Vec<Op> = case["ops"]
        .as_array()
        .unwrap()
        .iter()
        .map(|o| op_from_json(o, &mis, &corr))
        .collect();
    match guarded(|| cabac_roundtrip(&ops)) {
        Err(p) => Some(format!("panic: {}", p)),
        Ok(None) => Some("unknown context".into()),
        Ok(Some(t)) => {
            if t.decoded != ops {
                Some("decoded operations differ".into())
            } else if let Some(b) = case.get("bins") {
                let expect = rename_spec_bins(b);
                let eb: Vec<(i32, bool)> = t.enc_bins.iter().map(|b| (b.ctx, b.bit)).collect();
                let db: Vec<(i32, bool)> = t.dec_bins.iter().map(|b| (b.ctx, b.bit)).collect();
                if eb != expect || db != expect {
                    Some("bins differ from the specification".into())
                } else {
                    None
                }
            } else {
                None
            }
        }
    }
}

/// impl -> spec: the operation streams that real analyses produce
pub fn record_streams(args: &Args) -> i32 {
    quiet_panics();
    let seed = args.num("seed", 1);
    let runs = args.num("runs", 2) as usize;
    let maxlen = args.num("maxlen", 20000) as usize;
    let mut rng = Rng::new(seed ^ 0x5151);
    let mut out = std::io::BufWriter::new(std::fs::File::create(args.req("out")).unwrap());
    let mut cases = std::io::BufWriter::new(
        std::fs::File::create(format!("{}.cases", args.req("out"))).unwrap(),
    );
    let mut run = 0;
    let mut attempts = 0;
    while run < runs && attempts < runs * 20 {
        attempts += 1;
        let (pname, plain) = crate::gen::plaintext(&mut rng, maxlen);
        let (cname, stream) = crate::gen::compress_random(&mut rng, &plain);
        let t = match guarded(|| preflate_rs::verif::analyse_trace(&stream)) {
            Ok(t) => t,
            Err(_) => continue,
        };
        if t.error.is_some() || t.ops.len() < 20 {
            continue;
        }
        let label = format!("{}/{}", pname, cname);
        writeln!(
            cases,
            "{}",
            json!({"run":run,"label":label,"ops":t.ops.iter().filter(|o| !matches!(o, Op::State{..})).map(op_to_json).collect::<Vec<_>>()})
        )
        .unwrap();
        write_run(&mut out, run, &label, &t.ops);
        run += 1;
    }
    0
}

pub fn record_case(args: &Args) -> i32 {
    quiet_panics();
    let (mis, corr) = context_names();
    let f = std::fs::File::open(args.req("in")).unwrap();
    let mut out = std::io::BufWriter::new(std::fs::File::create(args.req("out")).unwrap());
    for (i, line) in std::io::BufReader::new(f).lines().enumerate() {
        let case: Value = serde_json::from_str(&line.unwrap()).unwrap();
        let ops: Vec<Op> = case["ops"].as_array().unwrap().iter().map(|o| op_from_json(o, &mis, &corr)).collect();
        write_run(&mut out, i, "replay", &ops);
    }
    0
}
