// Drivers: plaintext generators, the four real compressors, zlib's inflate as
// the independent decoder used to validate the model, wrappers, mutators.

use crate::util::Rng;
use std::mem;

// ---------------------------------------------------------------- plaintexts

pub fn plaintext(rng: &mut Rng, max_len: usize) -> (String, Vec<u8>) {
    if rng.chance(1, 8) {
        let mut v = degenerate_plaintext(rng);
        v.truncate(max_len);
        return ("degenerate".to_string(), v);
    }
    let kind = rng.below(9);
    let len = match rng.below(6) {
        0 => rng.below(16) as usize,
        1 => rng.range(16, 300) as usize,
        2 | 3 => rng.range(300, 5000) as usize,
        4 => rng.range(5000, 40000) as usize,
        _ => rng.range(40000, 300000) as usize,
    }
    .min(max_len);
    let mut v = Vec::with_capacity(len);
    let name;
    match kind {
        0 => {
            name = "text";
            let words: Vec<Vec<u8>> = (0..rng.range(5, 200))
                .map(|_| {
                    (0..rng.range(1, 9))
                        .map(|_| b'a' + rng.below(26) as u8)
                        .collect()
                })
                .collect();
            while v.len() < len {
                let w: &Vec<u8> = rng.pick(&words[..]); v.extend_from_slice(w);
                v.push(if rng.chance(1, 12) { b'\n' } else { b' ' });
            }
        }
        1 => {
            name = "tiny-alphabet";
            let k = rng.range(1, 4);
            while v.len() < len {
                v.push(b'x' + rng.below(k) as u8);
            }
        }
        2 => {
            name = "runs";
            while v.len() < len {
                let b = rng.below(256) as u8;
                for _ in 0..rng.range(1, 600) {
                    v.push(b);
                }
            }
        }
        3 => {
            name = "periodic";
            let period = *rng.pick(&[1usize, 2, 3, 4, 5, 7, 31, 258, 259, 1000, 4093, 32768, 40000]);
            let base: Vec<u8> = (0..period).map(|_| rng.below(256) as u8).collect();
            while v.len() < len {
                v.push(base[v.len() % period]);
            }
        }
        4 => {
            name = "random";
            while v.len() < len {
                v.push(rng.below(256) as u8);
            }
        }
        5 => {
            name = "mixture";
            while v.len() < len {
                let seg = rng.range(1, 3000) as usize;
                match rng.below(3) {
                    0 => {
                        for _ in 0..seg {
                            v.push(rng.below(256) as u8)
                        }
                    }
                    1 => {
                        let b = rng.below(256) as u8;
                        for _ in 0..seg {
                            v.push(b)
                        }
                    }
                    _ => {
                        if v.is_empty() {
                            v.push(0);
                        }
                        let d = rng.range(1, v.len().min(32768) as u64) as usize;
                        for _ in 0..seg {
                            v.push(v[v.len() - d]);
                        }
                    }
                }
            }
        }
        6 => {
            name = "binary-records";
            let mut counter = 0u32;
            while v.len() < len {
                v.extend_from_slice(&counter.to_le_bytes());
                v.extend_from_slice(&[0, 0, 0xff, (counter % 7) as u8]);
                counter += rng.range(1, 3) as u32;
            }
        }
        7 => {
            name = "long-match";
            // long repeated stretches so that matches of 256..258 are common
            let base: Vec<u8> = (0..rng.range(260, 2000))
                .map(|_| rng.below(256) as u8)
                .collect();
            while v.len() < len {
                let s = rng.below((base.len() - 259) as u64) as usize;
                let l = rng.range(250, 259) as usize;
                v.extend_from_slice(&base[s..s + l]);
                v.push(rng.below(256) as u8);
            }
        }
        _ => {
            name = "sparse-text";
            while v.len() < len {
                if rng.chance(1, 10) {
                    v.push(rng.below(256) as u8)
                } else {
                    v.push(b"etaoin shrdlu"[rng.below(13) as usize])
                }
            }
        }
    }
    v.truncate(len);
    (name.to_string(), v)
}

// --------------------------------------------------------------- compressors

/// raw DEFLATE via zlib's deflateInit2 (negative windowBits)
pub fn zlib_raw(input: &[u8], level: i32, strategy: i32, window_bits: i32, mem_level: i32) -> Vec<u8> {
    use libz_sys::*;
    unsafe {
        let mut zs: z_stream = zinit::z();
        zs.next_in = input.as_ptr() as *mut _;
        zs.avail_in = input.len() as u32;
        let r = deflateInit2_(
            &mut zs,
            level,
            Z_DEFLATED,
            -window_bits,
            mem_level,
            strategy,
            zlibVersion(),
            mem::size_of::<z_stream>() as i32,
        );
        assert_eq!(r, Z_OK, "deflateInit2 {} {} {} {}", level, strategy, window_bits, mem_level);
        let mut out = vec![0u8; input.len() + input.len() / 8 + 1000];
        zs.next_out = out.as_mut_ptr();
        zs.avail_out = out.len() as u32;
        assert_eq!(Z_STREAM_END, deflate(&mut zs, Z_FINISH));
        out.truncate(zs.total_out as usize);
        deflateEnd(&mut zs);
        out
    }
}

// libz-sys' z_stream has non-nullable allocator pointers; give it real ones
mod zinit {
    use std::ffi::c_void;
    use std::ptr;
    extern "C" {
        fn calloc(n: usize, s: usize) -> *mut c_void;
        fn free(p: *mut c_void);
    }
    unsafe extern "C" fn zalloc(_: *mut c_void, items: u32, size: u32) -> *mut c_void {
        calloc(items as usize, size as usize)
    }
    unsafe extern "C" fn zfree(_: *mut c_void, p: *mut c_void) {
        free(p)
    }
    pub unsafe fn z() -> libz_sys::z_stream {
        libz_sys::z_stream {
            next_in: ptr::null_mut(),
            avail_in: 0,
            next_out: ptr::null_mut(),
            avail_out: 0,
            total_in: 0,
            total_out: 0,
            msg: ptr::null_mut(),
            state: ptr::null_mut(),
            zalloc,
            zfree,
            opaque: ptr::null_mut(),
            data_type: 0,
            adler: 0,
            reserved: 0,
        }
    }
    pub unsafe fn zng() -> libz_ng_sys::z_stream {
        libz_ng_sys::z_stream {
            next_in: ptr::null_mut(),
            avail_in: 0,
            next_out: ptr::null_mut(),
            avail_out: 0,
            total_in: 0,
            total_out: 0,
            msg: ptr::null_mut(),
            state: ptr::null_mut(),
            zalloc,
            zfree,
            opaque: ptr::null_mut(),
            data_type: 0,
            adler: 0,
            reserved: 0,
        }
    }
}

pub fn zlibng_raw(input: &[u8], level: i32) -> Vec<u8> {
    use libz_ng_sys::*;
    unsafe {
        let mut zs = zinit::zng();
        zs.next_in = input.as_ptr() as *mut _;
        zs.avail_in = input.len() as u32;
        let r = deflateInit2_(
            &mut zs,
            level,
            Z_DEFLATED,
            -15,
            8,
            Z_DEFAULT_STRATEGY,
            zlibVersion(),
            std::mem::size_of::<z_stream>() as i32,
        );
        assert_eq!(r, Z_OK);
        let mut out = vec![0u8; input.len() + input.len() / 8 + 1000];
        zs.next_out = out.as_mut_ptr();
        zs.avail_out = out.len() as u32;
        assert_eq!(Z_STREAM_END, deflate(&mut zs, Z_FINISH));
        out.truncate(zs.total_out as usize);
        deflateEnd(&mut zs);
        out
    }
}

pub fn libdeflate_raw(input: &[u8], level: i32) -> Vec<u8> {
    use libdeflate_sys::*;
    unsafe {
        let mut out = vec![0u8; input.len() + input.len() / 8 + 1000];
        let c = libdeflate_alloc_compressor(level);
        let sz = libdeflate_deflate_compress(
            c,
            input.as_ptr() as *const core::ffi::c_void,
            input.len(),
            out.as_mut_ptr() as *mut core::ffi::c_void,
            out.len(),
        );
        libdeflate_free_compressor(c);
        assert_ne!(sz, 0);
        out.truncate(sz);
        out
    }
}

pub fn miniz_raw(input: &[u8], level: u8) -> Vec<u8> {
    miniz_oxide::deflate::compress_to_vec(input, level)
}


/// A compressor nobody wrote: any valid LZ77 parse of the input (an earlier occurrence that is
/// not the nearest, a match cut short, a literal where a match existed, more or less often
/// according to `sloppiness` in 0..=8), written with the fixed Huffman code in one or several
/// blocks.  The predictor mispredicts such streams in every way there is (wrong token kind,
/// wrong length, a distance several hops down the chain), which the tuned compressors hardly
/// ever make it do.
pub fn sloppy_raw(rng: &mut Rng, input: &[u8], sloppiness: u64) -> Vec<u8> {
    let mut occ: std::collections::HashMap<[u8; 3], Vec<usize>> = std::collections::HashMap::new();
    let n = input.len();
    // the parse: (length, distance), distance 0 for a literal
    let mut toks: Vec<(usize, usize)> = Vec::new();
    let mut pos = 0usize;
    let lazy = if rng.chance(1, 2) { rng.range(1, 8) } else { 0 };
    while pos < n {
        let mut t = (1usize, 0usize);
        if pos + 3 <= n && !rng.chance(sloppiness, 24) {
            if let Some(v) = occ.get(&[input[pos], input[pos + 1], input[pos + 2]]) {
                let cands: Vec<usize> = v.iter().rev().cloned().filter(|q| pos - q <= 32768).take(8).collect();
                if !cands.is_empty() {
                    let k = if rng.chance(sloppiness, 12) { rng.below(cands.len() as u64) as usize } else { 0 };
                    let q = cands[k];
                    let mut l = 0usize;
                    while l < 258 && pos + l < n && input[q + l] == input[pos + l] { l += 1; }
                    if l > 3 && rng.chance(sloppiness, 16) { l = rng.range(3, l as u64) as usize; }
                    t = (l, pos - q);
                    // now and then the lazy rule: a literal if the next position matches longer
                    if lazy > 0 && pos + 4 <= n && rng.chance(lazy, 8) {
                        if let Some(w) = occ.get(&[input[pos + 1], input[pos + 2], input[pos + 3]]) {
                            if let Some(&q1) = w.iter().rev().find(|&&q1| pos + 1 - q1 <= 32768) {
                                let mut l1 = 0usize;
                                while l1 < 258 && pos + 1 + l1 < n && input[q1 + l1] == input[pos + 1 + l1] { l1 += 1; }
                                if l1 > l { t = (1, 0); }
                            }
                        }
                    }
                }
            }
        }
        for q in pos..pos + t.0 {
            if q + 3 <= n { occ.entry([input[q], input[q + 1], input[q + 2]]).or_default().push(q); }
        }
        pos += t.0;
        toks.push(t);
    }
    let block_len = if rng.chance(1, 2) { usize::MAX } else { rng.range(20, 2000) as usize };
    encode_fixed(input, &toks, block_len)
}

/// References at the very edge of the window, written by hand (no compressor goes there): a
/// marker occurs three times in literals over a 64-letter alphabet; the third occurrence is a
/// reference to the first one, at distance exactly `w` (or w - 1), with the second occurrence as
/// a nearer candidate of the same length (the distance then has to be stored as a hop count and
/// found again on the way back) or without it.
pub fn window_edge_streams(rng: &mut Rng) -> Vec<(String, Vec<u8>)> {
    let mut v = Vec::new();
    for w in [32768usize, 32767, 512, 511] {
        for nearer in [true, false] {
            let mlen = 12usize;
            let a = 100 + rng.below(50) as usize;
            let c = a + w;
            let mut text: Vec<u8> = (0..c + mlen + 40).map(|_| b'0' + rng.below(64) as u8).collect();
            let marker: Vec<u8> = (0..mlen).map(|i| b'A' + ((i * 7 + w) % 26) as u8 + if i % 2 == 0 { 32 } else { 0 }).collect();
            text[a..a + mlen].copy_from_slice(&marker);
            if nearer { let b = c - 200; text[b..b + mlen].copy_from_slice(&marker); }
            text[c..c + mlen].copy_from_slice(&marker);
            text[a - 1] = b'#'; text[c - 1] = b'%'; text[a + mlen] = b'!'; text[c + mlen] = b'?';
            let mut toks: Vec<(usize, usize)> = (0..c).map(|_| (1, 0)).collect();
            toks.push((mlen, w));
            toks.extend((0..text.len() - c - mlen).map(|_| (1usize, 0usize)));
            let block = if rng.chance(1, 2) { usize::MAX } else { 20000 };
            v.push((format!("window-edge/d{}/{}", w, if nearer { "second-candidate" } else { "only-candidate" }), encode_fixed(&text, &toks, block)));
        }
    }
    // the other edge: a reference to the very first byte of the stream (distance = position)
    for nearer in [true, false] {
        let mlen = 8usize;
        let c = 300 + rng.below(200) as usize;
        let mut text: Vec<u8> = (0..c + mlen + 30).map(|_| b'0' + rng.below(64) as u8).collect();
        let marker = b"AbCdEfGh".to_vec();
        text[0..mlen].copy_from_slice(&marker);
        if nearer { text[48..48 + mlen].copy_from_slice(&marker); }
        text[c..c + mlen].copy_from_slice(&marker);
        text[mlen] = b'!'; text[c - 1] = b'%'; text[c + mlen] = b'?';
        let mut toks: Vec<(usize, usize)> = (0..c).map(|_| (1, 0)).collect();
        toks.push((mlen, c));
        toks.extend((0..text.len() - c - mlen).map(|_| (1usize, 0usize)));
        v.push((format!("window-edge/to-start/{}", if nearer { "second-candidate" } else { "only-candidate" }), encode_fixed(&text, &toks, usize::MAX)));
    }
    v
}

/// References as far back as DEFLATE allows (32768, and 32700) right behind the positions at which the
/// hash tables are renormalised (Positions.tla: the first time at plaintext position 0xfe08 - 8, then
/// every 0x7e00 bytes): what a renormalisation drops must lie further back than that.  Written by hand
/// (literals over a 64-letter alphabet, one reference to a 12-byte marker).
pub fn reshift_edge_streams(rng: &mut Rng, all: bool) -> Vec<(String, Vec<u8>)> {
    let mut v = Vec::new();
    for k in 0..2usize {
        let p0 = 0xfe08 - 8 + k * 0x7e00;
        for (delta, dist) in [(1usize, 32768usize), (200, 32768), (0, 32700), (100, 32767)] {
            if !all && !(delta == 1 || delta == 200) { continue; }
            let c = p0 + delta;
            let mlen = 12usize;
            let mut text: Vec<u8> = (0..c + mlen + 40).map(|_| b'0' + rng.below(64) as u8).collect();
            let marker: Vec<u8> = (0..mlen).map(|i| b'A' + ((i * 5 + k + delta) % 26) as u8 + if i % 2 == 1 { 32 } else { 0 }).collect();
            let a = c - dist;
            text[a..a + mlen].copy_from_slice(&marker);
            text[c..c + mlen].copy_from_slice(&marker);
            text[a - 1] = b'#'; text[c - 1] = b'%'; text[a + mlen] = b'!'; text[c + mlen] = b'?';
            let mut toks: Vec<(usize, usize)> = (0..c).map(|_| (1, 0)).collect();
            toks.push((mlen, dist));
            toks.extend((0..text.len() - c - mlen).map(|_| (1usize, 0usize)));
            v.push((format!("reshift-edge/p{}+{}/d{}", p0, delta, dist), encode_fixed(&text, &toks, 30000)));
        }
    }
    v
}

/// The deepest chain walks the estimator accepts: a run of one byte written as literals, then a
/// 3-byte reference d bytes back - every position in between is a candidate on the same chain, so
/// the estimated chain budget is d (for d around 4096, the largest value it does not refuse)
pub fn deep_chain_streams() -> Vec<(String, Vec<u8>)> {
    let mut v = Vec::new();
    for d in [4094usize, 4095, 4096, 4097] {
        let n = 4200usize;
        let text = vec![b'a'; n + 3 + 5];
        let mut toks: Vec<(usize, usize)> = (0..n).map(|_| (1, 0)).collect();
        toks.push((3, d));
        toks.extend((0..5).map(|_| (1usize, 0usize)));
        v.push((format!("deep-chain/d{}", d), encode_fixed(&text, &toks, usize::MAX)));
    }
    v
}

/// Blocks with more tokens than fit 16 bits (and, once, 20 bits): literal-only fixed Huffman blocks
/// of 70000 tokens, twice in a row, 100 then 65636 (equal modulo 2^16), and one of 2^20 + 2^16 + 4
/// Blocks in which one symbol occurs more often than a 16-bit counter holds (the token frequency counters
/// of a block are u16): only libdeflate cuts blocks long enough (300 000 bytes of plaintext).
pub fn frequent_symbol_streams(rng: &mut Rng) -> Vec<(String, Vec<u8>)> {
    let mut v = Vec::new();
    // one literal more than 65535 times: 'X' followed by two scrambled bytes, so that no string of three bytes
    // repeats inside a window and the statistics stay the same over the whole input (libdeflate would
    // otherwise end the block early); libdeflate keeps at most 50000 references per block below level 10,
    // so a length or distance symbol cannot get there
    for (level, mult) in [(6, 0x9E37u32), (3, 0x6A09), (8, 0xBB67)] {
        let mut text = Vec::with_capacity(300000);
        let start = rng.below(60000) as u32;
        for i in 0..100000u32 {
            let c = (start + i).wrapping_mul(mult) & 0xffff;
            text.push(b'X'); text.push((c >> 8) as u8); text.push(c as u8);
        }
        v.push((format!("frequent/literal-100000-times/libdeflate:l{}", level), libdeflate_raw(&text, level)));
    }
    v
}

pub fn big_block_streams(rng: &mut Rng, with_million: bool) -> Vec<(String, Vec<u8>)> {
    let mut v = Vec::new();
    let mut shapes: Vec<(&str, Vec<usize>)> = vec![("70000", vec![70000]), ("70000+70000+3", vec![70000, 70000, 3]), ("100+65636+5", vec![100, 65636, 5])];
    if with_million { shapes.push(("2^20+2^16+4", vec![(1 << 20) + (1 << 16) + 4])); }
    // last blocks one token either side of the two values at which the estimated block size is capped:
    // 16386 for streams without references, 32767 otherwise
    for n in [16386usize, 16387, 16388] {
        let text: Vec<u8> = (0..n).map(|_| b'0' + rng.below(64) as u8).collect();
        let toks: Vec<(usize, usize)> = (0..n).map(|_| (1, 0)).collect();
        v.push((format!("big-blocks/{}-literals", n), encode_fixed(&text, &toks, usize::MAX)));
    }
    for n in [32767usize, 32768, 32769] {
        // n tokens, one of them a reference
        let mut text: Vec<u8> = (0..n + 4).map(|_| b'0' + rng.below(64) as u8).collect();
        let head: Vec<u8> = text[50..55].to_vec();
        text[100..105].copy_from_slice(&head);
        let mut toks: Vec<(usize, usize)> = (0..100).map(|_| (1, 0)).collect();
        toks.push((5, 50));
        toks.extend((0..n - 101).map(|_| (1usize, 0usize)));
        v.push((format!("big-blocks/{}-tokens-one-reference", n), encode_fixed(&text, &toks, usize::MAX)));
    }
    for (name, blocks) in shapes {
        let total: usize = blocks.iter().sum();
        let text: Vec<u8> = (0..total).map(|_| b'0' + rng.below(64) as u8).collect();
        // encode_fixed cuts every block_len tokens; unequal blocks are written one after the other
        let mut out_bits: Vec<u8> = Vec::new();
        if blocks.iter().all(|&b| b == blocks[0]) || blocks.len() == 1 {
            let toks: Vec<(usize, usize)> = (0..total).map(|_| (1, 0)).collect();
            out_bits = encode_fixed(&text, &toks, blocks[0]);
        } else {
            // general case: own bit writer over the pieces
            let mut acc: u64 = 0; let mut n: u32 = 0;
            let mut put = |out: &mut Vec<u8>, v: u32, k: u32| { acc |= (v as u64) << n; n += k; while n >= 8 { out.push(acc as u8); acc >>= 8; n -= 8; } };
            let rev = |c: u32, k: u32| { let mut r = 0; for i in 0..k { r |= ((c >> i) & 1) << (k - 1 - i); } r };
            let mut at = 0usize;
            for (bi, &b) in blocks.iter().enumerate() {
                put(&mut out_bits, if bi + 1 == blocks.len() { 1 } else { 0 }, 1);
                put(&mut out_bits, 1, 2);
                for _ in 0..b {
                    let sym = text[at] as u32; at += 1;
                    if sym <= 143 { put(&mut out_bits, rev(0x30 + sym, 8), 8); } else { put(&mut out_bits, rev(0x190 + sym - 144, 9), 9); }
                }
                put(&mut out_bits, 0, 7);
            }
            put(&mut out_bits, 0, 7);
        }
        v.push((format!("big-blocks/{}", name), out_bits));
    }
    v
}

/// writes a given LZ77 parse ((length, distance), distance 0 for a literal) of `input` with the
/// fixed Huffman code, `block_len` tokens per block
pub fn encode_fixed(input: &[u8], toks: &[(usize, usize)], block_len: usize) -> Vec<u8> {
    const LEN_BASE: [u16; 29] = [3, 4, 5, 6, 7, 8, 9, 10, 11, 13, 15, 17, 19, 23, 27, 31, 35, 43, 51, 59, 67, 83, 99, 115, 131, 163, 195, 227, 258];
    const LEN_EXTRA: [u8; 29] = [0, 0, 0, 0, 0, 0, 0, 0, 1, 1, 1, 1, 2, 2, 2, 2, 3, 3, 3, 3, 4, 4, 4, 4, 5, 5, 5, 5, 0];
    const DIST_BASE: [u16; 30] = [1, 2, 3, 4, 5, 7, 9, 13, 17, 25, 33, 49, 65, 97, 129, 193, 257, 385, 513, 769, 1025, 1537, 2049, 3073, 4097, 6145, 8193, 12289, 16385, 24577];
    const DIST_EXTRA: [u8; 30] = [0, 0, 0, 0, 1, 1, 2, 2, 3, 3, 4, 4, 5, 5, 6, 6, 7, 7, 8, 8, 9, 9, 10, 10, 11, 11, 12, 12, 13, 13];
    struct Bits { out: Vec<u8>, acc: u64, n: u32 }
    impl Bits {
        fn put(&mut self, v: u32, n: u32) { self.acc |= (v as u64) << self.n; self.n += n; while self.n >= 8 { self.out.push(self.acc as u8); self.acc >>= 8; self.n -= 8; } }
        fn code(&mut self, c: u32, n: u32) { let mut r = 0; for i in 0..n { r |= ((c >> i) & 1) << (n - 1 - i); } self.put(r, n); }
        fn lit(&mut self, sym: u32) {
            match sym { 0..=143 => self.code(0x30 + sym, 8), 144..=255 => self.code(0x190 + sym - 144, 9), 256..=279 => self.code(sym - 256, 7), _ => self.code(0xC0 + sym - 280, 8) }
        }
    }
    let mut b = Bits { out: Vec::new(), acc: 0, n: 0 };
    let chunks: Vec<&[(usize, usize)]> = if toks.is_empty() { vec![&toks[..]] } else { toks.chunks(block_len.min(toks.len())).collect() };
    let mut at = 0usize;
    for (ci, ch) in chunks.iter().enumerate() {
        b.put(if ci + 1 == chunks.len() { 1 } else { 0 }, 1);
        b.put(1, 2);
        for &(l, d) in ch.iter() {
            if d == 0 {
                b.lit(input[at] as u32);
            } else {
                let li = if l == 258 { 28 } else { (0..28).rev().find(|&i| LEN_BASE[i] as usize <= l).unwrap() };
                b.lit(257 + li as u32);
                b.put((l - LEN_BASE[li] as usize) as u32, LEN_EXTRA[li] as u32);
                let di = (0..30).rev().find(|&i| DIST_BASE[i] as usize <= d).unwrap();
                b.code(di as u32, 5);
                b.put((d - DIST_BASE[di] as usize) as u32, DIST_EXTRA[di] as u32);
            }
            at += l;
        }
        b.lit(256);
    }
    if b.n > 0 { b.put(0, 8 - b.n); }
    b.out
}

/// a compressor configuration, chosen at random over the whole space the
/// properties name
pub fn compress_random(rng: &mut Rng, input: &[u8]) -> (String, Vec<u8>) {
    match rng.below(10) {
        0..=4 => {
            let level = rng.range(0, 9) as i32;
            let strategy = rng.below(5) as i32; // default, filtered, huffman only, rle, fixed
            let wbits = if rng.chance(1, 2) { 15 } else { rng.range(9, 15) as i32 };
            let mem = if rng.chance(1, 2) { 8 } else { rng.range(1, 9) as i32 };
            (
                format!("zlib:l{}:s{}:w{}:m{}", level, strategy, wbits, mem),
                zlib_raw(input, level, strategy, wbits, mem),
            )
        }
        5 | 6 => {
            let level = rng.range(1, 9) as i32;
            (format!("zlibng:l{}", level), zlibng_raw(input, level))
        }
        7 | 8 => {
            let level = rng.range(0, 12) as i32;
            (format!("libdeflate:l{}", level), libdeflate_raw(input, level))
        }
        _ => {
            let level = rng.range(0, 10) as u8;
            (format!("miniz:l{}", level), miniz_raw(input, level))
        }
    }
}

/// Boundary sweeps: the same plaintext cut at every length in a window, under
/// zlib levels that use lazy matching and small blocks.  Each cut moves the end
/// of input (and every block boundary) by one byte relative to the matches, so
/// that the decisions the predictor takes "near the end" and "at a block
/// boundary" are exercised systematically rather than by luck.
pub fn sweep_streams(rng: &mut Rng, bases: usize, window: usize) -> Vec<(String, Vec<u8>)> {
    let mut v = Vec::new();
    for b in 0..bases {
        // phrase-structured text: repeated phrases of different lengths with unique separators
        let nph = rng.range(6, 30) as usize;
        let phrases: Vec<Vec<u8>> = (0..nph)
            .map(|_| (0..rng.range(3, 14)).map(|_| b'a' + rng.below(20) as u8).collect())
            .collect();
        let mut text: Vec<u8> = Vec::new();
        // The estimator only concludes "every byte of a match is indexed" (and with it lazy
        // matching) from a reference into the interior of a maximal-length match: give it one.
        // R occurs twice (the second time as a 258 byte match), then a piece from its middle.
        let long: Vec<u8> = (0..rng.range(300, 420)).map(|_| b'a' + rng.below(26) as u8).collect();
        text.extend_from_slice(&long);
        text.extend_from_slice(b"#1#");
        text.extend_from_slice(&long);
        text.extend_from_slice(b"#2#");
        text.extend_from_slice(&long[40..40 + rng.range(20, 200) as usize]);
        text.extend_from_slice(b"#3#");
        text.extend_from_slice(&long[7..7 + rng.range(5, 30) as usize]);
        text.extend_from_slice(b"#4#");
        let target = text.len() + rng.range(300, 2500) as usize;
        let mut uniq = 0u32;
        while text.len() < target {
            let ph: &Vec<u8> = rng.pick(&phrases[..]);
            text.extend_from_slice(ph);
            match rng.below(4) {
                0 => {
                    uniq += 1;
                    text.extend_from_slice(format!("{}", uniq).as_bytes());
                }
                1 => text.push(b'A' + rng.below(26) as u8),
                _ => {}
            }
        }
        // an end game for lazy matching: the tail T (k bytes) has a match of exactly k-2
        // bytes at its first byte and a match of k-1 bytes, reaching the end of input, at
        // its second byte
        // the estimator derives max_lazy from the chain depth it saw, which is small for short
        // texts, so the shortest end game (a 3 byte match) is the one that is usually lazy
        let k = if rng.chance(2, 3) { 5 } else { rng.range(6, 20) as usize };
        let tail: Vec<u8> = (0..k).map(|_| b'A' + rng.below(26) as u8).collect();
        // (the short match must be close by: a 3 byte match far away is not predicted at all)
        let mut crafted = Vec::new();
        crafted.extend_from_slice(&text[..2 * text.len() / 3]);
        crafted.push(b'2');
        crafted.extend_from_slice(&tail[1..]);
        crafted.push(b'3');
        crafted.extend_from_slice(&text[2 * text.len() / 3..]);
        crafted.extend_from_slice(&tail[..k - 2]);
        crafted.push(b'1');
        for i in 0..rng.range(2, 12) {
            crafted.push(b'0' + ((i * 3 + b as u64) % 10) as u8);
        }
        crafted.extend_from_slice(&tail);
        let configs: [(i32, i32); 8] = [(4, 8), (5, 8), (6, 8), (9, 8), (5, 1), (6, 1), (8, 1), (3, 1)];
        let (level, mem) = configs[b % configs.len()];
        // a second end game: the last three bytes occur twice, far back (beyond the distance
        // at which a 3 byte match is still used), so that the match search at the very end
        // sees two unusable 3 byte candidates with exactly 3 bytes of input left
        let mut far3 = vec![1u8, 2, 3];
        far3.extend_from_slice(&text[..text.len().min(200)]);
        far3.extend_from_slice(&[1, 2, 3]);
        while far3.len() < 4800 + (b % 3) * 700 {
            far3.extend_from_slice(&text);
        }
        far3.extend_from_slice(&[1, 2, 3]);
        let text = if b % 2 == 0 { crafted } else if b % 4 == 1 { far3 } else { text };
        // move the end of input ...
        for cut in 0..window.min(text.len() - 4) {
            let p = &text[..text.len() - cut];
            v.push((format!("sweep{}/zlib:l{}:m{}/cut{}", b, level, mem, cut), zlib_raw(p, level, 0, 15, mem)));
            // ... under the other compressors as well (other hash functions, other end games)
            match (b + cut) % 6 {
                0 => v.push((format!("sweep{}/libdeflate:l{}/cut{}", b, 1 + (b % 9), cut), libdeflate_raw(p, 1 + (b % 9) as i32))),
                2 => v.push((format!("sweep{}/zlibng:l{}/cut{}", b, 1 + (b % 6), cut), zlibng_raw(p, 1 + (b % 6) as i32))),
                4 => v.push((format!("sweep{}/miniz:l{}/cut{}", b, 1 + (b % 9), cut), miniz_raw(p, 1 + (b % 9) as u8))),
                _ => {}
            }
        }
        // ... and the block boundaries (blocks close after a fixed number of tokens, so a
        // prefix of unique literals shifts every boundary against the matches)
        if mem == 1 {
            for pad in 1..window.min(160) {
                let mut p: Vec<u8> = (0..pad).map(|i| 0x80 + ((i * 7 + b) % 120) as u8).collect();
                p.extend_from_slice(&text);
                v.push((format!("sweep{}/zlib:l{}:m{}/pad{}", b, level, mem, pad), zlib_raw(&p, level, 0, 15, mem)));
            }
        }
    }
    // window boundaries: a phrase repeated at a distance of exactly the search limit of a small
    // window (2^w - 262) and one or two bytes to either side, compressed with that window
    for w in 9..=12i32 {
        if bases == 0 || (bases < 4 && w != 9 + (bases as i32 % 4)) {
            continue;
        }
        let limit = (1usize << w) - 262;
        for delta in [-2i64, -1, 0, 1, 2] {
            let d = (limit as i64 + delta) as usize;
            let phrase: Vec<u8> = (0..12).map(|i| b'A' + ((i * 5 + w as usize) % 26) as u8).collect();
            let mut text: Vec<u8> = Vec::new();
            // some nearer repeats first so that shorter distances are in use
            for k in 0..40 {
                text.extend_from_slice(format!("<{}>", k * 37 % 101).as_bytes());
            }
            let p0 = text.len();
            text.extend_from_slice(&phrase);
            let mut k = 0u32;
            while text.len() < p0 + d {
                text.push(b'a' + ((k * 7 + k / 26 * 3 + k / 676) % 26) as u8);
                k += 1;
            }
            text.truncate(p0 + d);
            text.extend_from_slice(&phrase);
            text.extend_from_slice(b"<end>");
            for level in [1, 6] {
                v.push((format!("window/zlib:l{}:w{}/d{}", level, w, d), zlib_raw(&text, level, 0, w, 8)));
            }
            // the same with a shorter, nearer copy of the phrase's beginning in between: the far
            // copy is then the second candidate on its chain, where the limit is one byte tighter
            let mut text2 = text[..p0 + d].to_vec();
            let near = text2.len() - 60;
            text2[near..near + 5].copy_from_slice(&phrase[..5]);
            text2[near + 5] = b'#';
            text2.extend_from_slice(&phrase);
            text2.extend_from_slice(b"<end>");
            for level in [1, 6] {
                v.push((format!("window2/zlib:l{}:w{}/d{}", level, w, d), zlib_raw(&text2, level, 0, w, 8)));
            }
        }
    }
    v
}

/// plaintexts whose matches all have the same small distance (one or two used
/// distance codes, tiny literal alphabets): degenerate Huffman trees
pub fn degenerate_plaintext(rng: &mut Rng) -> Vec<u8> {
    let period = rng.range(1, 6) as usize;
    let unit: Vec<u8> = (0..period).map(|i| b'x' + i as u8).collect();
    let mut v = Vec::new();
    let runs = rng.range(1, 60);
    for r in 0..runs {
        for i in 0..rng.range(period as u64 * 3, 400) as usize {
            v.push(unit[i % period]);
        }
        if rng.chance(2, 3) {
            // a separator that never repeats, so that no other distance occurs
            v.extend_from_slice(format!("<{}>", r * 7919 + 13).as_bytes());
        }
    }
    v
}

pub fn family(label: &str) -> &str {
    label.split(':').next().unwrap_or(label)
}

// ------------------------------------------------------- independent inflate

pub struct Inflated {
    pub ok: bool,
    pub plain: Vec<u8>,
    pub consumed: usize,
}

/// zlib's inflate, raw mode, 32 KiB window
pub fn zlib_inflate_raw(data: &[u8], max_out: usize) -> Inflated {
    use libz_sys::*;
    unsafe {
        let mut zs = zinit::z();
        let r = inflateInit2_(
            &mut zs,
            -15,
            zlibVersion(),
            std::mem::size_of::<z_stream>() as i32,
        );
        assert_eq!(r, Z_OK);
        zs.next_in = data.as_ptr() as *mut _;
        zs.avail_in = data.len() as u32;
        let mut out: Vec<u8> = Vec::new();
        let mut buf = vec![0u8; 1 << 16];
        let mut ok = false;
        loop {
            zs.next_out = buf.as_mut_ptr();
            zs.avail_out = buf.len() as u32;
            let r = inflate(&mut zs, Z_NO_FLUSH);
            let produced = buf.len() - zs.avail_out as usize;
            out.extend_from_slice(&buf[..produced]);
            if r == Z_STREAM_END {
                ok = true;
                break;
            }
            if r != Z_OK || out.len() > max_out {
                break;
            }
            if zs.avail_in == 0 && produced == 0 {
                break; // truncated input
            }
        }
        let consumed = zs.total_in as usize;
        inflateEnd(&mut zs);
        Inflated {
            ok,
            plain: out,
            consumed,
        }
    }
}

// ------------------------------------------------------------------ wrappers

pub fn adler32(data: &[u8]) -> u32 {
    let (mut a, mut b) = (1u32, 0u32);
    for x in data {
        a = (a + *x as u32) % 65521;
        b = (b + a) % 65521;
    }
    (b << 16) | a
}

pub const ZLIB_HEADERS: [[u8; 2]; 4] = [[0x78, 0x01], [0x78, 0x5e], [0x78, 0x9c], [0x78, 0xda]];

pub fn wrap_zlib(stream: &[u8], plain: &[u8], hdr: usize) -> Vec<u8> {
    let mut v = ZLIB_HEADERS[hdr % 4].to_vec();
    v.extend_from_slice(stream);
    v.extend_from_slice(&adler32(plain).to_be_bytes());
    v
}

/// gzip member; flags is a subset of FHCRC(2) FEXTRA(4) FNAME(8) FCOMMENT(16)
pub fn wrap_gzip(stream: &[u8], plain: &[u8], flags: u8, extra_len: usize, name_len: usize, comment_len: usize, rng: &mut Rng) -> Vec<u8> {
    let mut v = vec![0x1f, 0x8b, 8, flags, 0, 0, 0, 0, 0, 3];
    if flags & 4 != 0 {
        v.extend_from_slice(&(extra_len as u16).to_le_bytes());
        for _ in 0..extra_len {
            v.push(rng.below(256) as u8);
        }
    }
    if flags & 8 != 0 {
        for _ in 0..name_len {
            v.push(b'a' + rng.below(26) as u8);
        }
        v.push(0);
    }
    if flags & 16 != 0 {
        for _ in 0..comment_len {
            v.push(b'A' + rng.below(26) as u8);
        }
        v.push(0);
    }
    if flags & 2 != 0 {
        let c = crc32fast::hash(&v) as u16;
        v.extend_from_slice(&c.to_le_bytes());
    }
    v.extend_from_slice(stream);
    v.extend_from_slice(&crc32fast::hash(plain).to_le_bytes());
    v.extend_from_slice(&(plain.len() as u32).to_le_bytes());
    v
}

/// size_mode: what the local header says about the sizes - 0 the truth, 1 nothing (general purpose
/// bit 3: written by a streaming archiver, the sizes follow the data), 2 too little, 3 too much,
/// 4 the Zip64 marker.
/// The property speaks of "a ZIP local file header with method 8", whatever else it says.
pub fn wrap_zip(stream: &[u8], plain: &[u8], name_len: usize, extra_len: usize, size_mode: usize, rng: &mut Rng) -> Vec<u8> {
    let mut v = Vec::new();
    v.extend_from_slice(&0x04034b50u32.to_le_bytes());
    v.extend_from_slice(&20u16.to_le_bytes());
    v.extend_from_slice(&(if size_mode == 1 { 8u16 } else { 0u16 }).to_le_bytes());
    v.extend_from_slice(&8u16.to_le_bytes());
    v.extend_from_slice(&0u16.to_le_bytes());
    v.extend_from_slice(&0u16.to_le_bytes());
    let (crc, csize, usize_) = match size_mode {
        1 => (0u32, 0u32, 0u32),
        2 => (crc32fast::hash(plain), (stream.len() / 2) as u32, plain.len() as u32),
        3 => (crc32fast::hash(plain), stream.len() as u32 + 1000, plain.len() as u32),
        4 => (crc32fast::hash(plain), 0xffff_ffff, 0xffff_ffff),       // the Zip64 marker
        _ => (crc32fast::hash(plain), stream.len() as u32, plain.len() as u32),
    };
    v.extend_from_slice(&crc.to_le_bytes());
    v.extend_from_slice(&csize.to_le_bytes());
    v.extend_from_slice(&usize_.to_le_bytes());
    v.extend_from_slice(&(name_len as u16).to_le_bytes());
    v.extend_from_slice(&(extra_len as u16).to_le_bytes());
    // member names are bytes in whatever code page the archiver used: now ASCII, now not UTF-8
    let legacy = name_len % 2 == 1 || rng.chance(1, 3);
    for _ in 0..name_len {
        v.push(if legacy && rng.chance(1, 3) { 0xe0 + rng.below(31) as u8 } else { b'a' + rng.below(26) as u8 });
    }
    for _ in 0..extra_len {
        v.push(rng.below(256) as u8);
    }
    v.extend_from_slice(stream);
    v
}

pub fn png_chunk(kind: &[u8; 4], payload: &[u8]) -> Vec<u8> {
    let mut v = (payload.len() as u32).to_be_bytes().to_vec();
    v.extend_from_slice(kind);
    v.extend_from_slice(payload);
    let mut h = crc32fast::Hasher::new();
    h.update(kind);
    h.update(payload);
    v.extend_from_slice(&h.finalize().to_be_bytes());
    v
}

/// consecutive IDAT chunks carrying zlib(header, stream, adler); `sizes` are
/// the payload sizes of all chunks but the last, which takes the rest
/// zlib headers that announce a window smaller than 32K (what libpng writes for small images): CMF with
/// CINFO 6..0 and the FLG that makes the pair a multiple of 31
pub const SMALL_WINDOW_HEADERS: [[u8; 2]; 4] = [[0x68, 0x81], [0x58, 0x85], [0x38, 0x8d], [0x08, 0x99]];

/// hdr 0..3: the four 32K headers; 4..7: a small-window header (PNG payloads only: behind a bare zlib
/// header the property names the 32K ones)
pub fn wrap_idat(stream: &[u8], plain: &[u8], hdr: usize, sizes: &[usize]) -> Vec<u8> {
    let mut z = wrap_zlib(stream, plain, hdr);
    if hdr % 8 >= 4 {
        z[..2].copy_from_slice(&SMALL_WINDOW_HEADERS[hdr % 4]);
    }
    let mut v = Vec::new();
    let mut pos = 0;
    for &s in sizes {
        let s = s.min(z.len() - pos);
        v.extend_from_slice(&png_chunk(b"IDAT", &z[pos..pos + s]));
        pos += s;
        if pos == z.len() {
            break;
        }
    }
    if pos < z.len() {
        v.extend_from_slice(&png_chunk(b"IDAT", &z[pos..]));
    }
    v
}

/// bytes that contain none of the scanner's signature first bytes
/// (0x78 'x', 0x50 'P', 0x1f, 0x49 'I')
pub fn junk(rng: &mut Rng, n: usize) -> Vec<u8> {
    (0..n)
        .map(|_| loop {
            let b = rng.below(256) as u8;
            if b != 0x78 && b != 0x50 && b != 0x1f && b != 0x49 {
                break b;
            }
        })
        .collect()
}

// ------------------------------------------------------------------ mutators

pub fn mutate(rng: &mut Rng, data: &[u8], other: &[u8]) -> (String, Vec<u8>) {
    let mut v = data.to_vec();
    let kind = rng.below(7);
    let name = match kind {
        0 => {
            if !v.is_empty() {
                let n = rng.below(v.len() as u64) as usize;
                v.truncate(n);
            }
            "truncate"
        }
        1 => {
            if !v.is_empty() {
                let flips = rng.range(1, 4);
                for _ in 0..flips {
                    let i = rng.below(v.len() as u64) as usize;
                    v[i] ^= 1 << rng.below(8);
                }
            }
            "bitflip"
        }
        2 => {
            if !v.is_empty() && !other.is_empty() {
                let i = rng.below(v.len() as u64) as usize;
                let j = rng.below(other.len() as u64) as usize;
                let n = rng.range(1, 64).min((other.len() - j) as u64) as usize;
                v.truncate(i);
                v.extend_from_slice(&other[j..j + n]);
                if i + n < data.len() {
                    v.extend_from_slice(&data[i + n..]);
                }
            }
            "splice"
        }
        3 => {
            let i = rng.below(v.len() as u64 + 1) as usize;
            let n = rng.range(1, 8) as usize;
            let ins: Vec<u8> = (0..n).map(|_| rng.below(256) as u8).collect();
            let tail = v.split_off(i);
            v.extend_from_slice(&ins);
            v.extend_from_slice(&tail);
            "insert"
        }
        4 => {
            if v.len() > 1 {
                let i = rng.below(v.len() as u64) as usize;
                let n = rng.range(1, 8).min((v.len() - i) as u64) as usize;
                v.drain(i..i + n);
            }
            "delete"
        }
        5 => {
            // early part only: headers are where most structure lives
            if !v.is_empty() {
                let i = rng.below(v.len().min(64) as u64) as usize;
                v[i] = rng.below(256) as u8;
            }
            "headerbyte"
        }
        _ => {
            if !v.is_empty() {
                let i = rng.below(v.len() as u64) as usize;
                v[i] = rng.below(256) as u8;
            }
            "byte"
        }
    };
    (name.to_string(), v)
}

