// C01 C06 C11: whole files through expand_zlib_chunks / recreated_zlib_chunks /
// compress_zstd / decompress_zstd.  Files are assembled from *abstract files*
// (sequences of segments) that either the specification (Gen_Scan) or the
// seeded random driver supplies; the expected chunk list comes with them.

use crate::gen;
use crate::util::*;
use preflate_rs::verif;
use preflate_rs::{compress_zstd, decompress_deflate_stream, decompress_zstd, expand_zlib_chunks, recreated_zlib_chunks};
use serde_json::{json, Value};
use std::io::{BufRead, Cursor, Write};
use std::sync::Mutex;

/// a raw DEFLATE stream the library accepts on its own (C06's hypothesis)
#[derive(Clone)]
pub struct PoolStream {
    pub label: String,
    pub stream: Vec<u8>,
    pub plain: Vec<u8>,
}

/// streams from the four compressors that decompress_deflate_stream accepts
/// stand-alone; `big` selects plaintext > 1024 bytes, otherwise <= 1024
pub fn build_pool(rng: &mut Rng, n: usize, big: bool, maxlen: usize) -> Vec<PoolStream> {
    let mut v = Vec::new();
    let mut tries = 0;
    while v.len() < n && tries < n * 40 {
        tries += 1;
        let (pname, mut plain) = gen::plaintext(rng, maxlen);
        if big && plain.len() <= 1024 {
            continue;
        }
        if big && v.is_empty() {
            // the smallest plaintext the property speaks of: "more than 1024 bytes"
            plain.truncate(1025);
        }
        if !big {
            // small enough that even a few IDAT chunk headers keep the run under 1 KiB
            plain.truncate(rng.range(1, 900) as usize);
        }
        let (cname, stream) = gen::compress_random(rng, &plain);
        let ok = matches!(
            guarded(|| decompress_deflate_stream(&stream, true, 0)),
            Ok(Ok(ref r)) if r.compressed_size == stream.len() && r.plain_text == plain
        );
        if ok {
            v.push(PoolStream {
                label: format!("{}/{}", pname, cname),
                stream,
                plain,
            });
        }
    }
    v
}

#[derive(Clone, Debug, PartialEq)]
pub struct ExpChunk {
    pub kind: u8, // 0 literal, 1 stream, 2 idat
    pub span: usize,
    pub plain: Option<usize>, // pool index of the plaintext, for stream chunks
}

pub struct Built {
    pub bytes: Vec<u8>,
    /// expected chunk list; None when the segment mix makes no exact prediction
    pub expect: Option<Vec<ExpChunk>>,
    pub plains: Vec<Vec<u8>>,
    pub desc: Value,
}

fn fake_bytes(rng: &mut Rng, kind: &str, why: &str, pad: usize, big: &[PoolStream]) -> Vec<u8> {
    // a signature followed by bytes built to make the probe fail for a stated reason;
    // the bytes after the signature contain no further signature start
    let mut v: Vec<u8> = match (kind, why) {
        ("zlib", _) => {
            let h = *rng.pick(&gen::ZLIB_HEADERS);
            let mut v = h.to_vec();
            v.push(0x07); // BFINAL = 1, BTYPE = 3: invalid block type
            v
        }
        ("gzip", "method") => vec![0x1f, 0x8b, 7, 0, 0, 0, 0, 0, 0, 3, 0x03, 0x00],
        ("gzip", "fextra-past-eof") => vec![0x1f, 0x8b, 8, 4, 0, 0, 0, 0, 0, 3, 0xff, 0xff],
        // a file name / comment that is not terminated (it runs to the end of the file if nothing follows)
        ("gzip", "name-past-eof") => vec![0x1f, 0x8b, 8, 8, 1, 1, 1, 1, 2, 3, b'n', b'a', b'm', b'e'],
        ("gzip", "comment-past-eof") => vec![0x1f, 0x8b, 8, 0x10, 1, 1, 1, 1, 2, 3, b'c', b'o'],
        ("gzip", _) => vec![0x1f, 0x8b, 8, 0, 0, 0, 0, 0, 0, 3, 0x07],
        ("zip", "signature") => vec![0x50, 0x4b, 0x01, 0x02, 0, 0, 0, 0],
        // nothing but the two bytes every ZIP record starts with (then 0 to 5 other bytes, then whatever
        // follows in the file: a real wrapper may begin two or three bytes behind a "PK")
        ("zip", "bare") => vec![0x50, 0x4b],
        ("zip", "method") => {
            // a stored member (method 0) that says it is 70000 bytes long: what follows in the file
            // is, as far as the archive is concerned, inside it - and still has to be looked at
            let mut v = vec![0x50, 0x4b, 0x03, 0x04, 20, 0, 0, 0, 0, 0];
            v.extend_from_slice(&[0; 20]); // (sizes are filled in by build_file once the file is complete)
            v
        }
        ("zip", "extra-past-eof") => {
            let mut v = vec![0x50, 0x4b, 0x03, 0x04, 20, 0, 0, 0, 8, 0];
            v.extend_from_slice(&[0; 16]);
            v.extend_from_slice(&[0, 0, 0xff, 0xff]); // name 0, extra 65535
            v
        }
        ("zip", _) => {
            let mut v = vec![0x50, 0x4b, 0x03, 0x04, 20, 0, 0, 0, 8, 0];
            v.extend_from_slice(&[0; 20]);
            v.push(0x07);
            v
        }
        ("idat", "crc") => {
            let mut c = gen::png_chunk(b"IDAT", &gen::junk(rng, 40));
            let n = c.len();
            c[n - 1] ^= 0x55;
            c
        }
        ("idat", "short") => {
            let n = rng.range(0, 5) as usize;
            gen::png_chunk(b"IDAT", &gen::junk(rng, n))
        }
        ("idat", "nolength") => b"IDAT".to_vec(),
        ("idat", "zero-chunk") => {
            // a real stream in IDAT chunks with an empty chunk in the middle
            let ps = &big[rng.below(big.len() as u64) as usize];
            let z = gen::wrap_zlib(&ps.stream, &ps.plain, 1);
            let cut = z.len() / 2;
            let mut c = gen::png_chunk(b"IDAT", &z[..cut]);
            c.extend_from_slice(&gen::png_chunk(b"IDAT", &[]));
            c.extend_from_slice(&gen::png_chunk(b"IDAT", &z[cut..]));
            c
        }
        ("idat", "gap") => {
            // bytes between the last DEFLATE block and the adler32
            let ps = &big[rng.below(big.len() as u64) as usize];
            let mut z = gen::ZLIB_HEADERS[1].to_vec();
            z.extend_from_slice(&ps.stream);
            let ngap = 1 + rng.below(3) as usize;
            z.extend_from_slice(&gen::junk(rng, ngap));
            z.extend_from_slice(&gen::adler32(&ps.plain).to_be_bytes());
            let half = z.len() / 2;
            let mut c = gen::png_chunk(b"IDAT", &z[..half]);
            c.extend_from_slice(&gen::png_chunk(b"IDAT", &z[half..]));
            c
        }
        ("idat", _) => {
            let mut c = gen::png_chunk(b"IDAT", &gen::junk(rng, 40));
            c.truncate(c.len() - 3);
            c
        }
        _ => vec![],
    };
    v.extend_from_slice(&gen::junk(rng, pad));
    v
}

/// concretises an abstract file.  Segment forms (JSON objects):
///  {"c":"junk","n":N}
///  {"c":"fake","k":"zlib|gzip|zip|idat","why":...,"pad":N}
///  {"c":"wrap","k":"zlib|gzip|zip|idat","big":bool,"s":poolIndex, "hdr":0..3, "flags":0..31,
///   "x":extraLen,"nm":nameLen,"cm":commentLen,"sizes":[...], "trail":N}
pub fn build_file(segs: &Value, big: &[PoolStream], small: &[PoolStream], rng: &mut Rng) -> Built {
    let mut bytes: Vec<u8> = Vec::new();
    let mut expect: Vec<ExpChunk> = Vec::new();
    let mut plains: Vec<Vec<u8>> = Vec::new();
    let mut lit_start = 0usize; // prev_index of the model
    let mut exact = true;
    // end offset of an IDAT run that nothing separates from what follows: a valid IDAT
    // chunk right behind it extends the run, which leaves C06's hypothesis
    let mut idat_run_end: Option<usize> = None;
    // stored ZIP members (fake zip / method): offsets of their headers; once the file is complete their
    // size fields are set so that the member reaches to the end of the file - everything behind the
    // header is then "inside" it, and still has to be looked at
    let mut stored_members: Vec<usize> = Vec::new();
    for s in segs.as_array().unwrap() {
        let starts_with_valid_idat = s["k"].as_str() == Some("idat")
            && (s["c"].as_str() == Some("wrap") || (s["c"].as_str() == Some("fake") && s["why"].as_str() == Some("short")));
        if idat_run_end == Some(bytes.len()) && starts_with_valid_idat {
            exact = false;
        }
        match s["c"].as_str().unwrap() {
            "junk" => bytes.extend_from_slice(&gen::junk(rng, s["n"].as_u64().unwrap() as usize)),
            "fake" => {
                let why = s["why"].as_str().unwrap_or("");
                let f = fake_bytes(rng, s["k"].as_str().unwrap(), why, s["pad"].as_u64().unwrap_or(0) as usize, big);
                if why == "zero-chunk" || why == "gap" {
                    // parts of the damaged run may be found as plain zlib streams: no exact prediction
                    exact = false;
                }
                if why == "name-past-eof" || why == "comment-past-eof" {
                    // the unterminated string runs on into whatever follows, up to the first zero byte, and
                    // the probe then continues from there: what it finds is not for the model to say
                    exact = false;
                }
                if s["k"].as_str() == Some("zip") && why == "method" {
                    stored_members.push(bytes.len());
                }
                bytes.extend_from_slice(&f);
            }
            "overlap" => {
                // a zlib stream whose last four bytes (stored data) are at the same time the
                // length field of an IDAT chunk that follows without a gap: the IDAT look-back
                // of 4 bytes reaches into the stream that was just accepted
                let ps = &big[s["s"].as_u64().unwrap() as usize % big.len()];
                let mut pi = 0;
                for d in 0..big.len() {
                    if big[d].stream.len() > 1100 {
                        pi = d;
                        break;
                    }
                }
                let idat = gen::wrap_idat(&big[pi].stream, &big[pi].plain, 1, &[]);
                let start = bytes.len();
                let mut st: Vec<u8> = Vec::new();
                let fill = gen::junk(rng, 1100);
                st.push(0x00); // stored, not final
                st.extend_from_slice(&(fill.len() as u16).to_le_bytes());
                st.extend_from_slice(&(!(fill.len() as u16)).to_le_bytes());
                st.extend_from_slice(&fill);
                st.push(0x01); // stored, final, 4 bytes
                st.extend_from_slice(&4u16.to_le_bytes());
                st.extend_from_slice(&(!4u16).to_le_bytes());
                st.extend_from_slice(&idat[0..4]);
                bytes.extend_from_slice(&[0x78, 0x01]);
                bytes.extend_from_slice(&st);
                bytes.extend_from_slice(&idat[4..]);
                let _ = ps;
                expect.push(ExpChunk { kind: 0, span: start + 2 - lit_start, plain: None });
                expect.push(ExpChunk { kind: 1, span: st.len(), plain: None });
                // "IDAT" and the zlib header of the payload stay literal; the payload of the
                // single chunk is then found as a plain zlib stream
                expect.push(ExpChunk { kind: 0, span: 6, plain: None });
                plains.push(big[pi].plain.clone());
                expect.push(ExpChunk { kind: 1, span: big[pi].stream.len(), plain: Some(plains.len() - 1) });
                lit_start = start + 2 + st.len() + 6 + big[pi].stream.len();
                idat_run_end = Some(bytes.len());
            }
            "wrap" => {
                let isbig = s["big"].as_bool().unwrap_or(true);
                let pool = if isbig { big } else { small };
                let kind = s["k"].as_str().unwrap();
                let mut pi = s["s"].as_u64().unwrap() as usize % pool.len();
                if kind == "idat" && isbig {
                    // an IDAT run is expanded only if its chunks total more than 1 KiB
                    for d in 0..pool.len() {
                        if pool[(pi + d) % pool.len()].stream.len() > 1100 {
                            pi = (pi + d) % pool.len();
                            break;
                        }
                    }
                }
                let ps = &pool[pi];
                let start = bytes.len();
                let (hdr_len, span, idat);
                match kind {
                    "zlib" => {
                        bytes.extend_from_slice(&gen::wrap_zlib(&ps.stream, &ps.plain, s["hdr"].as_u64().unwrap_or(2) as usize));
                        hdr_len = 2;
                        span = ps.stream.len();
                        idat = false;
                    }
                    "gzip" => {
                        let flags = (s["flags"].as_u64().unwrap_or(0) as u8) & 0x1e;
                        let w = gen::wrap_gzip(&ps.stream, &ps.plain, flags, s["x"].as_u64().unwrap_or(0) as usize,
                            s["nm"].as_u64().unwrap_or(0) as usize, s["cm"].as_u64().unwrap_or(0) as usize, rng);
                        hdr_len = w.len() - ps.stream.len() - 8;
                        bytes.extend_from_slice(&w);
                        span = ps.stream.len();
                        idat = false;
                    }
                    "zip" => {
                        let nm = s["nm"].as_u64().unwrap_or(0) as usize;
                        let x = s["x"].as_u64().unwrap_or(0) as usize;
                        bytes.extend_from_slice(&gen::wrap_zip(&ps.stream, &ps.plain, nm, x, (s["flags"].as_u64().unwrap_or(0) / 2 % 5) as usize, rng));
                        hdr_len = 30 + nm + x;
                        span = ps.stream.len();
                        idat = false;
                    }
                    _ => {
                        let sizes: Vec<usize> = s["sizes"].as_array().map(|a| a.iter().map(|x| x.as_u64().unwrap() as usize).collect()).unwrap_or_default();
                        let w = gen::wrap_idat(&ps.stream, &ps.plain, s["hdr"].as_u64().unwrap_or(1) as usize, &sizes);
                        hdr_len = 0;
                        span = w.len();
                        bytes.extend_from_slice(&w);
                        idat = true;
                    }
                }
                // the accept thresholds of the scanner: plaintext > 1024 (zlib, gzip, zip),
                // total chunk length > 1024 (IDAT)
                let accept = if idat { span > 1024 } else { ps.plain.len() > 1024 };
                if idat && !accept && ps.plain.len() > 1024 {
                    // the zlib header nested in a rejected IDAT run is probed on its own and
                    // may be accepted if the stream fits into the first chunk: no exact prediction
                    exact = false;
                }
                if accept {
                    expect.push(ExpChunk { kind: 0, span: start + hdr_len - lit_start, plain: None });
                    plains.push(ps.plain.clone());
                    expect.push(ExpChunk { kind: if idat { 2 } else { 1 }, span, plain: Some(plains.len() - 1) });
                    lit_start = start + hdr_len + span;
                }
                let trail = s["trail"].as_u64().unwrap_or(0) as usize;
                bytes.extend_from_slice(&gen::junk(rng, trail));
                if idat {
                    idat_run_end = Some(bytes.len());
                }
            }
            _ => panic!("unknown segment class"),
        }
    }
    if lit_start < bytes.len() {
        expect.push(ExpChunk { kind: 0, span: bytes.len() - lit_start, plain: None });
    }
    for &at in stored_members.iter() {
        if at + 30 <= bytes.len() {
            let size = (bytes.len() - at - 30) as u32;
            // (never a byte pair that is a signature of its own)
            let size = if size.to_le_bytes().windows(2).any(|w| (w[0] == 0x78 && [0x01, 0x5e, 0x9c, 0xda].contains(&w[1])) || (w[0] == 0x1f && w[1] == 0x8b)) { size.saturating_sub(1) } else { size };
            bytes[at + 18..at + 22].copy_from_slice(&size.to_le_bytes());
            bytes[at + 22..at + 26].copy_from_slice(&size.to_le_bytes());
        }
    }
    Built {
        bytes,
        expect: if exact { Some(expect) } else { None },
        plains,
        desc: segs.clone(),
    }
}

#[derive(Default)]
pub struct FileOutcome {
    pub viol: Vec<(String, String, String)>, // property, signature, why
    pub chunks: Vec<verif::ChunkDesc>,
    pub container_len: usize,
    pub expanded_ok: bool,
}

fn psig(p: &str) -> String {
    let at = p.rsplit('@').next().unwrap_or("");
    at.split(':').next().unwrap_or("").to_string()
}

fn contains(hay: &[u8], needle: &[u8]) -> bool {
    if needle.is_empty() {
        return true;
    }
    if needle.len() > hay.len() {
        return false;
    }
    let first = needle[0];
    let mut i = 0;
    while i + needle.len() <= hay.len() {
        match hay[i..hay.len() - needle.len() + 1].iter().position(|&b| b == first) {
            None => return false,
            Some(p) => {
                i += p;
                if &hay[i..i + needle.len()] == needle {
                    return true;
                }
                i += 1;
            }
        }
    }
    false
}

/// C01 (round trip exact and total, also through zstd), C06 (expected chunk
/// list and plaintext present), and the raw material for C11
pub fn check_file(b: &Built, with_zstd: bool) -> FileOutcome {
    let mut o = FileOutcome::default();
    let f = &b.bytes;
    let expanded = match guarded(|| expand_zlib_chunks(f, 0)) {
        Err(p) => {
            o.viol.push(("C01".into(), format!("expand-panic:{}", psig(&p)), format!("expand_zlib_chunks panicked: {}", p)));
            return o;
        }
        Ok(Err(e)) => {
            o.viol.push(("C01".into(), "expand-err".into(), format!("expand_zlib_chunks returned Err: {:?}", e.exit_code())));
            return o;
        }
        Ok(Ok(x)) => x,
    };
    o.expanded_ok = true;
    o.container_len = expanded.len();
    match guarded(|| {
        let mut out = Vec::new();
        recreated_zlib_chunks(&mut Cursor::new(&expanded), &mut out).map(|_| out)
    }) {
        Err(p) => o.viol.push(("C01".into(), format!("recreate-panic:{}", psig(&p)), format!("recreated_zlib_chunks panicked: {}", p))),
        Ok(Err(e)) => o.viol.push(("C01".into(), format!("recreate-err:{:?}", e.exit_code()), format!("expand Ok but recreated_zlib_chunks returned Err: {:?}", e.exit_code()))),
        Ok(Ok(back)) => {
            if back != *f {
                let at = back.iter().zip(f.iter()).position(|(a, b)| a != b).unwrap_or(back.len().min(f.len()));
                o.viol.push(("C01".into(), "roundtrip-differs".into(), format!("recreated file differs from the original at byte {} ({} vs {} bytes)", at, back.len(), f.len())));
            }
        }
    }
    if with_zstd {
        match guarded(|| compress_zstd(f, 0)) {
            Err(p) => o.viol.push(("C01".into(), format!("zstd-panic:{}", psig(&p)), format!("compress_zstd panicked: {}", p))),
            Ok(Err(e)) => o.viol.push(("C01".into(), "zstd-compress-err".into(), format!("compress_zstd returned Err: {:?}", e.exit_code()))),
            Ok(Ok(z)) => match guarded(|| decompress_zstd(&z, expanded.len() + 16)) {
                Err(p) => o.viol.push(("C01".into(), format!("zstd-panic:{}", psig(&p)), format!("decompress_zstd panicked: {}", p))),
                Ok(Err(e)) => o.viol.push(("C01".into(), "zstd-decompress-err".into(), format!("decompress_zstd(compress_zstd(F)) returned Err: {:?}", e.exit_code()))),
                Ok(Ok(back)) => {
                    if back != *f {
                        o.viol.push(("C01".into(), "zstd-roundtrip-differs".into(), "decompress_zstd(compress_zstd(F)) differs from F".into()));
                    }
                }
            },
        }
    }
    // chunk list as the scanner produced it
    if let Ok(chunks) = guarded(|| verif::scan(f)) {
        o.chunks = chunks;
        if let Some(exp) = &b.expect {
            let got: Vec<(u8, usize)> = o.chunks.iter().map(|c| (c.kind, c.span)).collect();
            let want: Vec<(u8, usize)> = exp.iter().map(|c| (c.kind, c.span)).collect();
            if got != want {
                o.viol.push(("SCAN".into(), "chunks-differ".into(), format!("chunk list {:?} differs from the expected {:?}", got, want)));
            }
        }
    }
    // C06 proper: the plaintext of every embedded stream is carried verbatim
    for p in &b.plains {
        if b.expect.is_some() && !contains(&expanded, p) {
            o.viol.push(("C06".into(), "plaintext-missing".into(), format!("the container does not carry the {} byte plaintext of an embedded stream verbatim", p.len())));
        }
    }
    o
}

fn outcome_line(id: &str, b: &Built, o: &FileOutcome) -> Value {
    json!({
        "kind":"case","id":id,"len":b.bytes.len(),"container_len":o.container_len,
        "chunks": o.chunks.iter().map(|c| json!([c.kind, c.span])).collect::<Vec<_>>(),
        "exact": b.expect.is_some(),
        "viol": o.viol.iter().map(|(p,s,w)| json!({"prop":p,"sig":s,"why":w})).collect::<Vec<_>>(),
        "desc": b.desc,
        "hex": if o.viol.is_empty() || b.bytes.len() > 400000 { Value::Null } else { Value::String(hex(&b.bytes)) },
    })
}

/// spec -> impl: abstract files from Gen_Scan
pub fn replay(args: &Args) -> i32 {
    quiet_panics();
    let seed = args.num("seed", 1);
    let mut rng = Rng::new(seed ^ 0xC0);
    let big = build_pool(&mut rng, args.num("pool", 12) as usize, true, args.num("maxlen", 40000) as usize);
    let small = build_pool(&mut rng, 4, false, 2000);
    if big.is_empty() || small.is_empty() {
        eprintln!("could not build a stream pool");
        return 2;
    }
    let f = std::fs::File::open(args.req("in")).unwrap();
    let lines: Vec<String> = std::io::BufReader::new(f).lines().map(|l| l.unwrap()).filter(|l| !l.trim().is_empty()).collect();
    let out = Mutex::new(std::io::BufWriter::new(std::fs::File::create(args.req("out")).unwrap()));
    let threads = args.num("threads", 12) as usize;
    let with_zstd = args.get("zstd").is_some();
    par_for(lines.len(), threads, |i, _| {
        let case: Value = serde_json::from_str(&lines[i]).unwrap();
        let mut r = Rng::new(seed.wrapping_mul(31) + i as u64);
        let b = build_file(&case["segs"], &big, &small, &mut r);
        let o = check_file(&b, with_zstd);
        let mut j = outcome_line(&format!("f{}", i), &b, &o);
        // the specification's own prediction of the chunk list, by kind
        if let Some(spec) = case.get("chunks") {
            let got: Vec<u64> = o.chunks.iter().map(|c| c.kind as u64).collect();
            let want: Vec<u64> = spec.as_array().unwrap().iter().map(|x| x.as_u64().unwrap()).collect();
            if b.expect.is_some() && o.expanded_ok && got != want {
                j["viol"].as_array_mut().unwrap().push(json!({"prop":"SCAN","sig":"chunk-kinds-differ-from-spec","why":format!("chunk kinds {:?} differ from the specification's {:?}", got, want)}));
                j["hex"] = Value::String(hex(&b.bytes));
            }
        }
        let mut g = out.lock().unwrap();
        writeln!(g, "{}", j).unwrap();
    });
    0
}

pub fn random_segs_pub(rng: &mut Rng) -> Value {
    random_segs(rng)
}

fn random_segs(rng: &mut Rng) -> Value {
    let n = rng.range(1, 5);
    let mut segs = Vec::new();
    for _ in 0..n {
        let k = *rng.pick(&["zlib", "gzip", "zip", "idat"]);
        match rng.below(10) {
            0..=2 => segs.push(json!({"c":"junk","n":*rng.pick(&[0u64, 1, 2, 3, 4, 5, 17, 300, 5000, 5000, 65534, 65536, 131072])})),
            3..=4 => {
                let why = match k {
                    "gzip" => *rng.pick(&["method", "fextra-past-eof", "name-past-eof", "comment-past-eof", "block"]),
                    "zip" => *rng.pick(&["signature", "method", "extra-past-eof", "block", "bare", "bare"]),
                    "idat" => *rng.pick(&["crc", "short", "nolength", "truncated", "zero-chunk", "gap", "zero-chunk", "gap"]),
                    _ => "block",
                };
                segs.push(json!({"c":"fake","k":k,"why":why,"pad":rng.below(6)}));
            }
            _ => {
                let nsz = rng.below(4);
                let mut sizes: Vec<u64> = (0..nsz).map(|_| *rng.pick(&[1u64, 2, 3, 5, 6, 7, 100, 1000, 1024, 8192])).collect();
                if rng.chance(1, 6) {
                    // many chunks of one size (what an encoder with a fixed output buffer writes)
                    let (c, n) = (*rng.pick(&[3u64, 8, 16]), *rng.pick(&[255usize, 256, 257, 600]));
                    sizes = vec![c; n];
                }
                segs.push(json!({"c":"wrap","k":k,"big":rng.chance(4,5),"s":rng.below(1000),"hdr":rng.below(8),
                    "flags":rng.below(16)*2,"x":*rng.pick(&[0u64,0,1,1,300,300,3000,65535]),"nm":*rng.pick(&[0u64,1,40,255,256,5000]),"cm":*rng.pick(&[0u64,1,40,256,5000]),
                    "sizes":sizes,"trail":*rng.pick(&[0u64,0,1,4,7,8,9,20])}));
            }
        }
    }
    Value::Array(segs)
}

/// impl -> spec direction and damaged files: random abstract files, then
/// truncations, bit flips and splices of the concrete bytes (no expectation
/// other than C01's), the repository's sample containers, every short file
pub fn record(args: &Args) -> i32 {
    quiet_panics();
    let seed = args.num("seed", 1);
    let nfiles = args.num("files", 60) as usize;
    let mutants = args.num("mutants", 6) as usize;
    let threads = args.num("threads", 12) as usize;
    let mut rng = Rng::new(seed ^ 0xF11E);
    let big = build_pool(&mut rng, args.num("pool", 12) as usize, true, args.num("maxlen", 40000) as usize);
    let small = build_pool(&mut rng, 4, false, 2000);
    if big.is_empty() || small.is_empty() {
        eprintln!("could not build a stream pool");
        return 2;
    }
    let mut builts: Vec<Built> = Vec::new();
    for _ in 0..nfiles {
        let segs = random_segs(&mut rng);
        let b = build_file(&segs, &big, &small, &mut rng);
        for _ in 0..mutants {
            let (m, bytes) = gen::mutate(&mut rng, &b.bytes, &big[0].stream);
            builts.push(Built { bytes, expect: None, plains: vec![], desc: json!({"mutation":m,"of":b.desc}) });
        }
        // truncations near the end exercise the tail handling of every wrapper
        for cut in 1..=args.num("cuts", 12) as usize {
            if b.bytes.len() > cut {
                builts.push(Built { bytes: b.bytes[..b.bytes.len() - cut].to_vec(), expect: None, plains: vec![], desc: json!({"cut":cut,"of":b.desc}) });
            }
        }
        builts.push(b);
    }
    // literal runs whose length sits on the copy buffer's size (64 KiB) and its neighbours, alone
    // and with the header / trailer bytes of a wrapper counted in
    for l in [65535u64, 65536, 65537, 131072, 196608] {
        builts.push(build_file(&json!([{"c":"junk","n":l}]), &big, &small, &mut rng));
    }
    let wrap = |k: &str, s: u64| json!({"c":"wrap","k":k,"big":true,"s":s,"hdr":1,"flags":0,"x":0,"nm":0,"cm":0,"sizes":[],"trail":0});
    for (k, hdr) in [("zlib", 2u64), ("gzip", 10), ("zip", 30), ("idat", 0)] {
        for mult in [1u64, 2] {
            builts.push(build_file(&json!([{"c":"junk","n":65536 * mult - hdr}, wrap(k, 3)]), &big, &small, &mut rng));
            builts.push(build_file(&json!([wrap(k, 5), {"c":"junk","n":65536 * mult}]), &big, &small, &mut rng));
        }
    }
    builts.push(build_file(&json!([wrap("zlib", 7), {"c":"junk","n":65536 - 4}]), &big, &small, &mut rng));
    // a large file with, at every place where a division into 2..64 equal parts would cut it, a pair of
    // nested streams: a zlib stream A whose stored block holds the beginning of a zlib stream B, the rest
    // of B right behind A (a scanner that works on the parts separately meets B inside A)
    {
        let l: usize = 4 << 20;
        let mut f = gen::junk(&mut rng, l);
        let text: Vec<u8> = (0..4000).map(|_| b'a' + rng.below(26) as u8).collect();
        let b = gen::wrap_zlib(&gen::zlib_raw(&text, 6, 0, 15, 8), &text, 2);
        assert!(b.len() > 1200);
        {
            let inner = 1100usize;
            let mut pair: Vec<u8> = vec![0x78, 0x01, 0x01];
            pair.extend_from_slice(&(inner as u16).to_le_bytes());
            pair.extend_from_slice(&(!(inner as u16)).to_le_bytes());
            pair.extend_from_slice(&b);       // the first `inner` bytes are A's stored data, the rest follows A
            let mut used: Vec<usize> = Vec::new();
            for parts in 2..=64usize {
                for cut in [(l + parts - 1) / parts, l / parts] {
                    for k in 1..parts.min(3) {
                        let at = cut * k;
                        if at < 8 || at + pair.len() + 8 >= l { continue; }
                        let at = at - 3;
                        if used.iter().any(|&u| (u as i64 - at as i64).abs() < (pair.len() + 16) as i64) { continue; }
                        f[at..at + pair.len()].copy_from_slice(&pair);
                        used.push(at);
                    }
                }
            }
            builts.push(Built { bytes: f, expect: None, plains: vec![], desc: json!("nested stream pairs at every equal-parts cut of a 4 MiB file") });
        }
    }
    // PNG data in 255, 256, 257 and 600 chunks of one size
    for (n, c) in [(255usize, 8u64), (256, 8), (257, 8), (600, 5)] {
        let sizes: Vec<u64> = vec![c; n];
        builts.push(build_file(&json!([{"c":"junk","n":9}, {"c":"wrap","k":"idat","big":true,"s":11,"hdr":2,"flags":0,"x":0,"nm":0,"cm":0,"sizes":sizes,"trail":5}]), &big, &small, &mut rng));
    }
    // files that are larger than their expanded form: noise that went through a compressor
    for level in [1, 9] {
        let noise: Vec<u8> = (0..250_000).map(|_| rng.below(256) as u8).collect();
        let mut f = gen::junk(&mut rng, 20);
        f.extend_from_slice(&gen::wrap_zlib(&gen::zlib_raw(&noise, level, 0, 15, 8), &noise, 1));
        builts.push(Built { bytes: f, expect: None, plains: vec![noise], desc: json!("noise through zlib") });
    }
    builts.push(build_file(&json!([wrap("gzip", 7), {"c":"junk","n":65536 - 8}]), &big, &small, &mut rng));
    if args.get("samples").is_some() {
        for name in ["samplezip.zip", "sample1.bin.gz", "treegdi.png", "samplepptx.pptx", "skiplengthcrash.bin", "starcontrol.samplesave"] {
            if let Ok(bytes) = std::fs::read(format!("/repo/samples/{}", name)) {
                for _ in 0..mutants.min(2) {
                    let (m, mb) = gen::mutate(&mut rng, &bytes, &big[0].stream);
                    builts.push(Built { bytes: mb, expect: None, plains: vec![], desc: json!({"mutation":m,"sample":name}) });
                }
                builts.push(Built { bytes, expect: None, plains: vec![], desc: json!({"sample":name}) });
            }
        }
    }
    let out = Mutex::new(std::io::BufWriter::new(std::fs::File::create(args.req("out")).unwrap()));
    let trace = args.get("trace").map(|p| Mutex::new(std::io::BufWriter::new(std::fs::File::create(p).unwrap())));
    let with_zstd = args.get("zstd").is_some();
    let tracemax = args.num("traces", 40) as usize;
    par_for(builts.len(), threads, |i, _| {
        let o = check_file(&builts[i], with_zstd && i % 4 == 0);
        let j = outcome_line(&format!("r{}", i), &builts[i], &o);
        let mut g = out.lock().unwrap();
        writeln!(g, "{}", j).unwrap();
    });
    if let Some(t) = &trace {
        let mut g = t.lock().unwrap();
        let mut cases = std::io::BufWriter::new(std::fs::File::create(format!("{}.cases", args.req("trace"))).unwrap());
        let mut k = 0;
        for b in builts.iter() {
            if k >= tracemax {
                break;
            }
            if b.bytes.len() > 300000 {
                continue;
            }
            write_container_trace(&mut *g, k, b);
            writeln!(cases, "{}", json!({"run":k,"desc":b.desc,"hex":if b.bytes.len() < 200000 { Value::String(hex(&b.bytes)) } else { Value::Null }})).unwrap();
            k += 1;
        }
    }
    // every byte string up to a length (C01's exhaustive part)
    let maxlen = args.num("short", 2) as usize;
    let counts = Mutex::new((0u64, 0u64));
    for len in 0..=maxlen {
        let n = 256u64.pow(len as u32);
        let chunks = if len == 0 { 1 } else { 256 };
        par_for(chunks, threads, |c, _| {
            let per = n / chunks as u64;
            let mut buf = vec![0u8; len];
            let mut bad = 0;
            for k in 0..per {
                let mut x = c as u64 * per + k;
                for i in (0..len).rev() {
                    buf[i] = (x & 255) as u8;
                    x >>= 8;
                }
                let b = Built { bytes: buf.clone(), expect: None, plains: vec![], desc: json!({"short":hex(&buf)}) };
                let o = check_file(&b, false);
                if !o.viol.is_empty() {
                    bad += 1;
                    if bad < 3 {
                        let j = outcome_line(&format!("s{}", hex(&buf)), &b, &o);
                        writeln!(out.lock().unwrap(), "{}", j).unwrap();
                    }
                }
            }
            let mut g = counts.lock().unwrap();
            g.0 += per;
            g.1 += bad;
        });
    }
    let g = counts.lock().unwrap();
    writeln!(out.lock().unwrap(), "{}", json!({"kind":"summary","short_strings":g.0,"short_violations":g.1,"maxlen":maxlen})).unwrap();
    0
}

fn read_varint_at(c: &[u8], pos: &mut usize) -> Option<u64> {
    let mut r = 0u64;
    let mut shift = 0;
    loop {
        let b = *c.get(*pos)?;
        *pos += 1;
        r |= ((b & 0x7f) as u64) << shift;
        shift += 7;
        if b & 0x80 == 0 {
            return Some(r);
        }
        if shift > 35 {
            return None;
        }
    }
}

/// trace for Trace_Container: the file length, the chunk list of the scanner,
/// for every chunk the header bytes actually found in the container at the
/// position where the chunk must start, and the outcome of recreate
pub fn write_container_trace(out: &mut impl Write, run: usize, b: &Built) {
    let f = &b.bytes;
    let chunks = match guarded(|| verif::scan(f)) {
        Ok(c) => c,
        Err(p) => {
            writeln!(out, "{}", event("Reset", json!({"run":run,"len":f.len()}))).unwrap();
            writeln!(out, "{}", event("Panic", json!({"msg":p}))).unwrap();
            return;
        }
    };
    let expanded = match guarded(|| expand_zlib_chunks(f, 0)) {
        Ok(Ok(x)) => x,
        Ok(Err(e)) => {
            writeln!(out, "{}", event("Reset", json!({"run":run,"len":f.len()}))).unwrap();
            writeln!(out, "{}", event("ExpandErr", json!({"code":format!("{:?}", e.exit_code())}))).unwrap();
            return;
        }
        Err(p) => {
            writeln!(out, "{}", event("Reset", json!({"run":run,"len":f.len()}))).unwrap();
            writeln!(out, "{}", event("Panic", json!({"msg":p}))).unwrap();
            return;
        }
    };
    writeln!(out, "{}", event("Reset", json!({"run":run,"len":f.len(),"clen":expanded.len(),"version":expanded.first().copied().unwrap_or(255)}))).unwrap();
    // walk the container with the chunk list to find each header
    let mut pos = 1usize;
    for c in &chunks {
        let start = pos;
        let payload: usize = match c.kind {
            0 => c.span,
            _ => c.plain_len + c.corrections_len,
        };
        // header = everything that is not payload: tag, varints, descriptor
        let mut p = pos;
        let tag = expanded.get(p).copied();
        p += 1;
        let mut ok = tag.is_some();
        if ok {
            match c.kind {
                0 => {
                    ok = read_varint_at(&expanded, &mut p).is_some();
                }
                1 => {
                    ok = read_varint_at(&expanded, &mut p).is_some();
                }
                _ => {
                    loop {
                        match read_varint_at(&expanded, &mut p) {
                            Some(0) => break,
                            Some(_) => {}
                            None => {
                                ok = false;
                                break;
                            }
                        }
                    }
                    p += 6;
                    if ok {
                        ok = read_varint_at(&expanded, &mut p).is_some();
                    }
                }
            }
        }
        let hdr1: Vec<u8> = expanded.get(start..p.min(expanded.len())).map(|s| s.to_vec()).unwrap_or_default();
        // second varint (corrections length) sits after the plaintext
        let mut hdr2: Vec<u8> = Vec::new();
        let mut end = p + if c.kind == 0 { c.span } else { c.plain_len };
        if c.kind != 0 && ok {
            let mut q = end;
            if read_varint_at(&expanded, &mut q).is_some() {
                hdr2 = expanded[end..q].to_vec();
                end = q + c.corrections_len;
            }
        }
        let _ = payload;
        pos = end;
        writeln!(out, "{}", event("Chunk", json!({
            "kind":c.kind,"span":c.span,"plain_len":c.plain_len,"corr_len":c.corrections_len,"csize":c.compressed_size,
            "sizes":c.idat_sizes,"zh":[c.idat_zlib_header[0],c.idat_zlib_header[1]],
            "adler":[(c.idat_adler32>>24)&255,(c.idat_adler32>>16)&255,(c.idat_adler32>>8)&255,c.idat_adler32&255],
            "at":start,"hdr1":hdr1,"hdr2":hdr2,"end":end}))).unwrap();
    }
    let (res, equal) = match guarded(|| {
        let mut o = Vec::new();
        recreated_zlib_chunks(&mut Cursor::new(&expanded), &mut o).map(|_| o)
    }) {
        Ok(Ok(back)) => ("ok".to_string(), back == *f),
        Ok(Err(e)) => (format!("err:{:?}", e.exit_code()), false),
        Err(_) => ("panic".to_string(), false),
    };
    writeln!(out, "{}", event("Recreate", json!({"result":res,"equal":equal,"cend":pos}))).unwrap();
}

/// one saved file (hex) through check_file
pub fn replay_hex(args: &Args) -> i32 {
    quiet_panics();
    let bytes = unhex(args.req("hex"));
    let b = Built { bytes, expect: None, plains: vec![], desc: Value::Null };
    let o = check_file(&b, true);
    println!("{}", outcome_line("replay", &b, &o));
    0
}
