mod codec;
mod container;
mod deflate;
mod gen;
mod hist;
mod iox;
mod stream;
mod util;

use util::Args;

fn main() {
    let argv: Vec<String> = std::env::args().skip(1).collect();
    if argv.is_empty() {
        eprintln!("usage: vh <subcommand> [--key value]...");
        std::process::exit(2);
    }
    let args = Args::parse(&argv[1..]);
    let code = match argv[0].as_str() {
        "versions" => {
            println!("{:?}", preflate_rs::verif::format_versions());
            0
        }
        "codec-replay" => codec::replay(&args),
        "codec-record" => codec::record(&args),
        "codec-record-streams" => codec::record_streams(&args),
        "codec-record-case" => codec::record_case(&args),
        "deflate-replay" => deflate::replay(&args),
        "deflate-record" => deflate::record(&args),
        "deflate-trace-generated" => deflate::trace_generated(&args),
        "deflate-replay-hex" => deflate::replay_hex(&args),
        "deflate-info" => deflate::info(&args),
        "deflate-critical" => deflate::critical_positions(&args),
        "deflate-dump" => deflate::dump(&args),
        "deflate-edge-replay" => deflate::edge_replay(&args),
        "deflate-pairs" => deflate::pairs_replay(&args),
        "deflate-pack" => deflate::pack(&args),
        "deflate-short" => deflate::exhaustive_short(&args),
        "container-replay" => container::replay(&args),
        "container-record" => container::record(&args),
        "container-replay-hex" => container::replay_hex(&args),
        "io-record" => iox::io_record(&args),
        "io-replay" => iox::io_replay(&args),
        "zstd-record" => iox::zstd_record(&args),
        "abi-record" => iox::abi_record(&args),
        "conc-record" => iox::conc_record(&args),
        "params-replay" => stream::params_replay(&args),
        "match-record" => stream::match_record(&args),
        "match-exhaustive" => stream::match_exhaustive(&args),
        "stream-record" => stream::record(&args),
        "hist-record" => hist::record(&args),
        other => {
            eprintln!("unknown subcommand {}", other);
            2
        }
    };
    std::process::exit(code);
}
