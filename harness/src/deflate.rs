// C02 C03 C05 C07: raw DEFLATE streams through the parser, the writer and the
// whole analyse/reconstruct path; replay of model-generated streams and
// recording of parser traces for TLC.

use crate::gen;
use crate::util::*;
use preflate_rs::verif::{self, ParsedBlock, Tok};
use preflate_rs::{decompress_deflate_stream, recompress_deflate_stream};
use serde_json::{json, Value};
use std::io::{BufRead, Write};
use std::sync::Mutex;

/// packs <<value, nbits, msb, rep>> fields into bytes, LSB first; the harness
/// knows nothing else about DEFLATE
pub fn pack_fields(fields: &Value) -> Vec<u8> {
    let mut out: Vec<u8> = Vec::new();
    let mut acc: u64 = 0;
    let mut nacc = 0u32;
    for f in fields.as_array().unwrap() {
        let v = f[0].as_u64().unwrap();
        let n = f[1].as_u64().unwrap() as u32;
        let rep = f.get(3).and_then(|x| x.as_u64()).unwrap_or(1);
        if f[2].as_u64().unwrap() == 2 {
            // a run of bytes in closed form (Gen_Deflate!Varied); always byte aligned
            while nacc >= 8 {
                out.push(acc as u8);
                acc >>= 8;
                nacc -= 8;
            }
            assert_eq!(nacc, 0);
            for i in 1..=rep {
                out.push(varied(v, i));
            }
            continue;
        }
        let msb = f[2].as_u64().unwrap() != 0;
        if n == 8 && !msb && nacc % 8 == 0 && rep > 8 {
            while nacc >= 8 {
                out.push(acc as u8);
                acc >>= 8;
                nacc -= 8;
            }
            out.extend(std::iter::repeat(v as u8).take(rep as usize));
            continue;
        }
        for _ in 0..rep {
            for i in 0..n {
                let bit = if msb { (v >> (n - 1 - i)) & 1 } else { (v >> i) & 1 };
                acc |= bit << nacc;
                nacc += 1;
                if nacc == 8 {
                    out.push(acc as u8);
                    acc = 0;
                    nacc = 0;
                }
            }
        }
    }
    if nacc > 0 {
        out.push(acc as u8);
    }
    out
}

/// Gen_Deflate!Varied
pub fn varied(seed: u64, i: u64) -> u8 {
    ((((i % 251) * (i % 241)) + (i / 7) * 13 + seed) % 256) as u8
}

#[derive(Clone, Debug, PartialEq)]
pub struct ExpBlock {
    pub btype: u8,
    pub pad: u8,
    pub stored: Vec<u8>,
    pub toks: Vec<Tok>,
    pub dynhdr: Option<(usize, usize, usize, Vec<u8>, Vec<(u8, u8)>)>,
}

pub struct Expect {
    pub plain: Vec<u8>,
    pub consumed: usize,
    pub blocks: Vec<ExpBlock>,
}

/// item list of the spec (<<sym, extra>>) in the hook's form (type, count/len)
fn spec_item(it: &Value) -> (u8, u8) {
    let sym = it[0].as_u64().unwrap() as u8;
    let x = it[1].as_u64().unwrap() as u8;
    match sym {
        0..=15 => (0, sym),
        16 => (16, x + 3),
        17 => (17, x + 3),
        _ => (18, x + 11),
    }
}

/// what the generated behaviour denotes: tokens expanded by a plain LZ77 copy loop
pub fn expectation(case: &Value) -> Expect {
    let mut plain: Vec<u8> = Vec::new();
    let mut blocks = Vec::new();
    for b in case["blocks"].as_array().unwrap() {
        let btype = b["type"].as_u64().unwrap() as u8;
        let mut eb = ExpBlock {
            btype,
            pad: b["pad"].as_u64().unwrap_or(0) as u8,
            stored: Vec::new(),
            toks: Vec::new(),
            dynhdr: None,
        };
        for d in b["data"].as_array().unwrap() {
            if d.as_array().unwrap().len() == 3 {
                let seed = d[0].as_u64().unwrap();
                for i in 1..=d[1].as_u64().unwrap() {
                    eb.stored.push(varied(seed, i));
                    plain.push(varied(seed, i));
                }
                continue;
            }
            let v = d[0].as_u64().unwrap() as u8;
            for _ in 0..d[1].as_u64().unwrap() {
                eb.stored.push(v);
                plain.push(v);
            }
        }
        for t in b["toks"].as_array().unwrap() {
            if t[0].as_u64().unwrap() == 0 {
                let v = t[1].as_u64().unwrap() as u8;
                eb.toks.push(Tok::Lit(v));
                plain.push(v);
            } else {
                let l = t[1].as_u64().unwrap() as usize;
                let d = t[2].as_u64().unwrap() as usize;
                eb.toks.push(Tok::Ref {
                    len: l as u32,
                    dist: d as u32,
                    irregular258: t[3].as_u64().unwrap() != 0,
                });
                for _ in 0..l {
                    let x = plain[plain.len() - d];
                    plain.push(x);
                }
            }
        }
        if btype == 2 {
            let cl: Vec<u8> = b["cl"].as_array().unwrap().iter().map(|x| x.as_u64().unwrap() as u8).collect();
            let items = b["items"].as_array().unwrap().iter().map(spec_item).collect();
            eb.dynhdr = Some((
                b["hlit"].as_u64().unwrap() as usize,
                b["hdist"].as_u64().unwrap() as usize,
                b["hclen"].as_u64().unwrap() as usize,
                cl,
                items,
            ));
        }
        blocks.push(eb);
    }
    let consumed = (case["bits"].as_u64().unwrap() as usize + 7) / 8;
    Expect {
        plain,
        consumed,
        blocks,
    }
}

fn block_matches(e: &ExpBlock, p: &ParsedBlock) -> bool {
    if e.btype != p.block_type || e.toks != p.tokens {
        return false;
    }
    if e.btype == 0 && (e.stored != p.stored || e.pad != p.padding_bits) {
        return false;
    }
    if let Some((hlit, hdist, hclen, cl, items)) = &e.dynhdr {
        if *hlit != p.hlit || *hdist != p.hdist || *hclen != p.hclen || cl[..] != p.code_lengths[..] || *items != p.items {
            return false;
        }
    }
    true
}

#[derive(Default, Clone)]
pub struct Viol {
    pub prop: &'static str,
    pub sig: String,
    pub why: String,
}

#[derive(Default)]
pub struct Outcome {
    pub lib: String, // ok | err:<code> | panic
    pub viol: Vec<Viol>,
    pub model_error: Option<String>,
    pub nontrivial: bool,
    pub zlib_ok: bool,
    pub plain_len: usize,
    pub corr_len: usize,
}

fn panic_sig(msg: &str) -> String {
    let at = msg.rsplit('@').next().unwrap_or("");
    let file = at.split(':').next().unwrap_or("");
    let head: String = msg
        .chars()
        .take(40)
        .filter(|c| !c.is_ascii_digit())
        .collect();
    format!("panic:{}:{}", file, head.trim())
}

/// every public-API level obligation of C02 C03 C05 C07 on one byte string
pub fn check_stream(bytes: &[u8], expect: Option<&Expect>, rng: &mut Rng) -> Outcome {
    let mut o = Outcome::default();

    // independent decoder (validates the model; is the oracle C03 names)
    let z = gen::zlib_inflate_raw(bytes, 64 << 20);
    o.zlib_ok = z.ok;
    if let Some(e) = expect {
        if !z.ok || z.plain != e.plain || z.consumed != e.consumed {
            o.model_error = Some(format!(
                "specification and zlib disagree on a generated stream (zlib ok={} consumed={} vs {} plain {} vs {})",
                z.ok, z.consumed, e.consumed, z.plain.len(), e.plain.len()
            ));
            return o;
        }
    }

    // C05: both verify flags terminate in Ok or Err
    let mut results: Vec<Option<(Vec<u8>, Vec<u8>, usize)>> = Vec::new();
    for verify in [false, true] {
        match guarded(|| decompress_deflate_stream(bytes, verify, 0)) {
            Err(p) => {
                o.viol.push(Viol {
                    prop: "C05",
                    sig: panic_sig(&p),
                    why: format!("decompress_deflate_stream(verify={}) panicked: {}", verify, p),
                });
                results.push(None);
                if !verify {
                    o.lib = "panic".into();
                }
            }
            Ok(Err(e)) => {
                if !verify {
                    o.lib = format!("err:{:?}", e.exit_code());
                }
                results.push(None);
            }
            Ok(Ok(r)) => {
                if !verify {
                    o.lib = "ok".into();
                    o.plain_len = r.plain_text.len();
                    o.corr_len = r.prediction_corrections.len();
                }
                results.push(Some((r.plain_text, r.prediction_corrections, r.compressed_size)));
            }
        }
    }

    // C02.  A result obtained with verify=false is only handed to recompress_deflate_stream
    // if verify=true accepted the stream as well: a decoder fed corrections that do not fit
    // can run away, and when verify=true refuses, the two flags already disagree (below).
    for (i, r) in results.iter().enumerate() {
        if let Some((plain, corr, size)) = r {
            let verify = i == 1;
            if !verify && results[1].is_none() {
                continue;
            }
            if *size > bytes.len() {
                o.viol.push(Viol { prop: "C02", sig: "compressed_size>len".into(), why: format!("compressed_size {} exceeds the input length {}", size, bytes.len()) });
                continue;
            }
            match guarded(|| recompress_deflate_stream(plain, corr)) {
                Err(p) => o.viol.push(Viol {
                    prop: "C02",
                    sig: format!("recompress-{}", panic_sig(&p)),
                    why: format!("accepted (verify={}) but recompress_deflate_stream panicked: {}", verify, p),
                }),
                Ok(Err(e)) => o.viol.push(Viol {
                    prop: "C02",
                    sig: format!("recompress-err:{:?}", e.exit_code()),
                    why: format!("accepted (verify={}) but recompress_deflate_stream failed: {:?}", verify, e.exit_code()),
                }),
                Ok(Ok(back)) => {
                    if back[..] != bytes[..*size] {
                        let at = back.iter().zip(bytes.iter()).position(|(a, b)| a != b).unwrap_or(back.len().min(*size));
                        o.viol.push(Viol {
                            prop: "C02",
                            sig: "reconstruction-differs".into(),
                            why: format!("accepted (verify={}) and reconstructed differently: first difference at byte {} of {} (rebuilt {} bytes)", verify, at, size, back.len()),
                        });
                    }
                }
            }
        }
    }
    match (&results[0], &results[1]) {
        (Some(a), Some(b)) => {
            if a != b {
                o.viol.push(Viol { prop: "C02", sig: "verify-flag-changes-result".into(), why: "verify=false and verify=true return different results".into() });
            }
        }
        (Some(_), None) => {
            o.viol.push(Viol { prop: "C02", sig: "verify-flag-changes-verdict".into(), why: "verify=false accepts what verify=true refuses (accepted without verification, the stream would be reconstructed differently or not at all)".into() });
        }
        (None, Some(_)) if o.lib != "panic" => {
            o.viol.push(Viol { prop: "C02", sig: "verify-flag-changes-verdict".into(), why: "verify=true accepts, verify=false rejects".into() });
        }
        _ => {}
    }
    // the result depends only on D[..compressed_size]
    if let Some((plain, corr, size)) = &results[0] {
        if *size <= bytes.len() {
            let mut variants: Vec<Vec<u8>> = vec![bytes[..*size].to_vec()];
            let mut v2 = bytes[..*size].to_vec();
            for _ in 0..rng.range(1, 9) {
                v2.push(rng.below(256) as u8);
            }
            variants.push(v2);
            for v in variants {
                match guarded(|| decompress_deflate_stream(&v, false, 0)) {
                    Ok(Ok(r2)) => {
                        if r2.plain_text != *plain || r2.prediction_corrections != *corr || r2.compressed_size != *size {
                            o.viol.push(Viol { prop: "C02", sig: "tail-dependence".into(), why: "the result changes when the bytes after compressed_size are removed or replaced".into() });
                        }
                    }
                    _ => o.viol.push(Viol { prop: "C02", sig: "tail-dependence".into(), why: "the verdict changes when the bytes after compressed_size are removed or replaced".into() }),
                }
            }
        }
    }

    // ... and on nothing else: the same bytes at an odd address (a sub-slice of a larger buffer)
    if let Some((plain, corr, size)) = &results[0] {
        let mut shifted = vec![0u8; bytes.len() + 9];
        let off = 1 + (8 - (shifted.as_ptr() as usize % 8)) % 8; // address = 1 modulo 8
        shifted[off..off + bytes.len()].copy_from_slice(bytes);
        match guarded(|| decompress_deflate_stream(&shifted[off..off + bytes.len()], false, 0)) {
            Ok(Ok(r2)) if r2.plain_text == *plain && r2.prediction_corrections == *corr && r2.compressed_size == *size => {}
            _ => o.viol.push(Viol { prop: "C02", sig: "address-dependence".into(), why: "the result changes when the same bytes lie at another address (modulo 8)".into() }),
        }
    }

    // C03: agreement with the independent decoder
    if let Some((plain, _, size)) = &results[0] {
        if z.ok {
            if *plain != z.plain {
                let at = plain.iter().zip(z.plain.iter()).position(|(a, b)| a != b).unwrap_or(plain.len().min(z.plain.len()));
                o.viol.push(Viol { prop: "C03", sig: "plaintext-differs".into(), why: format!("plain_text differs from zlib's output at byte {} ({} vs {} bytes)", at, plain.len(), z.plain.len()) });
            } else if *size != z.consumed {
                o.viol.push(Viol { prop: "C03", sig: "consumed-differs".into(), why: format!("compressed_size {} but zlib consumed {}", size, z.consumed) });
            }
        }
        o.nontrivial = plain.len() > 0;
    }

    // C07 (and the parser half of C03/C05): parser and writer without the predictor
    match guarded(|| verif::parse_and_rewrite(bytes)) {
        Err(p) => o.viol.push(Viol { prop: "C07", sig: panic_sig(&p), why: format!("parse_and_rewrite panicked: {}", p) }),
        Ok(Err(_)) => {
            if expect.is_some() {
                // a stream RFC 1951 and zlib accept but the parser refuses: allowed (C03 and
                // C07 are conditional on acceptance) but reported so that it cannot hide
                o.lib = format!("{}+parse-rejects-valid", o.lib);
            }
        }
        Ok(Ok((rew, consumed, plain))) => {
            if consumed > bytes.len() || rew[..] != bytes[..consumed] {
                let at = rew.iter().zip(bytes.iter()).position(|(a, b)| a != b).unwrap_or(rew.len().min(consumed));
                o.viol.push(Viol { prop: "C07", sig: "rewrite-differs".into(), why: format!("parse then re-serialise differs from the input at byte {} of {} (rewritten {} bytes)", at, consumed, rew.len()) });
            }
            if z.ok && (plain != z.plain || consumed != z.consumed) {
                o.viol.push(Viol { prop: "C03", sig: "parser-plaintext-differs".into(), why: "the parser's plaintext or consumed length differs from zlib's".into() });
            }
        }
    }

    // spec -> impl: the parser must report exactly the blocks and tokens the behaviour denotes
    if let Some(e) = expect {
        if let Ok(Ok(t)) = guarded(|| verif::parse(bytes)) {
            let ok = t.blocks.len() == e.blocks.len()
                && t.blocks.iter().zip(e.blocks.iter()).all(|(p, x)| block_matches(x, p))
                && t.plain == e.plain
                && t.consumed == e.consumed;
            if !ok {
                let which = t.blocks.iter().zip(e.blocks.iter()).position(|(p, x)| !block_matches(x, p));
                o.viol.push(Viol { prop: "C03", sig: "parse-differs-from-spec".into(), why: format!("the parser's blocks/tokens differ from the behaviour the specification generated (first differing block {:?}, plain {} vs {}, consumed {} vs {})", which, t.plain.len(), e.plain.len(), t.consumed, e.consumed) });
            }
        }
    }
    o
}

/// check_stream in a forked child with memory and CPU limits: what dies there (abort, stack
/// overflow, runaway allocation, endless loop) is a C05 outcome, not the end of the harness.
/// Only used to find the culprit after the in-process run was killed.
/// deaths seen by check_stream_isolated in this process: after a handful the isolated mode has
/// named its culprits and the remaining cases are skipped (each death costs the CPU limit)
static DEATHS: std::sync::atomic::AtomicUsize = std::sync::atomic::AtomicUsize::new(0);

pub fn check_stream_isolated(bytes: &[u8], seed: u64) -> Outcome {
    if DEATHS.load(std::sync::atomic::Ordering::SeqCst) >= 6 {
        let mut o = Outcome::default();
        o.lib = "skipped".into();
        return o;
    }
    let r = isolated(6 << 30, 10, || {
        let mut rng = Rng::new(seed);
        let o = check_stream(bytes, None, &mut rng);
        outcome_json("x", "x", bytes, &o, false).to_string().into_bytes()
    });
    match r {
        Ok(b) => {
            let j: Value = serde_json::from_slice(&b).unwrap_or(Value::Null);
            let mut o = Outcome::default();
            o.lib = j["lib"].as_str().unwrap_or("").to_string();
            o.zlib_ok = j["zlib_ok"].as_bool().unwrap_or(false);
            o.nontrivial = j["nontrivial"].as_bool().unwrap_or(false);
            for v in j["viol"].as_array().cloned().unwrap_or_default() {
                let prop: &'static str = match v["prop"].as_str().unwrap_or("") { "C02" => "C02", "C03" => "C03", "C07" => "C07", _ => "C05" };
                o.viol.push(Viol { prop, sig: v["sig"].as_str().unwrap_or("").to_string(), why: v["why"].as_str().unwrap_or("").to_string() });
            }
            o
        }
        Err(how) => {
            DEATHS.fetch_add(1, std::sync::atomic::Ordering::SeqCst);
            let mut o = Outcome::default();
            o.lib = "died".into();
            o.viol.push(Viol { prop: "C05", sig: "process-died".into(), why: format!("the call did not return: the process running it was {}", how) });
            o
        }
    }
}

fn outcome_json(id: &str, label: &str, bytes: &[u8], o: &Outcome, keep_bytes: bool) -> Value {
    json!({
        "kind": "case", "id": id, "label": label, "lib": o.lib, "zlib_ok": o.zlib_ok,
        "len": bytes.len(), "plain_len": o.plain_len, "corr_len": o.corr_len, "nontrivial": o.nontrivial,
        "model_error": o.model_error,
        "viol": o.viol.iter().map(|v| json!({"prop": v.prop, "sig": v.sig, "why": v.why})).collect::<Vec<_>>(),
        "hex": if keep_bytes { Value::String(hex(bytes)) } else { Value::Null },
    })
}

/// spec -> impl for Gen_Deflate behaviours
pub fn replay(args: &Args) -> i32 {
    quiet_panics();
    let f = std::fs::File::open(args.req("in")).unwrap();
    let lines: Vec<String> = std::io::BufReader::new(f).lines().map(|l| l.unwrap()).filter(|l| !l.trim().is_empty()).collect();
    let out = Mutex::new(std::io::BufWriter::new(std::fs::File::create(args.req("out")).unwrap()));
    let threads = args.num("threads", 8) as usize;
    let isolate = args.get("isolate").is_some();
    // (in isolation the child's CPU limit ends a runaway call; the watchdog is only the last resort)
    let limit = if isolate { 900 } else { args.num("limit", 60) };
    let out_path = args.req("out").to_string();
    let wd = Watchdog::start(threads, std::time::Duration::from_secs(limit), Box::new(move |id| {
        let mut f = std::fs::OpenOptions::new().append(true).open(&out_path).unwrap();
        writeln!(f, "{}", json!({"kind":"timeout","id":id})).unwrap();
    }));
    par_for(lines.len(), if isolate { 1 } else { threads }, |i, w| {
        let case: Value = serde_json::from_str(&lines[i]).unwrap();
        let id = format!("g{}", i);
        wd.enter(w, &id);
        let bytes = pack_fields(&case["fields"]);
        let e = expectation(&case);
        let mut rng = Rng::new(i as u64);
        let o = if isolate { check_stream_isolated(&bytes, i as u64) } else { check_stream(&bytes, Some(&e), &mut rng) };
        wd.leave(w);
        let feat = case["feat"].clone();
        let mut j = outcome_json(&id, "generated", &bytes, &o, !o.viol.is_empty() || o.model_error.is_some());
        j["feat"] = feat;
        let mut g = out.lock().unwrap();
        writeln!(g, "{}", j).unwrap();
        g.flush().unwrap();
    });
    0
}

// ------------------------------------------------------------------ traces

fn tok_json(t: &Tok) -> Value {
    match t {
        Tok::Lit(v) => json!([0, v, 0, 0]),
        Tok::Ref { len, dist, irregular258 } => json!([1, len, dist, *irregular258 as u32]),
    }
}

fn hook_item(it: &(u8, u8)) -> Value {
    match it.0 {
        0 => json!([it.1, 0]),
        16 => json!([16, it.1.wrapping_sub(3)]),
        17 => json!([17, it.1.wrapping_sub(3)]),
        _ => json!([18, it.1.wrapping_sub(11)]),
    }
}

/// writes the parser trace of one stream (events for Trace_Deflate)
pub fn write_parse_trace(out: &mut impl Write, run: usize, label: &str, bytes: &[u8]) {
    let z = gen::zlib_inflate_raw(bytes, 64 << 20);
    let r = guarded(|| verif::parse(bytes));
    let ints = |b: &[u8]| Value::Array(b.iter().map(|x| json!(x)).collect());
    match r {
        Err(p) => {
            writeln!(out, "{}", event("Reset", json!({"run":run,"label":label,"lib":"panic","bytes":[],"plain":[],"zok":z.ok,"zconsumed":z.consumed,"zeq":false}))).unwrap();
            writeln!(out, "{}", event("Panic", json!({"msg":p}))).unwrap();
        }
        Ok(Err(e)) => {
            writeln!(out, "{}", event("Reset", json!({"run":run,"label":label,"lib":format!("err:{:?}", e.exit_code()),"bytes":[],"plain":[],"zok":z.ok,"zconsumed":z.consumed,"zeq":false}))).unwrap();
            writeln!(out, "{}", event("Rejected", json!({}))).unwrap();
        }
        Ok(Ok(t)) => {
            let used = &bytes[..t.consumed.min(bytes.len())];
            writeln!(out, "{}", event("Reset", json!({"run":run,"label":label,"lib":"ok","bytes":ints(used),"plain":ints(&t.plain),
                "zok":z.ok,"zconsumed":z.consumed,"zeq": z.plain == t.plain}))).unwrap();
            let nb = t.blocks.len();
            for (i, b) in t.blocks.iter().enumerate() {
                let fin = (i + 1 == nb) as u32;
                match b.block_type {
                    0 => writeln!(out, "{}", event("Stored", json!({"final":fin,"pad":b.padding_bits,"len":b.stored.len()}))).unwrap(),
                    1 => writeln!(out, "{}", event("Fixed", json!({"final":fin}))).unwrap(),
                    _ => writeln!(out, "{}", event("Dyn", json!({"final":fin,"hlit":b.hlit,"hdist":b.hdist,"hclen":b.hclen,
                            "cl":ints(&b.code_lengths),"items":b.items.iter().map(hook_item).collect::<Vec<_>>()}))).unwrap(),
                }
                if b.block_type != 0 {
                    for chunk in b.tokens.chunks(8) {
                        writeln!(out, "{}", event("T", json!({"toks":chunk.iter().map(tok_json).collect::<Vec<_>>()}))).unwrap();
                    }
                    writeln!(out, "{}", event("Eob", json!({}))).unwrap();
                }
            }
            writeln!(out, "{}", event("End", json!({"pad":t.eof_padding,"consumed":t.consumed,"plain_len":t.plain.len()}))).unwrap();
        }
    }
}

/// a driver stream with its provenance
pub struct Driven {
    pub label: String,
    pub bytes: Vec<u8>,
}

/// compressor outputs over structured random plaintexts, the repository's
/// samples, and mutations of both
pub fn driver_streams(rng: &mut Rng, n: usize, maxlen: usize, mutants_per: usize) -> Vec<Driven> {
    let mut v = Vec::new();
    let mut prev: Vec<u8> = vec![1, 2, 3];
    for _ in 0..n {
        let (pname, plain) = gen::plaintext(rng, maxlen);
        let (cname, stream) = gen::compress_random(rng, &plain);
        for _ in 0..mutants_per {
            let (m, b) = gen::mutate(rng, &stream, &prev);
            v.push(Driven { label: format!("{}/{}/{}", pname, cname, m), bytes: b });
        }
        prev = stream.clone();
        v.push(Driven { label: format!("{}/{}", pname, cname), bytes: stream });
    }
    for (label, s) in gen::window_edge_streams(rng) {
        v.push(Driven { label, bytes: s });
    }
    for (label, s) in gen::big_block_streams(rng, maxlen >= 40000) {
        v.push(Driven { label, bytes: s });
    }
    for (label, s) in gen::reshift_edge_streams(rng, maxlen > 40000) {
        v.push(Driven { label, bytes: s });
    }
    for (label, s) in gen::deep_chain_streams() {
        v.push(Driven { label, bytes: s });
    }
    v
}

pub fn sample_streams() -> Vec<Driven> {
    let mut v = Vec::new();
    let dir = "/repo/samples";
    if let Ok(rd) = std::fs::read_dir(dir) {
        let mut names: Vec<_> = rd.filter_map(|e| e.ok()).map(|e| e.path()).collect();
        names.sort();
        for p in names {
            if p.extension().map(|e| e == "deflate").unwrap_or(false) {
                if let Ok(b) = std::fs::read(&p) {
                    v.push(Driven { label: format!("sample/{}", p.file_name().unwrap().to_string_lossy()), bytes: b });
                }
            }
        }
    }
    v
}

/// impl -> spec and public-API obligations on driver streams.  Writes one
/// result line per stream, and parser traces for the first --traces streams
/// whose consumed length is at most --tracemax bytes.
pub fn record(args: &Args) -> i32 {
    quiet_panics();
    let seed = args.num("seed", 1);
    let n = args.num("streams", 40) as usize;
    let maxlen = args.num("maxlen", 100000) as usize;
    let mutants = args.num("mutants", 3) as usize;
    let ntraces = args.num("traces", 20) as usize;
    let tracemax = args.num("tracemax", 30000) as usize;
    let threads = args.num("threads", 8) as usize;
    let mut rng = Rng::new(seed ^ 0xD3F1);
    let mut streams = driver_streams(&mut rng, n, maxlen, mutants);
    if let Some(dir) = args.get("corpus") {
        if let Ok(rd) = std::fs::read_dir(dir) {
            let mut files: Vec<_> = rd.filter_map(|e| e.ok()).map(|e| e.path()).filter(|p| p.extension().map(|e| e == "hex").unwrap_or(false)).collect();
            files.sort();
            for p in files {
                if let Ok(txt) = std::fs::read_to_string(&p) {
                    for (i, l) in txt.lines().enumerate() {
                        if !l.trim().is_empty() {
                            streams.push(Driven { label: format!("corpus/{}#{}", p.file_name().unwrap().to_string_lossy(), i), bytes: unhex(l.trim()) });
                        }
                    }
                }
            }
        }
    }
    let sw = args.num("sweeps", 0) as usize;
    if sw > 0 {
        for (label, bytes) in gen::sweep_streams(&mut rng, sw, args.num("window", 40) as usize) {
            streams.push(Driven { label, bytes });
        }
    }
    if args.get("samples").is_some() {
        let s = sample_streams();
        for d in &s {
            let (m, b) = gen::mutate(&mut rng, &d.bytes, &[0x55, 0xaa]);
            streams.push(Driven { label: format!("{}/{}", d.label, m), bytes: b });
        }
        streams.extend(s);
    }
    let out = Mutex::new(std::io::BufWriter::new(std::fs::File::create(args.req("out")).unwrap()));
    let out_path = args.req("out").to_string();
    let wd = Watchdog::start(threads, std::time::Duration::from_secs(args.num("limit", 120)), Box::new(move |id| {
        let mut f = std::fs::OpenOptions::new().append(true).open(&out_path).unwrap();
        writeln!(f, "{}", json!({"kind":"timeout","id":id})).unwrap();
    }));
    let isolate = args.get("isolate").is_some();
    let died: Mutex<std::collections::HashSet<usize>> = Mutex::new(std::collections::HashSet::new());
    par_for(streams.len(), if isolate { 1 } else { threads }, |i, w| {
        let id = format!("d{}", i);
        if !isolate { wd.enter(w, &id); }
        let mut r = Rng::new(seed.wrapping_mul(7919) + i as u64);
        let o = if isolate { check_stream_isolated(&streams[i].bytes, seed.wrapping_mul(7919) + i as u64) } else { check_stream(&streams[i].bytes, None, &mut r) };
        wd.leave(w);
        if o.lib == "died" || o.lib == "skipped" { died.lock().unwrap().insert(i); }
        let j = outcome_json(&id, &streams[i].label, &streams[i].bytes, &o, !o.viol.is_empty());
        let mut g = out.lock().unwrap();
        writeln!(g, "{}", j).unwrap();
    });
    out.lock().unwrap().flush().unwrap();
    if let Some(tp) = args.get("trace") {
        let mut t = std::io::BufWriter::new(std::fs::File::create(tp).unwrap());
        let mut cases = std::io::BufWriter::new(std::fs::File::create(format!("{}.cases", tp)).unwrap());
        let mut k = 0;
        for (di, d) in streams.iter().enumerate() {
            if k >= ntraces {
                break;
            }
            if d.bytes.len() > tracemax || died.lock().unwrap().contains(&di) {
                continue;
            }
            writeln!(cases, "{}", json!({"run":k,"label":d.label,"hex":hex(&d.bytes)})).unwrap();
            write_parse_trace(&mut t, k, &d.label, &d.bytes);
            k += 1;
        }
    }
    0
}

/// parser traces of the generated streams (the spec validating its own
/// generator through the real parser closes the loop in both directions)
pub fn trace_generated(args: &Args) -> i32 {
    quiet_panics();
    let f = std::fs::File::open(args.req("in")).unwrap();
    let mut t = std::io::BufWriter::new(std::fs::File::create(args.req("trace")).unwrap());
    let mut cases = std::io::BufWriter::new(std::fs::File::create(format!("{}.cases", args.req("trace"))).unwrap());
    let max = args.num("max", 50) as usize;
    for (k, line) in std::io::BufReader::new(f).lines().enumerate() {
        if k >= max {
            break;
        }
        let case: Value = serde_json::from_str(&line.unwrap()).unwrap();
        let bytes = pack_fields(&case["fields"]);
        writeln!(cases, "{}", json!({"run":k,"label":"generated","hex":hex(&bytes)})).unwrap();
        write_parse_trace(&mut t, k, "generated", &bytes);
    }
    0
}

/// one saved case (hex) through check_stream
pub fn replay_hex(args: &Args) -> i32 {
    quiet_panics();
    let bytes = unhex(args.req("hex"));
    let mut rng = Rng::new(1);
    let o = check_stream(&bytes, None, &mut rng);
    println!("{}", outcome_json("replay", "replay", &bytes, &o, false));
    0
}

/// C05: every byte string up to a length, both verify flags; only panics and
/// hangs are of interest
pub fn exhaustive_short(args: &Args) -> i32 {
    quiet_panics();
    let maxlen = args.num("maxlen", 2) as usize;
    let threads = args.num("threads", 8) as usize;
    let out = Mutex::new(std::fs::File::create(args.req("out")).unwrap());
    let total: u64 = (0..=maxlen).map(|l| 256u64.pow(l as u32)).sum();
    // split by the first byte (and length)
    let counts = Mutex::new((0u64, 0u64, 0u64)); // evaluations, ok, panics
    // a call that does not come back: every worker publishes the string it is working on; a string
    // that takes longer than the limit is written out as a timeout record and the run ends (status 3)
    let current: std::sync::Arc<Vec<Mutex<Option<(Vec<u8>, std::time::Instant)>>>> = std::sync::Arc::new((0..threads.max(1)).map(|_| Mutex::new(None)).collect());
    {
        let current = current.clone();
        let limit = std::time::Duration::from_secs(args.num("limit", 30));
        let out_path = args.req("out").to_string();
        std::thread::spawn(move || loop {
            std::thread::sleep(std::time::Duration::from_millis(500));
            for slot in current.iter() {
                if let Some((b, t)) = &*slot.lock().unwrap() {
                    if t.elapsed() > limit {
                        let mut f = std::fs::OpenOptions::new().append(true).open(&out_path).unwrap();
                        writeln!(f, "{}", json!({"kind":"timeout","id":format!("x{}", hex(b)),"hex":hex(b)})).unwrap();
                        std::process::exit(3);
                    }
                }
            }
        });
    }
    for len in 0..=maxlen {
        let n = 256u64.pow(len as u32);
        let chunks = if len == 0 { 1 } else { 256 };
        par_for(chunks as usize, threads, |c, w| {
            let per = n / chunks;
            let mut buf = vec![0u8; len];
            let (mut ev, mut okc, mut pc) = (0u64, 0u64, 0u64);
            for k in 0..per {
                let mut x = c as u64 * per + k;
                for i in (0..len).rev() {
                    buf[i] = (x & 255) as u8;
                    x >>= 8;
                }
                *current[w % current.len()].lock().unwrap() = Some((buf.clone(), std::time::Instant::now()));
                for verify in [false, true] {
                    ev += 1;
                    match guarded(|| decompress_deflate_stream(&buf, verify, 0)) {
                        Err(p) => {
                            pc += 1;
                            if pc < 4 {
                                let mut g = out.lock().unwrap();
                                writeln!(g, "{}", json!({"kind":"case","id":format!("x{}", hex(&buf)),"label":"exhaustive","lib":"panic","hex":hex(&buf),
                                    "viol":[{"prop":"C05","sig":panic_sig(&p),"why":format!("decompress_deflate_stream(verify={}) panicked: {}", verify, p)}]})).unwrap();
                            }
                        }
                        Ok(Ok(_)) => okc += 1,
                        Ok(Err(_)) => {}
                    }
                }
            }
            *current[w % current.len()].lock().unwrap() = None;
            let mut g = counts.lock().unwrap();
            g.0 += ev;
            g.1 += okc;
            g.2 += pc;
        });
    }
    let g = counts.lock().unwrap();
    writeln!(out.lock().unwrap(), "{}", json!({"kind":"summary","strings":total,"evaluations":g.0,"accepted":g.1,"panics":g.2})).unwrap();
    0
}

/// generated behaviours -> one hex line per stream
pub fn pack(args: &Args) -> i32 {
    let f = std::fs::File::open(args.req("in")).unwrap();
    let mut out = std::io::BufWriter::new(std::fs::File::create(args.req("out")).unwrap());
    for line in std::io::BufReader::new(f).lines() {
        let line = line.unwrap();
        if line.trim().is_empty() {
            continue;
        }
        let case: Value = serde_json::from_str(&line).unwrap();
        writeln!(out, "{}", hex(&pack_fields(&case["fields"]))).unwrap();
    }
    0
}

/// debugging aid: parameters and the last tokens of streams from the sweep driver
pub fn info(args: &Args) -> i32 {
    quiet_panics();
    let mut rng = Rng::new(args.num("seed", 1));
    let v = gen::sweep_streams(&mut rng, args.num("sweeps", 8) as usize, args.num("window", 2) as usize);
    for (label, s) in v.iter() {
        if !label.ends_with("cut0") {
            continue;
        }
        let t = verif::analyse_trace(s);
        let last: Vec<String> = t.parse.as_ref().map(|p| p.blocks.last().map(|b| b.tokens.iter().rev().take(4).rev().map(|t| format!("{:?}", t)).collect()).unwrap_or_default()).unwrap_or_default();
        println!("{} params={:?} err={:?} last={:?}", label, t.params, t.error, last);
    }
    0
}

/// spec -> impl for Positions.tla: streams in which a maximal match starts exactly at a
/// critical plaintext position and a short match follows it, written by zlib at lazy levels.
/// A case counts as realised only if the parse really has a 258-byte token starting there.
pub fn critical_positions(args: &Args) -> i32 {
    quiet_panics();
    let txt = std::fs::read_to_string(args.req("in")).unwrap();
    let v: Value = serde_json::from_str(txt.lines().next().unwrap_or("{}")).unwrap();
    let positions: Vec<usize> = v["critical"].as_array().map(|a| a.iter().map(|x| x.as_u64().unwrap() as usize).collect()).unwrap_or_default();
    let mut out = std::io::BufWriter::new(std::fs::File::create(args.req("out")).unwrap());
    let mut rng = Rng::new(args.num("seed", 1) ^ 0x9051);
    let mut realised = 0;
    let mut k = 0;
    for &p in positions.iter() {
        let near = args.num("near", 1) as i64;
        for neighbour in std::iter::once(0i64).chain((1..=near).flat_map(|d| [-d, d])) {
            let p = (p as i64 + neighbour) as usize;
            for level in [9, 6] {
                // text-like filler (a small vocabulary: plenty of ordinary matches, so that the estimator
                // sees the compressor's habits), 9 bytes that match nothing right before p (a token
                // boundary at p), the 258-byte copy at p, its first bytes again right behind it (a short
                // match where the lazy search looks one byte further), and a piece of its interior later
                let vocab: Vec<Vec<u8>> = (0..150).map(|_| (0..rng.range(2, 9)).map(|_| b'a' + rng.below(26) as u8).collect()).collect();
                let mut text: Vec<u8> = Vec::new();
                while text.len() < p + 258 + 2000 {
                    let wi = rng.below(vocab.len() as u64) as usize; text.extend_from_slice(&vocab[wi]);
                    text.push(*rng.pick(&[b' ', b' ', b' ', b',', b'.', b'\n']));
                }
                let src = p - 1000;
                for i in 0..9 { text[p - 9 + i] = 0x80 + ((p + i * 7) % 120) as u8; }
                let x: Vec<u8> = text[src..src + 258].to_vec();
                text[p..p + 258].copy_from_slice(&x);
                let short = 3 + (k % 3);
                text[p + 258..p + 258 + short].copy_from_slice(&x[..short]);
                text[p + 258 + short] = 0xfe;
                text[p + 258 + short + 1] = 0xfd;
                let again = p + 258 + 700;
                text[again] = 0xfc;
                text[again + 1..again + 41].copy_from_slice(&x[100..140]);
                text[again + 41] = 0xfb;
                let s = gen::zlib_raw(&text, level, 0, 15, 8);
                let mut is_realised = false;
                if let Ok(Ok(parse)) = guarded(|| verif::parse(&s)) {
                    let mut at = 0usize;
                    'outer: for b in parse.blocks.iter() {
                        at += b.stored.len();
                        for t in b.tokens.iter() {
                            let l = match t { Tok::Lit(_) => 1, Tok::Ref { len, .. } => *len as usize };
                            if at == p && l == 258 { is_realised = true; break 'outer; }
                            at += l;
                            if at > p { break 'outer; }
                        }
                    }
                }
                if is_realised { realised += 1; }
                let mut o = check_stream(&s, None, &mut rng);
                // the same stream on a thread with a small stack (128 KiB: the default of some C
                // libraries for threads, and what a host may give the threads that call into the
                // library), in a child process because a stack overflow takes the process down
                if neighbour == 0 && level == 9 {
                    let r = isolated(2 << 30, 20, || {
                        let h = std::thread::Builder::new().stack_size(128 << 10).spawn({
                            let s = s.clone();
                            move || { let _ = guarded(|| preflate_rs::decompress_deflate_stream(&s, true, 0).is_ok()); }
                        });
                        match h { Ok(h) => { let _ = h.join(); vec![1u8] } Err(_) => vec![2u8] }
                    });
                    if let Err(how) = r {
                        o.viol.push(Viol { prop: "C05", sig: "small-stack".into(), why: format!("on a thread with 128 KiB of stack the call did not return: the process running it was {}", how) });
                    }
                }
                let id = format!("p{}", k);
                k += 1;
                let mut j = outcome_json(&id, &format!("critical-position/{}/zlib:l{}", p, level), &s, &o, !o.viol.is_empty());
                j["realised"] = json!(is_realised);
                j["params"] = json!(guarded(|| verif::estimate(&s)).ok().and_then(|r| r.ok()));
                writeln!(out, "{}", j).unwrap();
            }
        }
    }
    writeln!(out, "{}", json!({"kind":"summary","cases":k,"realised":realised})).unwrap();
    0
}

/// prints what the library's parser makes of one stream (blocks, tokens, plaintext) next to
/// zlib's inflate output: for looking at a replay file by hand
pub fn dump(args: &Args) -> i32 {
    quiet_panics();
    let bytes = unhex(args.req("hex"));
    let z = gen::zlib_inflate_raw(&bytes, 1 << 26);
    println!("zlib: ok={} consumed={} plain={}", z.ok, z.consumed, hex(&z.plain[..z.plain.len().min(400)]));
    match guarded(|| verif::parse(&bytes)) {
        Ok(Ok(p)) => {
            println!("lib:  consumed={} plain={}", p.consumed, hex(&p.plain[..p.plain.len().min(400)]));
            for (i, b) in p.blocks.iter().enumerate() {
                println!("block {} type={} hlit={} hdist={} hclen={} ntok={} first tokens {:?}", i, b.block_type, b.hlit, b.hdist, b.hclen,
                    b.tokens.len(), b.tokens.iter().take(12).collect::<Vec<_>>());
                println!("   items {:?}", b.items);
            }
        }
        Ok(Err(e)) => println!("lib:  Err {:?}", e),
        Err(p) => println!("lib:  panic {}", p),
    }
    0
}

/// spec -> impl for the catalogue of MC_Deflate: every production of the
/// grammar, every way it can fail, and end of input inside every field
pub fn edge_replay(args: &Args) -> i32 {
    quiet_panics();
    let f = std::fs::File::open(args.req("in")).unwrap();
    let mut out = std::io::BufWriter::new(std::fs::File::create(args.req("out")).unwrap());
    // a call that does not come back: the watchdog ends the run (status 3) and the driver repeats
    // it with --isolate, every case in a child process of its own
    let isolate = args.get("isolate").is_some();
    let out_path = args.req("out").to_string();
    let wd = Watchdog::start(1, std::time::Duration::from_secs(if isolate { 3600 } else { args.num("limit", 60) }), Box::new(move |id| {
        let mut f = std::fs::OpenOptions::new().append(true).open(&out_path).unwrap();
        writeln!(f, "{}", json!({"kind":"timeout","id":id})).unwrap();
    }));
    for (i, line) in std::io::BufReader::new(f).lines().enumerate() {
        let line = line.unwrap();
        if line.trim().is_empty() {
            continue;
        }
        let case: Value = serde_json::from_str(&line).unwrap();
        let bytes: Vec<u8> = case["bytes"].as_array().unwrap().iter().map(|x| x.as_u64().unwrap() as u8).collect();
        let accept = case["verdict"].as_str() == Some("accept");
        out.flush().unwrap();
        wd.enter(0, &format!("e{}", i));
        let z = gen::zlib_inflate_raw(&bytes, 1 << 20);
        let mut model_error: Option<String> = None;
        if z.ok != accept {
            model_error = Some(format!("specification says {} ({}) but zlib says ok={}", case["verdict"], case["reason"], z.ok));
        } else if accept && (z.consumed as u64 != case["consumed"].as_u64().unwrap() || z.plain.len() as u64 != case["plain"].as_u64().unwrap()) {
            model_error = Some(format!("specification and zlib disagree on consumed / plaintext length ({} / {} vs {} / {})", case["consumed"], case["plain"], z.consumed, z.plain.len()));
        }
        let mut rng = Rng::new(i as u64);
        let mut o = if isolate { check_stream_isolated(&bytes, i as u64) } else { check_stream(&bytes, None, &mut rng) };
        o.model_error = model_error;
        // what the real parser reports for inputs the specification accepts
        if accept && o.lib != "died" && o.lib != "skipped" {
            if let Ok(Ok(t)) = guarded(|| verif::parse(&bytes)) {
                let want: Vec<(u8, Vec<Value>)> = case["blocks"].as_array().unwrap().iter().map(|b| (b["type"].as_u64().unwrap() as u8, b["toks"].as_array().unwrap().clone())).collect();
                let got: Vec<(u8, Vec<Value>)> = t.blocks.iter().map(|b| (b.block_type, b.tokens.iter().map(tok_json).collect())).collect();
                if want != got {
                    o.viol.push(Viol { prop: "C03", sig: "parse-differs-from-spec".into(), why: format!("the parser's blocks/tokens differ from the specification's on catalogue entry {}", case["name"]) });
                }
            }
        }
        let libok = o.lib.starts_with("ok");
        let mut j = outcome_json(&format!("e{}", i), &format!("{}@{}", case["name"].as_str().unwrap_or(""), case["cut"]), &bytes, &o, true);
        j["spec"] = json!({"verdict": case["verdict"], "reason": case["reason"], "lenient": case["lenient"], "whole": case["whole"]});
        j["leniency"] = json!(!accept && libok);
        writeln!(out, "{}", j).unwrap();
        wd.leave(0);
    }
    0
}

// ---------------------------------------------------------------- all pairs

struct BitSink {
    out: Vec<u8>,
    acc: u64,
    n: u32,
}

impl BitSink {
    fn put(&mut self, v: u64, nbits: u32, msb: bool) {
        for i in 0..nbits {
            let bit = if msb { (v >> (nbits - 1 - i)) & 1 } else { (v >> i) & 1 };
            self.acc |= bit << self.n;
            self.n += 1;
            if self.n == 8 {
                self.out.push(self.acc as u8);
                self.acc = 0;
                self.n = 0;
            }
        }
    }
    fn fields(&mut self, fs: &Value) {
        for f in fs.as_array().unwrap() {
            let v = f[0].as_u64().unwrap();
            let nb = f[1].as_u64().unwrap() as u32;
            let kind = f[2].as_u64().unwrap();
            let rep = f.get(3).and_then(|x| x.as_u64()).unwrap_or(1);
            if kind == 2 {
                assert_eq!(self.n, 0);
                for i in 1..=rep {
                    self.out.push(varied(v, i));
                }
            } else {
                for _ in 0..rep {
                    self.put(v, nb, kind == 1);
                }
            }
        }
    }
    fn finish(mut self) -> Vec<u8> {
        if self.n > 0 {
            self.out.push(self.acc as u8);
        }
        self.out
    }
}

/// C03 / C07 thorough: every (length, distance, spelling of 258) pair under the
/// fixed code and under a dynamic code, composed from the specification's tables
pub fn pairs_replay(args: &Args) -> i32 {
    quiet_panics();
    let t: Value = serde_json::from_str(&std::fs::read_to_string(args.req("tables")).unwrap()).unwrap();
    let per = args.num("per", 4096) as usize;
    let stride = args.num("stride", 1) as usize; // quick: every stride-th distance
    let threads = args.num("threads", 12) as usize;
    let lens: Vec<(usize, u32, u64)> = t["lens"].as_array().unwrap().iter().map(|r| (r[0].as_u64().unwrap() as usize, r[1].as_u64().unwrap() as u32, r[2].as_u64().unwrap())).collect();
    let dists: Vec<(usize, u32, u64)> = t["dists"].as_array().unwrap().iter().map(|r| (r[0].as_u64().unwrap() as usize, r[1].as_u64().unwrap() as u32, r[2].as_u64().unwrap())).collect();
    let irr = (t["irr258"][0].as_u64().unwrap() as usize, t["irr258"][1].as_u64().unwrap() as u32, t["irr258"][2].as_u64().unwrap());
    let seed = t["prefix_seed"].as_u64().unwrap();
    let plen = t["prefix_len"].as_u64().unwrap();
    let prefix_plain: Vec<u8> = (1..=plen).map(|i| varied(seed, i)).collect();
    // all pairs in a fixed order: (len index 0..256 where 256 = the irregular 258, distance)
    let mut pairs: Vec<(u16, u16)> = Vec::new();
    for d in (1..=32768usize).step_by(stride) {
        for l in 0..=256usize {
            pairs.push((l as u16, d as u16));
        }
    }
    let nstreams = (pairs.len() + per - 1) / per;
    let out = Mutex::new(std::io::BufWriter::new(std::fs::File::create(args.req("out")).unwrap()));
    let counts = Mutex::new((0u64, 0u64)); // pairs checked, violations
    for code in ["fixed", "dyn"] {
        let c = &t[code];
        let tab = |k: &str| -> Vec<u64> { c[k].as_array().unwrap().iter().map(|x| x.as_u64().unwrap()).collect() };
        let (lc, ll, dc, dl) = (tab("lc"), tab("ll"), tab("dc"), tab("dl"));
        par_for(nstreams, threads, |si, _| {
            let chunk = &pairs[si * per..((si + 1) * per).min(pairs.len())];
            let mut b = BitSink { out: Vec::new(), acc: 0, n: 0 };
            b.fields(&t["prefix"]);
            b.fields(&c["hdr"]);
            let mut plain = prefix_plain.clone();
            let mut toks: Vec<Tok> = Vec::with_capacity(chunk.len());
            for &(li, d) in chunk {
                let (len, row, irregular) = if li == 256 { (258usize, irr, true) } else { (li as usize + 3, lens[li as usize], false) };
                let dr = dists[d as usize - 1];
                b.put(lc[row.0], ll[row.0] as u32, true);
                b.put(row.2, row.1, false);
                b.put(dc[dr.0], dl[dr.0] as u32, true);
                b.put(dr.2, dr.1, false);
                toks.push(Tok::Ref { len: len as u32, dist: d as u32, irregular258: irregular });
                let start = plain.len() - d as usize;
                for k in 0..len {
                    let x = plain[start + k];
                    plain.push(x);
                }
            }
            b.put(lc[256], ll[256] as u32, true);
            let bytes = b.finish();
            let mut why: Vec<(&str, String)> = Vec::new();
            let z = gen::zlib_inflate_raw(&bytes, 1 << 30);
            if !z.ok || z.plain != plain || z.consumed != bytes.len() {
                why.push(("MODEL", format!("zlib disagrees with the composed stream (ok={}, {} vs {} bytes)", z.ok, z.plain.len(), plain.len())));
            }
            match guarded(|| verif::parse(&bytes)) {
                Err(p) => why.push(("C05", format!("parser panicked: {}", p))),
                Ok(Err(e)) => why.push(("NOTE", format!("parser refuses a valid stream: {:?}", e.exit_code()))),
                Ok(Ok(tr)) => {
                    if tr.plain != plain || tr.consumed != bytes.len() {
                        why.push(("C03", "plaintext or consumed length differs from what the tokens denote".into()));
                    }
                    if tr.blocks.len() != 2 || tr.blocks[1].tokens != toks {
                        let at = tr.blocks.get(1).and_then(|b| b.tokens.iter().zip(toks.iter()).position(|(a, b)| a != b));
                        why.push(("C03", format!("the parser's tokens differ from the composed ones (first at {:?}: {:?})", at, at.map(|i| (&tr.blocks[1].tokens[i], &toks[i])))));
                    }
                }
            }
            match guarded(|| verif::parse_and_rewrite(&bytes)) {
                Err(p) => why.push(("C07", format!("parse_and_rewrite panicked: {}", p))),
                Ok(Err(_)) => {}
                Ok(Ok((rew, consumed, _))) => {
                    if consumed != bytes.len() || rew != bytes {
                        let at = rew.iter().zip(bytes.iter()).position(|(a, b)| a != b);
                        why.push(("C07", format!("parse then re-serialise differs from the input (first difference at byte {:?} of {})", at, bytes.len())));
                    }
                }
            }
            let mut g = counts.lock().unwrap();
            g.0 += chunk.len() as u64;
            for (prop, w) in why {
                g.1 += 1;
                if g.1 < 30 {
                    writeln!(out.lock().unwrap(), "{}", json!({"kind":"violation","prop":prop,"code":code,"first_pair":[chunk[0].0, chunk[0].1],"pairs":chunk.len(),"why":w,
                        "hex": if bytes.len() < 100000 { hex(&bytes) } else { String::new() }})).unwrap();
                }
            }
        });
    }
    let g = counts.lock().unwrap();
    writeln!(out.lock().unwrap(), "{}", json!({"kind":"summary","pairs":g.0,"streams":2 * nstreams,"problems":g.1,"stride":stride})).unwrap();
    0
}
