// C02 / C08 (and the frozen format of C04): the joint trace of one stream's
// analysis and reconstruction - parameter header, per block and per token the
// correction operations on the encode side and on the decode side, the
// predictor's state before every prediction on both sides, the tree
// corrections with the predicted code lengths - for validation against
// Stream.tla / TreePredict.tla / Params.tla.

use crate::util::*;
use preflate_rs::verif::{self, Op, ParsedBlock, PredictorState, Tok};
use serde_json::{json, Value};
use std::io::Write;

struct Seg {
    marker: String,
    ops: Vec<Op>,
}

fn segments(ops: &[Op]) -> Vec<Seg> {
    let mut v = vec![Seg { marker: "hdr".into(), ops: Vec::new() }];
    for o in ops {
        if let Op::State { msg, .. } = o {
            v.push(Seg { marker: msg.to_string(), ops: Vec::new() });
        } else {
            v.last_mut().unwrap().ops.push(o.clone());
        }
    }
    v
}

/// [kind, role name of the context ("" for plain values), value, width]
fn ops_json(ops: &[Op]) -> Value {
    Value::Array(ops.iter().map(|o| match o {
        Op::Value { v, bits } => json!(["V", "", v, bits]),
        Op::Mis { name, v, .. } => json!(["M", name, *v as u32, 0]),
        Op::Corr { name, v, .. } => json!(["C", name, v, 0]),
        Op::State { msg, v } => json!(["S", msg, v, 0]),
    }).collect())
}

fn block_json(b: &ParsedBlock, with_tokens: bool) -> Value {
    let ints = |x: &[u8]| Value::Array(x.iter().map(|v| json!(v)).collect());
    let item = |it: &(u8, u8)| json!([it.0, it.1]);
    json!({
        "type": b.block_type, "pad": b.padding_bits, "slen": b.stored.len(), "ntok": b.tokens.len(),
        "hlit": b.hlit, "hdist": b.hdist, "hclen": b.hclen, "cl": ints(&b.code_lengths),
        "items": b.items.iter().map(item).collect::<Vec<_>>(),
        "pl": ints(&b.pred_lit), "pd": ints(&b.pred_dist), "ptc": ints(&b.pred_tc),
        "toks": if with_tokens { Value::Array(b.tokens.iter().map(|t| match t {
            Tok::Lit(v) => json!([0, v, 0, 0]),
            Tok::Ref { len, dist, irregular258 } => json!([1, len, dist, *irregular258 as u32]),
        }).collect()) } else { json!([]) },
    })
}

/// writes the joint trace of one stream; returns false if the stream was not
/// analysed successfully (nothing to validate then)
pub fn write_stream_trace(out: &mut impl Write, run: usize, label: &str, bytes: &[u8]) -> bool {
    verif::predictor_log_start();
    let a = guarded(|| verif::analyse_trace(bytes));
    let astates: Vec<PredictorState> = verif::predictor_log_take();
    let a = match a {
        Ok(a) => a,
        Err(p) => {
            writeln!(out, "{}", event("Reset", json!({"run":run,"label":label,"lib":"panic","blocks":[],"params":[]}))).unwrap();
            writeln!(out, "{}", event("Panic", json!({"msg":p}))).unwrap();
            return false;
        }
    };
    if a.error.is_some() || a.parse.is_none() || a.params.is_none() {
        writeln!(out, "{}", event("Reset", json!({"run":run,"label":label,"lib":format!("err:{}", a.error.unwrap_or_default()),"blocks":[],"params":[]}))).unwrap();
        writeln!(out, "{}", event("Rejected", json!({}))).unwrap();
        return false;
    }
    let parse = a.parse.as_ref().unwrap();
    let params = a.params.as_ref().unwrap();
    // the hook shadows the public function: its correction bytes must be the public ones
    let public_same = match guarded(|| preflate_rs::decompress_deflate_stream(bytes, false, 0)) {
        Ok(Ok(r)) => r.prediction_corrections == a.corrections,
        _ => false,
    };
    // the reconstruction runs on a thread of its own: nothing the analysis may have left behind in its
    // thread (pools, caches) is there to help it
    let (d, rstates) = std::thread::scope(|sc| sc.spawn(|| {
        verif::predictor_log_start();
        let d = guarded(|| verif::reconstruct_trace(&parse.plain, &a.corrections));
        let rstates: Vec<PredictorState> = verif::predictor_log_take();
        (d, rstates)
    }).join().unwrap_or_else(|_| (Err("the reconstructing thread died".to_string()), Vec::new())));
    let d = match d {
        Ok(d) => d,
        Err(p) => {
            writeln!(out, "{}", event("Reset", json!({"run":run,"label":label,"lib":"ok","blocks":[],"params":params}))).unwrap();
            writeln!(out, "{}", event("ReconstructPanic", json!({"msg":p}))).unwrap();
            return true;
        }
    };
    let esegs = segments(&a.ops);
    let dsegs = segments(&d.ops);
    let nb = parse.blocks.len();
    writeln!(out, "{}", event("Reset", json!({
        "run":run,"label":label,"lib":"ok","params":params,"dparams":d.params.clone().unwrap_or_default(),
        "plain_len":parse.plain.len(),"eofpad":parse.eof_padding,"consumed":parse.consumed,"public_same":public_same,
        "nseg":esegs.len(),"ndseg":dsegs.len(),
        "blocks": parse.blocks.iter().map(|b| block_json(b, true)).collect::<Vec<_>>() }))).unwrap();
    // one event per segment, the decode side's segment next to the encode side's
    let mut ai = 0usize;
    let mut ri = 0usize;
    for (i, es) in esegs.iter().enumerate() {
        let ds = dsegs.get(i);
        let mut ev = json!({"m": es.marker, "eo": ops_json(&es.ops),
            "dm": ds.map(|s| s.marker.clone()).unwrap_or_else(|| "missing".into()),
            "do": ds.map(|s| ops_json(&s.ops)).unwrap_or(json!([]))});
        if es.marker == "token" {
            // predictor state at this token on both sides
            let st = |s: Option<&PredictorState>| s.map(|x| json!([x.pos, x.pending as u32, x.token_index])).unwrap_or(json!([0, 9, 0]));
            ev["ap"] = st(astates.get(ai));
            ev["rp"] = st(rstates.get(ri));
            ai += 1;
            ri += 1;
        }
        writeln!(out, "{}", event("Seg", ev)).unwrap();
    }
    let rebuilt_equal = match &d.result { Ok(b) => b[..] == bytes[..parse.consumed], Err(_) => false };
    let blocks_equal = d.blocks.len() == nb && d.blocks.iter().zip(parse.blocks.iter()).all(|(x, y)| {
        x.block_type == y.block_type && x.tokens == y.tokens && x.stored == y.stored && x.padding_bits == y.padding_bits
            && (x.block_type != 2 || (x.hlit == y.hlit && x.hdist == y.hdist && x.hclen == y.hclen && x.code_lengths == y.code_lengths && x.items == y.items))
    });
    writeln!(out, "{}", event("End", json!({"result": if d.result.is_ok() { "ok" } else { "err" }, "rebuilt_equal": rebuilt_equal,
        "blocks_equal": blocks_equal, "na": astates.len(), "nr": rstates.len(), "ai": ai, "ri": ri}))).unwrap();
    true
}

pub fn record(args: &Args) -> i32 {
    quiet_panics();
    let seed = args.num("seed", 1);
    let mut rng = Rng::new(seed ^ 0x57E);
    let mut streams: Vec<(String, Vec<u8>)> = Vec::new();
    if let Some(extra) = args.get("extra") {
        if let Ok(txt) = std::fs::read_to_string(extra) {
            for (i, l) in txt.lines().enumerate() {
                streams.push((format!("generated/{}", i), unhex(l.trim())));
            }
        }
    }
    let maxlen = args.num("maxlen", 8000) as usize;
    for _ in 0..args.num("streams", 20) {
        let (pn, plain) = crate::gen::plaintext(&mut rng, maxlen);
        let (cn, s) = crate::gen::compress_random(&mut rng, &plain);
        streams.push((format!("{}/{}", pn, cn), s));
    }
    for (label, s) in crate::gen::sweep_streams(&mut rng, args.num("sweeps", 4) as usize, args.num("window", 12) as usize) {
        streams.push((label, s));
    }
    // many small blocks under lazy matching (memory level 1: a block every 127 symbols), so that
    // blocks end in every situation the predictor can be in - in particular right after a literal
    // it predicted because the next position matches longer
    {
        let want = args.num("smallblocks", 3) as usize;
        let (mut have, mut tries) = (0usize, 0usize);
        while have < want && tries < want * 8 {
            tries += 1;
            let level = *rng.pick(&[4, 5, 6, 6, 7, 8, 9]);
            let mut text: Vec<u8> = Vec::new();
            while text.len() < maxlen.min(14000) {
                let (_, p) = crate::gen::plaintext(&mut rng, 6000);
                text.extend_from_slice(&p);
            }
            text.truncate(maxlen.min(14000));
            let s = crate::gen::zlib_raw(&text, level, 0, 15, 1);
            // only streams on which the estimator sees lazy matching (the others never defer a match)
            match guarded(|| verif::estimate(&s)) {
                Ok(Ok(p)) if p[12] > 0 && p[2] == 1 => {}
                _ => continue,
            }
            have += 1;
            streams.push((format!("smallblocks/zlib:l{}:m1", level), s));
        }
    }
    if args.get("samples").is_some() {
        for d in crate::deflate::sample_streams() {
            if d.bytes.len() <= args.num("samplemax", 40000) as usize {
                streams.push((d.label, d.bytes));
            }
        }
    }
    let mut out = std::io::BufWriter::new(std::fs::File::create(args.req("out")).unwrap());
    let mut cases = std::io::BufWriter::new(std::fs::File::create(format!("{}.cases", args.req("out"))).unwrap());
    let maxtok = args.num("maxtok", 20000) as usize;
    let mut run = 0;
    let mut analysed = 0;
    for (label, s) in &streams {
        if let Ok(Ok(p)) = guarded(|| verif::parse(s)) {
            let nt: usize = p.blocks.iter().map(|b| b.tokens.len()).sum();
            if nt > maxtok {
                continue;
            }
        }
        writeln!(cases, "{}", json!({"run":run,"label":label,"hex":hex(s)})).unwrap();
        if write_stream_trace(&mut out, run, label, s) {
            analysed += 1;
        }
        run += 1;
    }
    eprintln!("{} runs, {} analysed", run, analysed);
    0
}

/// C08, spec -> impl: every generated parameter vector against every pool
/// stream through the hook roundtrip_with_params
pub fn params_replay(args: &Args) -> i32 {
    use std::io::BufRead;
    quiet_panics();
    let seed = args.num("seed", 1);
    let mut rng = Rng::new(seed ^ 0xC08);
    let nstreams = args.num("streams", 6) as usize;
    let maxlen = args.num("maxlen", 6000) as usize;
    let mut streams: Vec<(String, Vec<u8>)> = Vec::new();
    let mut tries = 0;
    while streams.len() < nstreams && tries < nstreams * 30 {
        tries += 1;
        let (pn, plain) = crate::gen::plaintext(&mut rng, maxlen);
        if plain.len() < 50 {
            continue;
        }
        let (cn, s) = crate::gen::compress_random(&mut rng, &plain);
        if matches!(guarded(|| verif::estimate(&s)), Ok(Ok(_))) {
            streams.push((format!("{}/{}", pn, cn), s));
        }
    }
    for (label, s) in crate::gen::sweep_streams(&mut rng, 2, 2) {
        streams.push((label, s));
    }
    for (label, s) in crate::gen::window_edge_streams(&mut rng) {
        if s.len() < 3000 || label.contains("d32768/second") {
            streams.push((label, s));
        }
    }
    for (label, s) in crate::gen::big_block_streams(&mut rng, false) {
        if label.contains("literals") || label.contains("one-reference") {
            streams.push((label, s));
        }
    }
    if let Some(extra) = args.get("extra") {
        if let Ok(txt) = std::fs::read_to_string(extra) {
            // spread over the whole file: the generator's modes (mixed, far, twin) come one after the other
            let lines: Vec<&str> = txt.lines().collect();
            let want = (args.num("extramax", 6) as usize).min(lines.len()).max(1);
            for k in 0..want {
                let i = k * lines.len() / want;
                let l = lines[i];
                streams.push((format!("generated/{}", i), unhex(l.trim())));
            }
        }
    }
    let f = std::fs::File::open(args.req("in")).unwrap();
    let vecs: Vec<Vec<u32>> = std::io::BufReader::new(f).lines().filter_map(|l| {
        let l = l.unwrap();
        if l.trim().is_empty() { return None; }
        let v: Value = serde_json::from_str(&l).unwrap();
        Some(v["vec"].as_array().unwrap().iter().map(|x| x.as_u64().unwrap() as u32).collect())
    }).collect();
    let out = std::sync::Mutex::new(std::io::BufWriter::new(std::fs::File::create(args.req("out")).unwrap()));
    let stride = args.num("stride", 1) as usize;
    let jobs: Vec<(usize, usize)> = (0..vecs.len()).flat_map(|vi| (0..streams.len()).filter(move |si| (vi + si) % stride == 0).map(move |si| (vi, si))).collect();
    let counts = std::sync::Mutex::new((0u64, 0u64, 0u64)); // ok, err, viol
    // --isolate: every call in a forked child with memory and CPU limits (a decoder that misreads
    // what the encoder wrote can allocate without bound); single threaded, as fork demands
    let isolate = args.get("isolate").is_some();
    // a reconstruction that never ends: the watchdog ends the run (status 3) and the driver repeats it
    // with --isolate, where the child's CPU limit ends the call and the case is reported
    let nthreads = if isolate { 1 } else { args.num("threads", 12) as usize };
    let wd = Watchdog::start(nthreads, std::time::Duration::from_secs(if isolate { 3600 } else { 90 }), Box::new(|_id| {}));
    par_for(jobs.len(), nthreads, |j, w| {
        wd.enter(w, "job");
        let (vi, si) = jobs[j];
        let v = &vecs[vi];
        let (label, s) = &streams[si];
        if isolate && counts.lock().unwrap().2 >= 8 {
            return; // enough evidence; the isolated mode exists to name culprits, not to finish the sweep
        }
        let mut died: Option<String> = None;
        let r = if !isolate { guarded(|| verif::roundtrip_with_params(s, v)) } else {
            let child = isolated(1 << 30, 5, || {
                let r = verif::roundtrip_with_params(s, v);
                match r {
                    Err(_) => b"E".to_vec(),
                    Ok(rt) => serde_json::to_vec(&json!({"rebuilt": hex(&rt.rebuilt), "consumed": rt.consumed, "corrections_len": rt.corrections_len,
                        "vec_reread": rt.vec_reread, "reconstruct_error": rt.reconstruct_error})).unwrap(),
                }
            });
            match child {
                Err(how) if how == "panic" => Err("panic in the child process".to_string()),
                Err(how) => { died = Some(how); Err(String::new()) }
                Ok(b) if b == b"E" => Ok(Err(verif::roundtrip_with_params(&[], &[]).err().unwrap())), // (any Err value: only the fact is used)
                Ok(b) => {
                    let j: Value = serde_json::from_slice(&b).unwrap();
                    Ok(Ok(verif::ParamRoundtrip {
                        rebuilt: unhex(j["rebuilt"].as_str().unwrap()), consumed: j["consumed"].as_u64().unwrap() as usize,
                        corrections_len: j["corrections_len"].as_u64().unwrap() as usize,
                        vec_reread: j["vec_reread"].as_array().unwrap().iter().map(|x| x.as_u64().unwrap() as u32).collect(),
                        reconstruct_error: j["reconstruct_error"].as_str().map(|x| x.to_string()),
                    }))
                }
            }
        };
        let mut viol: Option<(String, String)> = None;
        let mut okk = false;
        match r {
            Err(_) if died.is_some() => viol = Some(("process-died".into(), format!("analysis and reconstruction under this vector did not return: the process running them was {}", died.unwrap()))),
            Err(p) => viol = Some(("panic".into(), format!("roundtrip_with_params panicked: {}", p))),
            Ok(Err(_)) => {}
            Ok(Ok(rt)) => {
                okk = true;
                if let Some(e) = &rt.reconstruct_error {
                    viol = Some(("corrections-not-readable".into(), format!("corrections were produced under this vector but reading them back fails: {}", e)));
                } else if rt.consumed > s.len() || rt.rebuilt[..] != s[..rt.consumed] {
                    viol = Some(("reconstruction-differs".into(), format!("corrections produced under this vector reconstruct a different stream ({} vs {} bytes)", rt.rebuilt.len(), rt.consumed)));
                } else if rt.vec_reread != *v {
                    // unused hash parameters / limit are not transported; compare the transported part
                    let mut norm = v.clone();
                    if norm[4] != 1 { norm[5] = 0; norm[6] = 0; }
                    if norm[16] != 1 && norm[16] != 2 { norm[17] = 0; }
                    if rt.vec_reread != norm {
                        viol = Some(("vector-not-read-back".into(), format!("parameters read back {:?} differ from the ones written {:?}", rt.vec_reread, v)));
                    }
                }
            }
        }
        let mut c = counts.lock().unwrap();
        if okk { c.0 += 1 } else { c.1 += 1 }
        if let Some((sig, why)) = viol {
            c.2 += 1;
            if c.2 < 40 {
                writeln!(out.lock().unwrap(), "{}", json!({"kind":"violation","sig":sig,"why":why,"vec":v,"label":label,"hex":hex(s)})).unwrap();
            }
        }
        drop(c);
        wd.leave(w);
    });
    let c = counts.lock().unwrap();
    writeln!(out.lock().unwrap(), "{}", json!({"kind":"summary","vectors":vecs.len(),"streams":streams.len(),"evaluations":jobs.len(),"ok":c.0,"err":c.1,"violations":c.2,
        "sample":{"vec":vecs.get(vecs.len()/2),"stream":streams.first().map(|s| s.0.clone())}})).unwrap();
    0
}

/// predictions of the real predictor next to plaintext, parameters and tokens, for Trace_Match
/// one run of the prediction trace (Trace_Match): the analysis of `s` under the estimated or a
/// forced parameter vector.  None: not analysed successfully (nothing to validate);
/// Some(supported): written, with or without tokens
fn write_match_run(out: &mut impl Write, cases: &mut impl Write, run: usize, label: &str, s: &[u8], forced: Option<&[u32]>, maxplain: usize) -> Option<bool> {
    verif::predictor_log_start();
    let a = guarded(|| verif::analyse_trace_with(s, forced));
    let preds = verif::predictions_take();
    let states = verif::predictor_log_take();
    let a = match a { Ok(a) => a, Err(_) => return None };
    let (parse, params) = match (&a.parse, &a.params) { (Some(p), Some(q)) if a.error.is_none() => (p, q), _ => return None };
    if parse.plain.len() > maxplain {
        return None;
    }
    let sup = (1..=7).contains(&params[4]) && params[0] <= 1;
    let tsegs: Vec<Seg> = segments(&a.ops).into_iter().filter(|x| x.marker == "token").collect();
    writeln!(cases, "{}", json!({"run":run,"label":label,"hex":hex(s),"forced":forced})).unwrap();
    writeln!(out, "{}", event("Reset", json!({"run":run,"label":label,"params":params,"supported":sup,
        "plain": if sup { Value::Array(parse.plain.iter().map(|b| json!(b)).collect()) } else { json!([]) }}))).unwrap();
    if !sup {
        writeln!(out, "{}", event("Skip", json!({}))).unwrap();
        return Some(false);
    }
    let mut k = 0usize;
    for b in &parse.blocks {
        if b.block_type == 0 {
            writeln!(out, "{}", event("Stored", json!({"len": b.stored.len()}))).unwrap();
            continue;
        }
        writeln!(out, "{}", event("Block", json!({}))).unwrap();
        for t in &b.tokens {
            let tj = match t { Tok::Lit(v) => json!([0, v, 0, 0]), Tok::Ref { len, dist, irregular258 } => json!([1, len, dist, *irregular258 as u32]) };
            let (st, pr) = (states.get(k), preds.get(k));
            let pj = match pr { Some(p) => match &p.1 { Tok::Lit(_) => json!([0, 0, 0]), Tok::Ref { len, dist, .. } => json!([1, len, dist]) }, None => json!([9, 9, 9]) };
            let oj = tsegs.get(k).map(|x| ops_json(&x.ops)).unwrap_or(json!([["missing"]]));
            writeln!(out, "{}", event("Tok", json!({"t": tj, "p": pj, "ops": oj, "pos": st.map(|x| x.pos).unwrap_or(0), "pend": st.map(|x| x.pending as u32).unwrap_or(9)}))).unwrap();
            k += 1;
        }
    }
    writeln!(out, "{}", event("End", json!({}))).unwrap();
    Some(true)
}

/// small-scope exhaustive conformance of the matcher (the implementation's side of MC_Match):
/// every plaintext of up to n bytes over {a, b}, every valid LZ77 parse of it (fixed Huffman
/// code, one block), analysed under every parameter vector of the file given (MC_Match's ParamSet)
pub fn match_exhaustive(args: &Args) -> i32 {
    quiet_panics();
    let n = args.num("n", 6) as usize;
    let txt = std::fs::read_to_string(args.req("vectors")).unwrap();
    let v: Value = serde_json::from_str(txt.lines().next().unwrap_or("{}")).unwrap();
    let vecs: Vec<Vec<u32>> = v["vecs"].as_array().map(|a| a.iter().map(|x| x.as_array().unwrap().iter().map(|y| y.as_u64().unwrap() as u32).collect()).collect()).unwrap_or_default();
    let mut out = std::io::BufWriter::new(std::fs::File::create(args.req("out")).unwrap());
    let mut cases = std::io::BufWriter::new(std::fs::File::create(format!("{}.cases", args.req("out"))).unwrap());
    fn parses(plain: &[u8], pos: usize, cur: &mut Vec<(usize, usize)>, all: &mut Vec<Vec<(usize, usize)>>) {
        if pos == plain.len() { all.push(cur.clone()); return; }
        cur.push((1, 0));
        parses(plain, pos + 1, cur, all);
        cur.pop();
        for dist in 1..=pos {
            let mut l = 0;
            while pos + l < plain.len() && plain[pos + l - dist] == plain[pos + l] { l += 1; }
            for len in 3..=l {
                cur.push((len, dist));
                parses(plain, pos + len, cur, all);
                cur.pop();
            }
        }
    }
    let (mut run, mut analysed, mut failed, mut streams) = (0usize, 0usize, 0usize, 0usize);
    for len in 1..=n {
        for bits in 0..(1u32 << len) {
            let plain: Vec<u8> = (0..len).map(|i| b'a' + ((bits >> i) & 1) as u8).collect();
            let mut all = Vec::new();
            parses(&plain, 0, &mut Vec::new(), &mut all);
            for (pi, toks) in all.iter().enumerate() {
                let s = crate::gen::encode_fixed(&plain, toks, usize::MAX);
                streams += 1;
                for (vi, vec) in vecs.iter().enumerate() {
                    let label = format!("exhaustive/{}/parse{}/v{}", String::from_utf8_lossy(&plain), pi, vi);
                    match write_match_run(&mut out, &mut cases, run, &label, &s, Some(vec), 1 << 20) {
                        None => failed += 1,
                        Some(_) => { run += 1; analysed += 1; }
                    }
                }
            }
        }
    }
    eprintln!("{} streams, {} runs analysed, {} analyses failed (Err: allowed)", streams, analysed, failed);
    println!("{}", json!({"streams": streams, "runs": analysed, "failed": failed, "vectors": vecs.len()}));
    0
}

/// a parameter vector next to the estimated one, inside the range the estimator can emit
/// (Params!InEstimatorRange): corrections stored under other vectors do not exist anywhere
fn perturb(rng: &mut Rng, est: &[u32]) -> Vec<u32> {
    let mut v = est.to_vec();
    for _ in 0..rng.range(1, 3) {
        match rng.below(11) {
            0 => v[14] = *rng.pick(&[1, 2, 3, 4, 8, 32]),                       // max_chain
            1 => v[13] = *rng.pick(&[8, 16, 32, 128, 258]),                     // nice_length
            2 => { let (g, l) = *rng.pick(&[(0, 0), (4, 4), (8, 16), (8, 32), (32, 128), (32, 258)]); v[11] = g; v[12] = l; } // matching type
            3 => v[2] = 1 - v[2].min(1),                                        // zlib_compatible
            4 => { v[16] = rng.below(5) as u32; v[17] = if v[16] == 1 || v[16] == 2 { *rng.pick(&[0, 3, 4, 5, 6, 32]) } else { 0 }; } // add policy
            5 => v[8] = *rng.pick(&[0, 1, 16, 4096, 32768]),                    // max_dist_3_matches
            6 => v[9] = 1 - v[9].min(1),                                        // very far matches
            7 => v[10] = 1 - v[10].min(1),                                      // matches to start
            8 => {
                // another hash function of the same family (3-byte or 4-byte minimum match)
                let three = v[15] == 3;
                v[4] = if three { *rng.pick(&[1, 1, 2, 3, 6]) } else { *rng.pick(&[4, 5, 7]) };
                if v[4] == 1 { let (sh, m) = *rng.pick(&[(5, 32767), (4, 2047)]); v[5] = sh; v[6] = m; } else { v[5] = 0; v[6] = 0; }
            }
            9 => v[3] = rng.range(9, 15) as u32,                                // window_bits
            _ => v[0] = *rng.pick(&[0, 0, 1]),                                  // strategy default / rle
        }
    }
    v
}

pub fn match_record(args: &Args) -> i32 {
    quiet_panics();
    let seed = args.num("seed", 1);
    let mut rng = Rng::new(seed ^ 0x3A7C);
    let maxplain = args.num("maxplain", 3000) as usize;
    let mut streams: Vec<(String, Vec<u8>)> = Vec::new();
    for _ in 0..args.num("streams", 12) {
        let (pn, plain) = crate::gen::plaintext(&mut rng, maxplain);
        let (cn, s) = match rng.below(12) {
            9 | 10 | 11 => { let sl = rng.range(1, 8); (format!("sloppy:{}", sl), crate::gen::sloppy_raw(&mut rng, &plain, sl)) }
            0 => ("miniz:l1".to_string(), crate::gen::miniz_raw(&plain, 1)),
            1 => { let l = rng.range(2, 9) as u8; (format!("miniz:l{}", l), crate::gen::miniz_raw(&plain, l)) }
            2 | 3 => { let l = rng.range(1, 12) as i32; (format!("libdeflate:l{}", l), crate::gen::libdeflate_raw(&plain, l)) }
            4 | 5 => { let l = rng.range(1, 9) as i32; (format!("zlibng:l{}", l), crate::gen::zlibng_raw(&plain, l)) }
            _ => {
                let level = rng.range(1, 9) as i32;
                let mem = *rng.pick(&[8, 8, 9, 6, 1]);
                (format!("zlib:l{}:m{}", level, mem), crate::gen::zlib_raw(&plain, level, *rng.pick(&[0, 0, 0, 1, 3]), 15, mem))
            }
        };
        streams.push((format!("{}/{}", pn, cn), s));
    }
    for (label, s) in crate::gen::sweep_streams(&mut rng, args.num("sweeps", 3) as usize, args.num("window", 3) as usize) {
        streams.push((label, s));
    }
    let mut out = std::io::BufWriter::new(std::fs::File::create(args.req("out")).unwrap());
    let mut cases = std::io::BufWriter::new(std::fs::File::create(format!("{}.cases", args.req("out"))).unwrap());
    let mut run = 0;
    let mut supported = 0;
    let maxplain = maxplain.max(1); // (window-edge streams are recorded by stream-record, they are too long for Trace_Match)
    let perturbed = args.num("perturb", 2) as usize;
    // every stream under the estimated parameters, then under vectors next to them: the
    // predictions go wrong in ways the estimated parameters hardly ever allow
    let mut jobs: Vec<(String, &Vec<u8>, Option<Vec<u32>>)> = Vec::new();
    for (label, s) in &streams {
        jobs.push((label.clone(), s, None));
        if perturbed > 0 {
            if let Ok(Ok(est)) = guarded(|| verif::estimate(s)) {
                for k in 0..perturbed {
                    jobs.push((format!("{}/perturbed{}", label, k), s, Some(perturb(&mut rng, &est))));
                }
            }
        }
    }
    for (label, s, forced) in &jobs {
        match write_match_run(&mut out, &mut cases, run, label, s, forced.as_deref(), maxplain * 2) {
            None => {}
            Some(sup) => { run += 1; if sup { supported += 1; } }
        }
    }
    eprintln!("{} runs, {} with a supported hash", run, supported);
    0
}
