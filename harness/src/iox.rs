// C13: recreated_zlib_chunks against scripted Read / Write objects.
// C11: zstd wrappers around capacity and framing.
// C12: the C ABI wrappers with guard bytes around the caller's buffer.
// C14: determinism and concurrent use.

use crate::container::{build_file, build_pool, Built};
use crate::util::*;
use preflate_rs::{compress_zstd, decompress_deflate_stream, decompress_zstd, expand_zlib_chunks, recompress_deflate_stream, recreated_zlib_chunks};
use preflate_rs::{WrapperCompressZip, WrapperDecompressZip};
use serde_json::{json, Value};
use std::io::{Read, Write};
use std::sync::atomic::Ordering;
use std::sync::Mutex;

// ------------------------------------------------------------------- C13

#[derive(Clone, Copy, Debug, PartialEq)]
pub enum Fault {
    Full,
    Short,
    One,
    Interrupted,
    Error,
    Zero,
}

fn fault_name(f: Fault) -> &'static str {
    match f {
        Fault::Full => "full",
        Fault::Short => "short",
        Fault::One => "one",
        Fault::Interrupted => "int",
        Fault::Error => "err",
        Fault::Zero => "zero",
    }
}

/// what to do at I/O call number k (counted over both sides in call order);
/// everything else follows `default`
#[derive(Clone)]
pub struct Script {
    pub at: Vec<(usize, Fault)>,
    pub default: Fault,
    pub seed: u64,
}

struct Shared {
    calls: Vec<Value>,
    n: usize,
    script: Script,
    rng: Rng,
    delivered_hard: bool,
    delivered_int: bool,
}

impl Shared {
    fn next(&mut self) -> Fault {
        let k = self.n;
        self.n += 1;
        self.script.at.iter().find(|(i, _)| *i == k).map(|(_, f)| *f).unwrap_or(self.script.default)
    }
}

struct SReader<'a> {
    data: &'a [u8],
    pos: usize,
    sh: &'a Mutex<Shared>,
}

impl<'a> Read for SReader<'a> {
    fn read(&mut self, buf: &mut [u8]) -> std::io::Result<usize> {
        let mut g = self.sh.lock().unwrap();
        let f = g.next();
        let avail = self.data.len() - self.pos;
        let want = buf.len().min(avail);
        let (ret, n): (&str, usize) = match f {
            Fault::Interrupted => {
                g.delivered_int = true;
                g.calls.push(json!(["R", buf.len(), "int", 0]));
                return Err(std::io::Error::new(std::io::ErrorKind::Interrupted, "scripted"));
            }
            Fault::Error => {
                g.delivered_hard = true;
                g.calls.push(json!(["R", buf.len(), "err", 0]));
                return Err(std::io::Error::new(std::io::ErrorKind::Other, "scripted read error"));
            }
            Fault::Short if want > 1 => ("n", 1 + g.rng.below(want as u64 - 1) as usize),
            Fault::One if want > 1 => ("n", 1),
            _ => ("n", want), // a reader cannot return 0 while data remains (that would be another file)
        };
        buf[..n].copy_from_slice(&self.data[self.pos..self.pos + n]);
        self.pos += n;
        g.calls.push(json!(["R", buf.len(), ret, n]));
        Ok(n)
    }
}

struct SWriter<'a> {
    out: Vec<u8>,
    sh: &'a Mutex<Shared>,
}

impl<'a> Write for SWriter<'a> {
    fn write(&mut self, buf: &[u8]) -> std::io::Result<usize> {
        let mut g = self.sh.lock().unwrap();
        let f = g.next();
        let n = match f {
            Fault::Interrupted => {
                g.delivered_int = true;
                g.calls.push(json!(["W", buf.len(), "int", 0]));
                return Err(std::io::Error::new(std::io::ErrorKind::Interrupted, "scripted"));
            }
            Fault::Error => {
                g.delivered_hard = true;
                g.calls.push(json!(["W", buf.len(), "err", 0]));
                return Err(std::io::Error::new(std::io::ErrorKind::Other, "scripted write error"));
            }
            Fault::Zero if !buf.is_empty() => {
                g.delivered_hard = true;
                g.calls.push(json!(["W", buf.len(), "zero", 0]));
                return Ok(0);
            }
            Fault::Short if buf.len() > 1 => 1 + g.rng.below(buf.len() as u64 - 1) as usize,
            Fault::One if buf.len() > 1 => 1,
            _ => buf.len(),
        };
        self.out.extend_from_slice(&buf[..n]);
        g.calls.push(json!(["W", buf.len(), "n", n]));
        Ok(n)
    }
    fn flush(&mut self) -> std::io::Result<()> {
        Ok(())
    }
}

pub struct IoRun {
    pub calls: Vec<Value>,
    pub result: String,
    pub written: Vec<u8>,
    pub hard: bool,
    pub intr: bool,
    pub consumed: usize,
}

pub fn run_scripted(container: &[u8], script: &Script) -> IoRun {
    let sh = Mutex::new(Shared { calls: Vec::new(), n: 0, script: script.clone(), rng: Rng::new(script.seed), delivered_hard: false, delivered_int: false });
    let mut r = SReader { data: container, pos: 0, sh: &sh };
    let mut w = SWriter { out: Vec::new(), sh: &sh };
    let res = guarded(|| recreated_zlib_chunks(&mut r, &mut w));
    let result = match res {
        Ok(Ok(_)) => "ok".to_string(),
        Ok(Err(_)) => "err".to_string(),
        Err(p) => format!("panic: {}", p),
    };
    let g = sh.lock().unwrap();
    IoRun { calls: g.calls.clone(), result, written: w.out.clone(), hard: g.delivered_hard, intr: g.delivered_int, consumed: r.pos }
}

fn io_trace(out: &mut impl Write, run: usize, label: &str, file: &[u8], container: &[u8], r: &IoRun) {
    let prefix_ok = r.written.len() <= file.len() && r.written[..] == file[..r.written.len()];
    writeln!(out, "{}", event("Reset", json!({"run":run,"label":label,"clen":container.len(),"flen":file.len()}))).unwrap();
    for c in &r.calls {
        writeln!(out, "{}", event("Call", json!({"side":c[0],"req":c[1],"ret":c[2],"n":c[3]}))).unwrap();
    }
    let res = if r.result.starts_with("panic") { "panic" } else { r.result.as_str() };
    writeln!(out, "{}", event("Return", json!({"result":res,"written":r.written.len(),"prefix_ok":prefix_ok,
        "equal": r.written[..] == file[..], "consumed": r.consumed}))).unwrap();
}

/// for every container: no faults; fragmentation only; and one fault of every
/// kind at every call index (all of them for small call counts, a seeded
/// sample otherwise)
pub fn io_record(args: &Args) -> i32 {
    quiet_panics();
    let seed = args.num("seed", 1);
    let nfiles = args.num("files", 6) as usize;
    let maxcalls = args.num("maxcalls", 200) as usize;
    let mut rng = Rng::new(seed ^ 0x10);
    let big = build_pool(&mut rng, 6, true, args.num("maxlen", 30000) as usize);
    let small = build_pool(&mut rng, 3, false, 2000);
    if big.is_empty() || small.is_empty() {
        return 2;
    }
    let mut out = std::io::BufWriter::new(std::fs::File::create(args.req("out")).unwrap());
    let mut cases = std::io::BufWriter::new(std::fs::File::create(format!("{}.cases", args.req("out"))).unwrap());
    let mut run = 0usize;
    let shapes: Vec<Value> = vec![
        json!([]),
        json!([{"c":"junk","n":0}]),
        json!([{"c":"junk","n":5}]),
        json!([{"c":"junk","n":70000}]),
        json!([{"c":"junk","n":131072}]),
        json!([{"c":"wrap","k":"zlib","big":true,"s":1,"hdr":2,"trail":0}]),
        json!([{"c":"junk","n":3},{"c":"wrap","k":"gzip","big":true,"s":2,"flags":8,"nm":5,"trail":3}]),
        json!([{"c":"junk","n":9},{"c":"wrap","k":"idat","big":true,"s":3,"hdr":1,"sizes":[100,1000],"trail":7}]),
        json!([{"c":"wrap","k":"zip","big":true,"s":4,"nm":3,"x":0,"trail":0},{"c":"wrap","k":"idat","big":true,"s":5,"hdr":2,"sizes":[],"trail":0},{"c":"junk","n":200}]),
    ];
    for (fi, segs) in shapes.iter().enumerate().take(nfiles.max(1).min(shapes.len())) {
        let b: Built = build_file(segs, &big, &small, &mut rng);
        let container = match guarded(|| expand_zlib_chunks(&b.bytes, 0)) {
            Ok(Ok(c)) => c,
            _ => continue,
        };
        let mut do_run = |script: Script, label: String, out: &mut std::io::BufWriter<std::fs::File>| {
            let r = run_scripted(&container, &script);
            writeln!(cases, "{}", json!({"run":run,"label":label,"file":fi,"segs":segs,
                "script":{"at":script.at.iter().map(|(i,f)| json!([i, fault_name(*f)])).collect::<Vec<_>>(),"default":fault_name(script.default),"seed":script.seed},
                "container_hex": if container.len() < 4000 { hex(&container) } else { String::new() }})).unwrap();
            io_trace(out, run, &label, &b.bytes, &container, &r);
            run += 1;
            r.calls.len()
        };
        let ncalls = do_run(Script { at: vec![], default: Fault::Full, seed: 1 }, format!("f{}:plain", fi), &mut out);
        do_run(Script { at: vec![], default: Fault::Short, seed: seed + 1 }, format!("f{}:short-everywhere", fi), &mut out);
        if container.len() < 20000 {
            do_run(Script { at: vec![], default: Fault::One, seed: 1 }, format!("f{}:one-byte-at-a-time", fi), &mut out);
        }
        // single faults at every call index of the unfaulted run
        let idx: Vec<usize> = if ncalls <= maxcalls { (0..ncalls + 1).collect() } else {
            let mut v: Vec<usize> = (0..maxcalls / 2).collect();
            for _ in 0..maxcalls / 2 { v.push(rng.below(ncalls as u64 + 1) as usize); }
            v
        };
        for k in idx {
            for f in [Fault::Error, Fault::Interrupted, Fault::Zero, Fault::Short] {
                do_run(Script { at: vec![(k, f)], default: Fault::Full, seed: seed + k as u64 }, format!("f{}:{}@{}", fi, fault_name(f), k), &mut out);
            }
        }
        // a fault under fragmentation
        for _ in 0..args.num("mixed", 20) {
            let k = rng.below(3 * ncalls as u64 + 1) as usize;
            let f = *rng.pick(&[Fault::Error, Fault::Interrupted, Fault::Zero]);
            do_run(Script { at: vec![(k, f)], default: Fault::Short, seed: rng.next() }, format!("f{}:short+{}@{}", fi, fault_name(f), k), &mut out);
        }
        // one byte per read and per write on a thread with a small stack (256 KiB), in a child process:
        // how deep the call goes must not depend on how the transfers are fragmented
        if container.len() >= 2000 {
            out.flush().unwrap();
            let res = isolated(2 << 30, 60, || {
                let c2 = container.clone();
                let h = std::thread::Builder::new().stack_size(256 << 10).spawn(move || {
                    struct One<'a> { d: &'a [u8], p: usize }
                    impl<'a> Read for One<'a> {
                        fn read(&mut self, b: &mut [u8]) -> std::io::Result<usize> {
                            if b.is_empty() || self.p >= self.d.len() { return Ok(0); }
                            b[0] = self.d[self.p]; self.p += 1; Ok(1)
                        }
                    }
                    struct OneW { v: Vec<u8> }
                    impl Write for OneW {
                        fn write(&mut self, b: &[u8]) -> std::io::Result<usize> { if b.is_empty() { return Ok(0); } self.v.push(b[0]); Ok(1) }
                        fn flush(&mut self) -> std::io::Result<()> { Ok(()) }
                    }
                    let mut w = OneW { v: Vec::new() };
                    let r = guarded(|| recreated_zlib_chunks(&mut One { d: &c2, p: 0 }, &mut w).is_ok());
                    (r, w.v)
                });
                match h.map(|h| h.join()) {
                    Ok(Ok((Ok(true), v))) => { let mut o = vec![1u8]; o.extend_from_slice(&v); o }
                    Ok(Ok((Ok(false), _))) => vec![2u8],
                    _ => vec![3u8],
                }
            });
            let label = format!("f{}:one-byte-at-a-time on a 256 KiB stack", fi);
            writeln!(cases, "{}", json!({"run":run,"label":label,"file":fi,"segs":segs,"script":{"at":[],"default":"one","seed":0},"container_hex":""})).unwrap();
            writeln!(out, "{}", event("Reset", json!({"run":run,"label":label,"clen":container.len(),"flen":b.bytes.len()}))).unwrap();
            match res {
                Ok(v) if v.first() == Some(&1) => {
                    let equal = v[1..] == b.bytes[..];
                    writeln!(out, "{}", event("Summary", json!({"result":"ok","written":v.len() - 1,"equal":equal}))).unwrap();
                }
                Ok(v) => {
                    writeln!(out, "{}", event("Summary", json!({"result": if v.first() == Some(&2) { "err" } else { "panic" },"written":0,"equal":false}))).unwrap();
                }
                Err(how) => {
                    writeln!(out, "{}", event("Died", json!({"how":how}))).unwrap();
                }
            }
            run += 1;
        }
    }
    0
}

/// one saved script against one saved container
pub fn io_replay(args: &Args) -> i32 {
    quiet_panics();
    let case: Value = serde_json::from_str(&std::fs::read_to_string(args.req("case")).unwrap()).unwrap();
    let c = &case["case"];
    let container = unhex(c["container_hex"].as_str().unwrap_or(""));
    let fault = |s: &str| match s { "short" => Fault::Short, "one" => Fault::One, "int" => Fault::Interrupted, "err" => Fault::Error, "zero" => Fault::Zero, _ => Fault::Full };
    let script = Script {
        at: c["script"]["at"].as_array().unwrap().iter().map(|x| (x[0].as_u64().unwrap() as usize, fault(x[1].as_str().unwrap()))).collect(),
        default: fault(c["script"]["default"].as_str().unwrap()),
        seed: c["script"]["seed"].as_u64().unwrap(),
    };
    let mut plain = Vec::new();
    let _ = recreated_zlib_chunks(&mut std::io::Cursor::new(&container), &mut plain);
    let r = run_scripted(&container, &script);
    let mut out = std::io::BufWriter::new(std::fs::File::create(args.req("out")).unwrap());
    io_trace(&mut out, 0, "replay", &plain, &container, &r);
    0
}

// ------------------------------------------------------------------- C11

pub fn zstd_record(args: &Args) -> i32 {
    quiet_panics();
    let seed = args.num("seed", 1);
    let nfiles = args.num("files", 12) as usize;
    let mut rng = Rng::new(seed ^ 0x25D);
    let big = build_pool(&mut rng, 6, true, args.num("maxlen", 30000) as usize);
    let small = build_pool(&mut rng, 3, false, 2000);
    if big.is_empty() || small.is_empty() {
        return 2;
    }
    let mut out = std::io::BufWriter::new(std::fs::File::create(args.req("out")).unwrap());
    let mut run = 0;
    // the size classes of F: empty, one byte, mixtures of wrappers - and files that do not compress at
    // all, a few zstd blocks long (every byte string F, the property says)
    let noise_sizes: Vec<u64> = if args.get("noise").is_some() { vec![200_000, 700_000, 3 << 20] } else { vec![] };
    // ... and files that are larger than their expanded form: noise that went through a compressor
    let swollen: Vec<Vec<u8>> = if args.get("noise").is_some() {
        [1, 9].iter().map(|&level| {
            let noise: Vec<u8> = (0..300_000).map(|_| rng.below(256) as u8).collect();
            let mut f = crate::gen::junk(&mut rng, 20);
            f.extend_from_slice(&crate::gen::wrap_zlib(&crate::gen::zlib_raw(&noise, level, 0, 15, 8), &noise, 1));
            f
        }).collect()
    } else { vec![] };
    // ... and files that shrink a thousandfold and more: zeros, a short period, zeros through zlib
    let mut swollen = swollen;
    if args.get("noise").is_some() {
        swollen.push(vec![0u8; 1 << 20]);
        swollen.push((0..3usize << 20).map(|i| b"0123456789abcdef"[i % 16]).collect());
        let z = vec![0u8; 8 << 20];
        let mut f = crate::gen::junk(&mut rng, 10);
        f.extend_from_slice(&crate::gen::wrap_zlib(&crate::gen::zlib_raw(&z, 6, 0, 15, 8), &z, 2));
        swollen.push(f);
    }
    for fi in 0..nfiles + noise_sizes.len() + swollen.len() {
        let segs = if fi >= nfiles + noise_sizes.len() { json!("size classes: larger than the expanded form / shrinking a thousandfold") }
                   else if fi >= nfiles { json!([{"c":"junk","n":noise_sizes[fi - nfiles]}]) }
                   else if fi == 0 { json!([]) } else if fi == 1 { json!([{"c":"junk","n":1}]) } else { random_segs_small(&mut rng) };
        let b = if fi >= nfiles + noise_sizes.len() {
            Built { bytes: swollen[fi - nfiles - noise_sizes.len()].clone(), expect: None, plains: vec![], desc: segs.clone() }
        } else { build_file(&segs, &big, &small, &mut rng) };
        let f = &b.bytes;
        let expanded = match guarded(|| expand_zlib_chunks(f, 0)) { Ok(Ok(x)) => x, _ => continue };
        let size = expanded.len();
        let z = match guarded(|| compress_zstd(f, 0)) {
            Ok(Ok(z)) => z,
            other => {
                writeln!(out, "{}", event("Reset", json!({"run":run,"flen":f.len(),"size":size,"segs":segs}))).unwrap();
                writeln!(out, "{}", event("CompressFailed", json!({"how":format!("{:?}", other.map(|r| r.map(|_| ()).map_err(|e| e.exit_code())))}))).unwrap();
                run += 1;
                continue;
            }
        };
        writeln!(out, "{}", event("Reset", json!({"run":run,"flen":f.len(),"size":size,"zlen":z.len(),"segs":segs,
            "hex": if f.len() < 3000 { hex(f) } else { String::new() }}))).unwrap();
        // capacities around the exact expanded size
        let mut caps: Vec<usize> = vec![0, size.saturating_sub(1), size, size + 1, size + 1000, 1 << 27];
        if size > 2 { caps.push(size / 2); caps.push(1); }
        for cap in caps {
            let r = guarded(|| decompress_zstd(&z, cap));
            let (res, equal) = match &r { Ok(Ok(x)) => ("ok", x == f), Ok(Err(_)) => ("err", false), Err(_) => ("panic", false) };
            writeln!(out, "{}", event("Decompress", json!({"frame":"valid","cap":cap,"result":res,"equal":equal}))).unwrap();
        }
        // inputs that are not (exactly) the frame
        let mut variants: Vec<(&str, Vec<u8>)> = vec![
            ("empty", vec![]),
            ("garbage", crate::gen::junk(&mut rng, 40)),
            ("truncated", z[..z.len() - 1].to_vec()),
            ("truncated-half", z[..z.len() / 2].to_vec()),
            ("raw-file", f.clone()),
            ("expanded-not-framed", expanded.clone()),
        ];
        // a proper prefix of a frame is not a frame, wherever it is cut (zstd blocks, raw blocks and the
        // chunks inside them end at places of their own)
        let cuts: Vec<usize> = if z.len() <= 400 { (1..z.len()).collect() } else {
            let mut c: Vec<usize> = (1..40).chain(z.len() - 40..z.len()).collect();
            for _ in 0..120 { c.push(1 + rng.below(z.len() as u64 - 1) as usize); }
            c
        };
        for k in cuts { variants.push(("cut", z[..k].to_vec())); }
        let mut t = z.clone();
        t.extend_from_slice(b"trailing");
        variants.push(("trailing-bytes", t));
        let mut fl = z.clone();
        if fl.len() > 8 { let i = 6 + rng.below(fl.len() as u64 - 6) as usize; fl[i] ^= 0x10; }
        variants.push(("bitflip", fl));
        for (name, v) in variants {
            if name == "bitflip" {
                // a damaged frame may still be a frame, around a damaged container; reading that
                // can run away, and C11 demands nothing of it beyond not panicking: isolate it
                out.flush().unwrap();
                let iso = isolated(4 << 30, 30, || match decompress_zstd(&v, size + 1000) { Ok(x) => vec![(x == *f) as u8], Err(_) => vec![2u8] });
                let (res, equal) = match &iso {
                    Ok(r) if r.first() == Some(&2) => ("err", false),
                    Ok(r) => ("ok", r.first() == Some(&1)),
                    Err(e) if e == "panic" => ("panic", false),
                    Err(_) => ("err", false), // stopped by the resource limit: no verdict, treated like a refusal
                };
                writeln!(out, "{}", event("Decompress", json!({"frame":name,"cap":size+1000,"result":res,"equal":equal}))).unwrap();
                continue;
            }
            let r = guarded(|| decompress_zstd(&v, size + 1000));
            let (res, equal) = match &r { Ok(Ok(x)) => ("ok", x == f), Ok(Err(_)) => ("err", false), Err(_) => ("panic", false) };
            writeln!(out, "{}", event("Decompress", json!({"frame":name,"cap":size+1000,"result":res,"equal":equal}))).unwrap();
        }
        writeln!(out, "{}", event("Done", json!({}))).unwrap();
        run += 1;
    }
    0
}

fn random_segs_small(rng: &mut Rng) -> Value {
    let n = rng.range(1, 3);
    let mut segs = Vec::new();
    for _ in 0..n {
        match rng.below(4) {
            0 => segs.push(json!({"c":"junk","n":*rng.pick(&[1u64, 17, 300, 5000, 70000])})),
            _ => {
                let k = *rng.pick(&["zlib", "gzip", "zip", "idat"]);
                segs.push(json!({"c":"wrap","k":k,"big":rng.chance(4,5),"s":rng.below(1000),"hdr":rng.below(4),"flags":0,"x":0,"nm":3,"cm":0,
                    "sizes":[1000],"trail":rng.below(9)}));
            }
        }
    }
    Value::Array(segs)
}

// ------------------------------------------------------------------- C12

const GUARD: usize = 1 << 20;

struct Guarded {
    mem: Vec<u8>,
    cap: usize,
}

impl Guarded {
    fn new(cap: usize) -> Self {
        let mut mem = vec![0u8; cap + 2 * GUARD];
        for (i, b) in mem.iter_mut().enumerate() {
            *b = 0xA5 ^ (i as u8).wrapping_mul(31);
        }
        Guarded { mem, cap }
    }
    fn ptr(&mut self) -> *mut u8 {
        unsafe { self.mem.as_mut_ptr().add(GUARD) }
    }
    fn guards_intact(&self) -> bool {
        let ok = |i: usize| self.mem[i] == 0xA5 ^ (i as u8).wrapping_mul(31);
        (0..GUARD).all(ok) && (GUARD + self.cap..self.mem.len()).all(ok)
    }
    fn data(&self, n: usize) -> &[u8] {
        &self.mem[GUARD..GUARD + n.min(self.cap)]
    }
}

pub fn abi_record(args: &Args) -> i32 {
    quiet_panics();
    let seed = args.num("seed", 1);
    let nfiles = args.num("files", 10) as usize;
    let mut rng = Rng::new(seed ^ 0xAB1);
    let big = build_pool(&mut rng, 6, true, args.num("maxlen", 30000) as usize);
    let small = build_pool(&mut rng, 3, false, 2000);
    if big.is_empty() || small.is_empty() {
        return 2;
    }
    let mut out = std::io::BufWriter::new(std::fs::File::create(args.req("out")).unwrap());
    let mut run = 0;
    for fi in 0..nfiles + 1 {
        let segs = if fi == nfiles { json!("size classes: larger than the expanded form / shrinking a thousandfold") }
                   else if fi == 0 { json!([]) } else if fi == 1 { json!([{"c":"junk","n":2}]) } else { random_segs_small(&mut rng) };
        let b = if fi == nfiles {
            let noise: Vec<u8> = (0..250_000).map(|_| rng.below(256) as u8).collect();
            let mut f = crate::gen::junk(&mut rng, 20);
            f.extend_from_slice(&crate::gen::wrap_zlib(&crate::gen::zlib_raw(&noise, 1, 0, 15, 8), &noise, 1));
            Built { bytes: f, expect: None, plains: vec![], desc: segs.clone() }
        } else { build_file(&segs, &big, &small, &mut rng) };
        let f = &b.bytes;
        let needed = match guarded(|| compress_zstd(f, 0)) { Ok(Ok(z)) => z.len(), _ => continue };
        let bound = zstd::zstd_safe::compress_bound(guarded(|| expand_zlib_chunks(f, 0)).ok().and_then(|r| r.ok()).map(|x| x.len()).unwrap_or(0));
        writeln!(out, "{}", event("Reset", json!({"run":run,"flen":f.len(),"needed":needed,"bound":bound,"segs":segs,
            "hex": if f.len() < 3000 { hex(f) } else { String::new() }}))).unwrap();
        let mut best: Option<Vec<u8>> = None;
        let mut caps: Vec<usize> = vec![0, 1, needed.saturating_sub(1), needed, needed + 1, bound, bound + 1, bound + 5000];
        caps.sort();
        caps.dedup();
        for cap in caps {
            // every call runs in a forked child: a wrapper that writes far outside the buffer
            // must not take the recorder down with it
            out.flush().unwrap();
            let iso = isolated(6 << 30, 120, || {
                let mut g = Guarded::new(cap);
                let mut rs: u64 = 0xDEAD_BEEF_DEAD_BEEF;
                let p = g.ptr();
                let status = guarded(|| unsafe { WrapperCompressZip(f.as_ptr(), f.len() as u64, p, cap as u64, &mut rs as *mut u64) });
                let (st, unwound) = match status { Ok(s) => (s, false), Err(_) => (-99, true) };
                let mut valid = false;
                let mut frame: Vec<u8> = Vec::new();
                if st == 0 && (rs as usize) <= cap {
                    frame = g.data(rs as usize).to_vec();
                    valid = matches!(guarded(|| decompress_zstd(&frame, 1 << 27)), Ok(Ok(ref x)) if x == f);
                }
                let mut v = Vec::new();
                v.extend_from_slice(&st.to_le_bytes());
                v.extend_from_slice(&rs.to_le_bytes());
                v.push(unwound as u8);
                v.push(g.guards_intact() as u8);
                v.push(valid as u8);
                v.extend_from_slice(&frame);
                v
            });
            match iso {
                Ok(v) if v.len() >= 15 => {
                    let st = i32::from_le_bytes(v[0..4].try_into().unwrap());
                    let rs = u64::from_le_bytes(v[4..12].try_into().unwrap());
                    let (unwound, guards, valid) = (v[12] != 0, v[13] != 0, v[14] != 0);
                    if valid && best.is_none() { best = Some(v[15..].to_vec()); }
                    writeln!(out, "{}", event("Compress", json!({"cap":cap,"status":st,"unwound":unwound,"rs_set": rs != 0xDEAD_BEEF_DEAD_BEEF,
                        "rs": if rs == 0xDEAD_BEEF_DEAD_BEEF { 0 } else { rs.min(1 << 30) },"guards":guards,"valid":valid}))).unwrap();
                }
                other => {
                    writeln!(out, "{}", event("Crashed", json!({"call":"WrapperCompressZip","cap":cap,"how":format!("{:?}", other.err())}))).unwrap();
                }
            }
        }
        if let Some(frame) = best {
            let best_frame = frame.clone();
            let need2 = f.len();
            let mut caps: Vec<usize> = vec![0, 1, need2.saturating_sub(1), need2, need2 + 1, need2 + 10000];
            caps.sort();
            caps.dedup();
            for cap in caps {
                let mut g = Guarded::new(cap);
                let mut rs: u64 = 0xDEAD_BEEF_DEAD_BEEF;
                let p = g.ptr();
                let status = guarded(|| unsafe { WrapperDecompressZip(frame.as_ptr(), frame.len() as u64, p, cap as u64, &mut rs as *mut u64) });
                let (st, unwound) = match status { Ok(s) => (s, false), Err(_) => (-99, true) };
                let valid = st == 0 && (rs as usize) <= cap && g.data(rs as usize) == &f[..];
                writeln!(out, "{}", event("Decompress", json!({"cap":cap,"need":need2,"status":st,"unwound":unwound,"rs_set": rs != 0xDEAD_BEEF_DEAD_BEEF,
                    "rs": if rs == 0xDEAD_BEEF_DEAD_BEEF { 0 } else { rs.min(1 << 30) },"guards":g.guards_intact(),"valid":valid,"frame":"valid"}))).unwrap();
            }
            // not a frame / a frame around something that is not a container
            let junkframe = zstd::bulk::compress(&crate::gen::junk(&mut rng, 100), 3).unwrap();
            for (name, inp) in [("garbage", crate::gen::junk(&mut rng, 50)), ("frame-of-junk", junkframe), ("truncated", frame[..frame.len() - 1].to_vec()), ("empty", vec![])] {
                let cap = need2 + 100;
                let mut g = Guarded::new(cap);
                let mut rs: u64 = 0xDEAD_BEEF_DEAD_BEEF;
                let p = g.ptr();
                let status = guarded(|| unsafe { WrapperDecompressZip(inp.as_ptr(), inp.len() as u64, p, cap as u64, &mut rs as *mut u64) });
                let (st, unwound) = match status { Ok(s) => (s, false), Err(_) => (-99, true) };
                writeln!(out, "{}", event("Decompress", json!({"cap":cap,"need":need2,"status":st,"unwound":unwound,"rs_set": rs != 0xDEAD_BEEF_DEAD_BEEF,
                    "rs": if rs == 0xDEAD_BEEF_DEAD_BEEF { 0 } else { rs.min(1 << 30) },"guards":g.guards_intact(),"valid":false,"frame":name}))).unwrap();
            }
            // histories: inside one child process, a frame around a damaged container (which may well
            // make the library panic behind the wrapper's catch_unwind), then the good calls again -
            // what is demanded of a call does not depend on what was called before it
            let expanded = guarded(|| expand_zlib_chunks(f, 0)).ok().and_then(|r| r.ok()).unwrap_or_default();
            if expanded.len() > 40 {
                out.flush().unwrap();
                let mut damaged: Vec<Vec<u8>> = Vec::new();
                for k in 0..3 {
                    let mut d = expanded.clone();
                    let from = d.len() / 2;
                    for _ in 0..(1 + k * 3) {
                        let i = from + rng.below((d.len() - from) as u64) as usize;
                        d[i] ^= 1 << rng.below(8);
                    }
                    if k == 2 { let n = d.len(); d.truncate(n - 3); }
                    damaged.push(zstd::bulk::compress(&d, 3).unwrap());
                }
                // a stream chunk whose corrections are noise (the parameter header is then nonsense)
                for _ in 0..5 {
                    let plain = crate::gen::junk(&mut rng, 1500);
                    let corr = crate::gen::junk(&mut rng, 40);
                    let mut d = vec![1u8, 1];
                    d.extend_from_slice(&[(plain.len() & 0x7f) as u8 | 0x80, (plain.len() >> 7) as u8]);
                    d.extend_from_slice(&plain);
                    d.push(corr.len() as u8);
                    d.extend_from_slice(&corr);
                    damaged.push(zstd::bulk::compress(&d, 3).unwrap());
                }
                let good = best_frame.clone();
                let iso = isolated(2 << 30, 30, || {
                    let mut rep: Vec<Value> = Vec::new();
                    let cap = need2 + 100;
                    for d in damaged.iter().chain(std::iter::once(&good)) {
                        let mut g = Guarded::new(cap);
                        let mut rs: u64 = 0xDEAD_BEEF_DEAD_BEEF;
                        let p = g.ptr();
                        let status = guarded(|| unsafe { WrapperDecompressZip(d.as_ptr(), d.len() as u64, p, cap as u64, &mut rs as *mut u64) });
                        let (st, unwound) = match status { Ok(s) => (s, false), Err(_) => (-99, true) };
                        let is_good = std::ptr::eq(d, &good);
                        let valid = st == 0 && (rs as usize) <= cap && g.data(rs as usize) == &f[..];
                        rep.push(json!({"call":"Decompress","cap":cap,"need":need2,"status":st,"unwound":unwound,"rs_set": rs != 0xDEAD_BEEF_DEAD_BEEF,
                            "rs": if rs == 0xDEAD_BEEF_DEAD_BEEF { 0 } else { rs.min(1 << 30) },"guards":g.guards_intact(),"valid":valid,
                            "frame": if is_good { "valid" } else { "damaged" }, "after": if is_good { "damaged" } else { "" }}));
                    }
                    // and the compressing wrapper after all that: once with a buffer that is too small (the
                    // caller's usual "try, enlarge, retry"), then with one that is large enough
                    for cap in [if needed > 1 { 1usize } else { 0 }, needed.saturating_sub(1), bound + 100] {
                        let mut g = Guarded::new(cap);
                        let mut rs: u64 = 0xDEAD_BEEF_DEAD_BEEF;
                        let p = g.ptr();
                        let status = guarded(|| unsafe { WrapperCompressZip(f.as_ptr(), f.len() as u64, p, cap as u64, &mut rs as *mut u64) });
                        let (st, unwound) = match status { Ok(s) => (s, false), Err(_) => (-99, true) };
                        let valid = st == 0 && (rs as usize) <= cap && matches!(guarded(|| decompress_zstd(g.data(rs as usize), 1 << 27)), Ok(Ok(ref x)) if x == f);
                        rep.push(json!({"call":"Compress","cap":cap,"status":st,"unwound":unwound,"rs_set": rs != 0xDEAD_BEEF_DEAD_BEEF,
                            "rs": if rs == 0xDEAD_BEEF_DEAD_BEEF { 0 } else { rs.min(1 << 30) },"guards":g.guards_intact(),"valid":valid,"after":"damaged and refused calls"}));
                    }
                    // the caller's input buffer reused for another file of the same length, right after a
                    // refused call: the result belongs to the bytes that are in the buffer now
                    if f.len() >= 2 {
                        let mut buf = f.clone();
                        let mut g0 = Guarded::new(1);
                        let mut rs0: u64 = 0;
                        let p0 = g0.ptr();
                        let _ = guarded(|| unsafe { WrapperCompressZip(buf.as_ptr(), buf.len() as u64, p0, 1, &mut rs0 as *mut u64) });
                        let n = buf.len();
                        buf[n - 1] ^= 0xff;
                        buf[n / 2] ^= 0x55;
                        let cap = bound + 1000;
                        let mut g = Guarded::new(cap);
                        let mut rs: u64 = 0xDEAD_BEEF_DEAD_BEEF;
                        let p = g.ptr();
                        let status = guarded(|| unsafe { WrapperCompressZip(buf.as_ptr(), buf.len() as u64, p, cap as u64, &mut rs as *mut u64) });
                        let (st, unwound) = match status { Ok(s) => (s, false), Err(_) => (-99, true) };
                        let valid = st == 0 && (rs as usize) <= cap && matches!(guarded(|| decompress_zstd(g.data(rs as usize), 1 << 27)), Ok(Ok(ref x)) if *x == buf);
                        // (the changed file may expand to something a little larger than `bound` was computed for:
                        // the capacity is generous, and only a wrong answer is held against the call)
                        if st == 0 || unwound {
                            rep.push(json!({"call":"Compress","cap":cap,"status":st,"unwound":unwound,"rs_set": rs != 0xDEAD_BEEF_DEAD_BEEF,
                                "rs": if rs == 0xDEAD_BEEF_DEAD_BEEF { 0 } else { rs.min(1 << 30) },"guards":g.guards_intact(),"valid":valid,"after":"a refused call on the same buffer, other contents"}));
                        }
                    }
                    // the frame just made, into a buffer one byte short, then into one that fits exactly
                    for cap in [need2.saturating_sub(1), need2] {
                        let mut g = Guarded::new(cap);
                        let mut rs: u64 = 0xDEAD_BEEF_DEAD_BEEF;
                        let p = g.ptr();
                        let status = guarded(|| unsafe { WrapperDecompressZip(good.as_ptr(), good.len() as u64, p, cap as u64, &mut rs as *mut u64) });
                        let (st, unwound) = match status { Ok(s) => (s, false), Err(_) => (-99, true) };
                        let valid = st == 0 && (rs as usize) <= cap && g.data(rs as usize) == &f[..];
                        rep.push(json!({"call":"Decompress","cap":cap,"need":need2,"status":st,"unwound":unwound,"rs_set": rs != 0xDEAD_BEEF_DEAD_BEEF,
                            "rs": if rs == 0xDEAD_BEEF_DEAD_BEEF { 0 } else { rs.min(1 << 30) },"guards":g.guards_intact(),"valid":valid,"frame":"valid","after":"refused calls"}));
                    }
                    serde_json::to_vec(&rep).unwrap()
                });
                match iso {
                    Ok(b) => {
                        for mut e in serde_json::from_slice::<Vec<Value>>(&b).unwrap_or_default() {
                            let call = e["call"].as_str().unwrap_or("").to_string();
                            e.as_object_mut().unwrap().remove("call");
                            writeln!(out, "{}", event(&call, e)).unwrap();
                        }
                    }
                    Err(how) => {
                        // (a decoder fed nonsense may run away until the child's limits end it: nothing
                        // is demanded of damaged containers beyond what a surviving call shows)
                        writeln!(out, "{}", event("SequenceDied", json!({"how":how}))).unwrap();
                    }
                }
            }
        }
        writeln!(out, "{}", event("Done", json!({}))).unwrap();
        run += 1;
    }
    // the limit the property names: a file whose expanded form is exactly 128 MiB goes through
    if args.get("limit").is_some() {
        out.flush().unwrap();
        let iso = isolated(8 << 30, 300, || {
            let target: usize = 128 << 20;
            // 300 KB that do not compress, then zeros: the frame is well over 8 KiB and the expanded form
            // sits exactly on the limit
            let mut f = vec![0u8; target - 6];
            let mut x: u64 = 0x9E3779B97F4A7C15;
            for b in f.iter_mut().take(300_000) {
                x ^= x << 13; x ^= x >> 7; x ^= x << 17;
                *b = 0x80 | (x as u8);
            }
            let e = expand_zlib_chunks(&f, 0).map(|x| x.len()).unwrap_or(0);
            if e != target && e > 0 { let n = (f.len() as i64 + target as i64 - e as i64) as usize; f.resize(n, 0); }
            let e = expand_zlib_chunks(&f, 0).map(|x| x.len()).unwrap_or(0);
            let cap = zstd::zstd_safe::compress_bound(e) + 100;
            let mut zbuf = vec![0u8; cap];
            let mut rs: u64 = 0xDEAD_BEEF_DEAD_BEEF;
            let st = guarded(|| unsafe { WrapperCompressZip(f.as_ptr(), f.len() as u64, zbuf.as_mut_ptr(), cap as u64, &mut rs as *mut u64) });
            let (st1, unw1) = match st { Ok(s) => (s, false), Err(_) => (-99, true) };
            let mut rep = vec![json!({"expanded": e, "flen": f.len()}),
                json!({"call":"Compress","cap":cap,"status":st1,"unwound":unw1,"rs_set": rs != 0xDEAD_BEEF_DEAD_BEEF,"rs": rs.min(1 << 30),"guards":true,"valid": st1 == 0 && (rs as usize) <= cap})];
            if st1 == 0 && (rs as usize) <= cap {
                let cap2 = f.len() + 100;
                let mut g = Guarded::new(cap2);
                let mut rs2: u64 = 0xDEAD_BEEF_DEAD_BEEF;
                let p = g.ptr();
                let st = guarded(|| unsafe { WrapperDecompressZip(zbuf.as_ptr(), rs, p, cap2 as u64, &mut rs2 as *mut u64) });
                let (st2, unw2) = match st { Ok(s) => (s, false), Err(_) => (-99, true) };
                let valid = st2 == 0 && (rs2 as usize) <= cap2 && g.data(rs2 as usize) == &f[..];
                rep.push(json!({"call":"Decompress","cap":cap2,"need":f.len(),"status":st2,"unwound":unw2,"rs_set": rs2 != 0xDEAD_BEEF_DEAD_BEEF,
                    "rs": if rs2 == 0xDEAD_BEEF_DEAD_BEEF { 0 } else { rs2.min(1 << 30) },"guards":g.guards_intact(),"valid":valid,"frame":"valid"}));
            }
            serde_json::to_vec(&rep).unwrap()
        });
        match iso {
            Ok(b) => {
                let rep = serde_json::from_slice::<Vec<Value>>(&b).unwrap_or_default();
                if let Some(h) = rep.first() {
                    writeln!(out, "{}", event("Reset", json!({"run":run,"flen":h["flen"],"needed":0,"bound":0,"segs":"zeros: expanded form exactly 128 MiB","expanded":h["expanded"],"hex":""}))).unwrap();
                    for e in rep.iter().skip(1) {
                        let mut e = e.clone();
                        let call = e["call"].as_str().unwrap_or("").to_string();
                        e.as_object_mut().unwrap().remove("call");
                        writeln!(out, "{}", event(&call, e)).unwrap();
                    }
                    writeln!(out, "{}", event("Done", json!({}))).unwrap();
                }
            }
            Err(how) => {
                writeln!(out, "{}", event("Reset", json!({"run":run,"flen":0,"needed":0,"bound":0,"segs":"zeros: expanded form exactly 128 MiB","hex":""}))).unwrap();
                writeln!(out, "{}", event("Crashed", json!({"call":"round trip at the 128 MiB limit","cap":0,"how":how}))).unwrap();
            }
        }
    }
    0
}

// ------------------------------------------------------------------- C14

/// sequential reference results, then the same calls from many threads at once
/// (shared and distinct inputs, started together behind a barrier); prints one
/// hash per (function, input) so that a second process can be compared
pub fn conc_record(args: &Args) -> i32 {
    quiet_panics();
    let seed = args.num("seed", 1);
    let threads = args.num("threads", 16) as usize;
    let rounds = args.num("rounds", 3) as usize;
    let ninputs = args.num("inputs", 6) as usize;
    let reps = args.num("reps", 6) as usize;
    let mut rng = Rng::new(seed ^ 0xC14);
    let big = build_pool(&mut rng, ninputs, true, args.num("maxlen", 30000) as usize);
    let small = build_pool(&mut rng, 2, false, 2000);
    if big.is_empty() || small.is_empty() {
        return 2;
    }
    // files with large literal chunks next to streams (both directions of the container code)
    let files: Vec<Vec<u8>> = (0..ninputs).map(|i| {
        let mut segs = random_segs_small(&mut rng);
        if i % 2 == 0 {
            segs.as_array_mut().unwrap().push(json!({"c":"junk","n":70000 + i * 1000}));
        }
        build_file(&segs, &big, &small, &mut rng).bytes
    }).collect();
    // one large file (more than 4 MiB once expanded) among the small ones, streams made from one
    // text with different window sizes (same hash function, different estimated windows): whatever
    // a call might leave behind in its thread differs between these
    let mut files = files;
    {
        let mut text: Vec<u8> = Vec::new();
        let words: Vec<Vec<u8>> = (0..400).map(|_| (0..rng.range(2, 10)).map(|_| b'a' + rng.below(26) as u8).collect()).collect();
        while text.len() < (5 << 20) + 4096 {
            let wi = rng.below(words.len() as u64) as usize;
            text.extend_from_slice(&words[wi]);
            text.push(b' ');
        }
        let mut f = crate::gen::junk(&mut rng, 300);
        f.extend_from_slice(&crate::gen::wrap_zlib(&crate::gen::zlib_raw(&text, 6, 0, 15, 8), &text, 2));
        f.extend_from_slice(&crate::gen::junk(&mut rng, 100));
        files.push(f);
    }
    // twins: the first files again with two bytes changed (same length, other contents)
    let ntwins = files.len().min(3);
    for k in 0..ntwins {
        let mut t = files[k].clone();
        if t.len() >= 2 { let n = t.len(); t[n - 1] ^= 0xff; t[n / 2] ^= 0x55; }
        files.push(t);
    }
    let twin_of = |k: usize| files.len() - ntwins + k;
    let mut streams: Vec<Vec<u8>> = big.iter().map(|b| b.stream.clone()).collect();
    {
        let mut text: Vec<u8> = Vec::new();
        while text.len() < 150_000 {
            let (_, p) = crate::gen::plaintext(&mut rng, 40000);
            text.extend_from_slice(&p);
        }
        for w in [10, 15, 9, 12] {
            streams.push(crate::gen::zlib_raw(&text, 6, 0, w, 8));
        }
        // ... and under small memory levels (the estimator then picks the other zlib hash variant)
        for (level, mem) in [(3, 3), (6, 4), (1, 4)] {
            streams.push(crate::gen::zlib_raw(&text, level, 0, 15, mem));
        }
    }
    // reconstructions that are refused part-way: correction data whose second half is zeroed.  (A
    // decoder fed nonsense may run away; only cases that a child process with limits got through
    // quickly are used in this process.)
    let mut refused: Vec<(Vec<u8>, Vec<u8>)> = Vec::new();
    // (multi-block streams first: the refusal should come after some blocks have been written)
    for st in streams.iter().rev().take(8) {
        if refused.len() >= 8 { break; }
        if let Ok(Ok(r)) = guarded(|| decompress_deflate_stream(st, false, 0)) {
            if r.prediction_corrections.len() < 16 { continue; }
            for cut in [2usize, 8] {
                let mut c2 = r.prediction_corrections.clone();
                let n = c2.len();
                for b in c2[n - n / cut..].iter_mut() { *b = 0; }
                let plain = r.plain_text.clone();
                let t0 = std::time::Instant::now();
                let probe = isolated(1 << 30, 5, || vec![recompress_deflate_stream(&plain, &c2).is_ok() as u8]);
                if probe.is_ok() && t0.elapsed().as_secs() < 3 {
                    refused.push((plain, c2));
                }
            }
        }
    }
    let nin = |f: usize| if f == 2 || f == 3 { streams.len() } else if f == 8 { refused.len() } else { files.len() };
    const NFN: usize = 9;
    // the C wrappers, with the caller's input always in the same per-thread buffer (a caller that
    // reuses one I/O buffer): 6 = compress, 7 = compress into a buffer that is far too small
    thread_local! { static INBUF: std::cell::RefCell<Vec<u8>> = std::cell::RefCell::new(Vec::with_capacity(16 << 20)); }
    let wrapper = |x: usize, refuse: bool| -> u64 {
        INBUF.with(|b| {
            let mut b = b.borrow_mut();
            b.clear();
            b.extend_from_slice(&files[x]);
            let cap = if refuse { 1 } else { zstd::zstd_safe::compress_bound(files[x].len() + 4096) + 4096 };
            let mut outb = vec![0u8; cap];
            let mut rs: u64 = 0;
            let st = unsafe { WrapperCompressZip(b.as_ptr(), b.len() as u64, outb.as_mut_ptr(), cap as u64, &mut rs as *mut u64) };
            if st == 0 && (rs as usize) <= cap { fnv(&outb[..rs as usize]) } else { (st as i64 as u64) ^ 0x5151 }
        })
    };
    // function f on input x -> result hash
    let call = |f: usize, x: usize| -> u64 {
        let r = guarded(|| match f {
            0 => expand_zlib_chunks(&files[x], 0).map(|v| fnv(&v)).unwrap_or(1),
            1 => {
                let c = expand_zlib_chunks(&files[x], 0).unwrap_or_default();
                let mut o = Vec::new();
                match recreated_zlib_chunks(&mut std::io::Cursor::new(&c), &mut o) { Ok(_) => fnv(&o), Err(_) => 2 }
            }
            2 => match decompress_deflate_stream(&streams[x], x % 2 == 0, 0) {
                Ok(r) => fnv(&r.plain_text) ^ fnv(&r.prediction_corrections).rotate_left(17) ^ r.compressed_size as u64,
                Err(_) => 3,
            },
            3 => match decompress_deflate_stream(&streams[x], false, 0) {
                Ok(r) => recompress_deflate_stream(&r.plain_text, &r.prediction_corrections).map(|v| fnv(&v)).unwrap_or(4),
                Err(_) => 5,
            },
            4 => compress_zstd(&files[x], 0).map(|v| fnv(&v)).unwrap_or(7),
            5 => match compress_zstd(&files[x], 0) {
                Ok(z) => decompress_zstd(&z, 64 << 20).map(|v| fnv(&v)).unwrap_or(8),
                Err(_) => 9,
            },
            6 => wrapper(x, false),
            7 => wrapper(x, true),
            _ => match recompress_deflate_stream(&refused[x].0, &refused[x].1) { Ok(v) => fnv(&v), Err(_) => 10 },
        });
        r.unwrap_or(6)
    };
    let mut out = std::io::BufWriter::new(std::fs::File::create(args.req("out")).unwrap());
    writeln!(out, "{}", event("Reset", json!({"run":0,"threads":threads,"inputs":ninputs,"files":files.len(),"streams":streams.len()}))).unwrap();
    // reference: every call on a thread of its own, with no history
    for f in 0..NFN {
        for x in 0..nin(f) {
            let h = std::thread::scope(|s| s.spawn(|| call(f, x)).join().unwrap_or(6));
            writeln!(out, "{}", event("Fresh", json!({"fn":f,"x":x,"hash":format!("{:016x}", h)}))).unwrap();
        }
    }
    // the same calls on threads that may use one processor only
    for f in 0..NFN {
        for x in 0..nin(f) {
            let h = std::thread::scope(|s| s.spawn(|| {
                unsafe {
                    let mut set: libc::cpu_set_t = std::mem::zeroed();
                    libc::CPU_SET(0, &mut set);
                    libc::sched_setaffinity(0, std::mem::size_of::<libc::cpu_set_t>(), &set);
                }
                call(f, x)
            }).join().unwrap_or(6));
            writeln!(out, "{}", event("End", json!({"t":0,"fn":f,"x":x,"round":-5,"rep":1,"hash":format!("{:016x}", h)}))).unwrap();
        }
    }
    // the main thread, one call after the other
    for f in 0..NFN {
        for x in 0..nin(f) {
            let h = call(f, x);
            writeln!(out, "{}", event("Seq", json!({"fn":f,"x":x,"hash":format!("{:016x}", h)}))).unwrap();
        }
    }
    // histories: a few long-lived threads, each running every call in an order of its own, twice
    // over (so that every call also runs after every other call)
    {
        let pairs: Vec<(usize, usize)> = (0..NFN).flat_map(|f| (0..nin(f)).map(move |x| (f, x))).collect();
        let nhist = args.num("histories", 3) as usize;
        let orders: Vec<Vec<(usize, usize)>> = (0..nhist).map(|_| {
            let mut o = pairs.clone();
            for i in (1..o.len()).rev() { let j = rng.below(i as u64 + 1) as usize; o.swap(i, j); }
            let mut twice = o.clone();
            twice.extend_from_slice(&o);
            // a refused wrapper call, then the twin (same length, same buffer, other contents)
            for k in 0..ntwins {
                twice.push((7, k)); twice.push((6, twin_of(k)));
                twice.push((7, twin_of(k))); twice.push((6, k));
            }
            twice
        }).collect();
        let hlog: Mutex<Vec<Value>> = Mutex::new(Vec::new());
        std::thread::scope(|s| {
            for (t, order) in orders.iter().enumerate() {
                let hlog = &hlog;
                let call = &call;
                s.spawn(move || {
                    for (k, &(f, x)) in order.iter().enumerate() {
                        let h = call(f, x);
                        hlog.lock().unwrap().push(json!({"t":t,"fn":f,"x":x,"round":-2,"rep":k,"hash":format!("{:016x}", h)}));
                    }
                });
            }
        });
        for e in hlog.lock().unwrap().iter() {
            writeln!(out, "{}", event("End", e.clone())).unwrap();
        }
    }
    // the arguments are the bytes, not where they happen to lie: the same input at every address
    // modulo 8 (a sub-slice of a larger buffer)
    for x in 0..files.len().min(ninputs) {
        let mut buf = vec![0u8; files[x].len() + 16];
        let base = buf.as_ptr() as usize;
        for want in 0..8usize {
            let off = (want + 8 - base % 8) % 8;
            buf[off..off + files[x].len()].copy_from_slice(&files[x]);
            let sl = &buf[off..off + files[x].len()];
            let h0 = guarded(|| expand_zlib_chunks(sl, 0).map(|v| fnv(&v)).unwrap_or(1)).unwrap_or(6);
            writeln!(out, "{}", event("End", json!({"t":0,"fn":0,"x":x,"round":-3,"rep":want,"hash":format!("{:016x}", h0)}))).unwrap();
            let h4 = guarded(|| compress_zstd(sl, 0).map(|v| fnv(&v)).unwrap_or(7)).unwrap_or(6);
            writeln!(out, "{}", event("End", json!({"t":0,"fn":4,"x":x,"round":-3,"rep":want,"hash":format!("{:016x}", h4)}))).unwrap();
        }
    }
    for x in 0..streams.len() {
        let mut buf = vec![0u8; streams[x].len() + 16];
        let base = buf.as_ptr() as usize;
        for want in [1usize, 4, 7] {
            let off = (want + 8 - base % 8) % 8;
            buf[off..off + streams[x].len()].copy_from_slice(&streams[x]);
            let sl = &buf[off..off + streams[x].len()];
            let h = guarded(|| match decompress_deflate_stream(sl, x % 2 == 0, 0) {
                Ok(r) => fnv(&r.plain_text) ^ fnv(&r.prediction_corrections).rotate_left(17) ^ r.compressed_size as u64,
                Err(_) => 3,
            }).unwrap_or(6);
            writeln!(out, "{}", event("End", json!({"t":0,"fn":2,"x":x,"round":-3,"rep":want,"hash":format!("{:016x}", h)}))).unwrap();
        }
    }
    // the arguments are the bytes, not the machine either: a large file with small streams whose
    // signatures sit exactly where a division of the file into 2..64 equal parts would cut it,
    // expanded with all processors available and again on a thread pinned to one processor
    {
        let l: usize = 4 << 20;
        let mut f = crate::gen::junk(&mut rng, l);
        let zeros = vec![0u8; 1500];
        let mini = crate::gen::wrap_zlib(&crate::gen::zlib_raw(&zeros, 9, 0, 15, 8), &zeros, 2);
        let mut used: Vec<usize> = Vec::new();
        for parts in 2..=64usize {
            for cut in [(l + parts - 1) / parts, l / parts] {
                for k in 1..parts.min(4) {
                    let at = cut * k;
                    if at < 1 || at + mini.len() + 8 >= l { continue; }
                    let at = at - 1; // the first byte of the signature is the last byte before the cut
                    if used.iter().any(|&u| (u as i64 - at as i64).abs() < (mini.len() + 16) as i64) { continue; }
                    f[at..at + mini.len()].copy_from_slice(&mini);
                    used.push(at);
                }
            }
        }
        let h_all = guarded(|| expand_zlib_chunks(&f, 0).map(|v| fnv(&v)).unwrap_or(1)).unwrap_or(6);
        writeln!(out, "{}", event("Seq", json!({"fn":0,"x":9000,"hash":format!("{:016x}", h_all),"streams":used.len()}))).unwrap();
        let h_one = std::thread::scope(|s| s.spawn(|| {
            unsafe {
                let mut set: libc::cpu_set_t = std::mem::zeroed();
                libc::CPU_SET(0, &mut set);
                libc::sched_setaffinity(0, std::mem::size_of::<libc::cpu_set_t>(), &set);
            }
            guarded(|| expand_zlib_chunks(&f, 0).map(|v| fnv(&v)).unwrap_or(1)).unwrap_or(6)
        }).join().unwrap_or(6));
        writeln!(out, "{}", event("End", json!({"t":0,"fn":0,"x":9000,"round":-5,"rep":0,"hash":format!("{:016x}", h_one)}))).unwrap();
    }
    // repeatability first: many small streams with unusual compressor settings (where the
    // estimator's candidates tie), analysed repeatedly; no threads needed for this part
    let ndet = args.num("det", 60) as usize;
    for i in 0..ndet {
        // the estimator derives a memory level from the fullest block, so the interesting
        // streams are long enough to fill blocks at the memory level they were made with
        let want = if i % 2 == 0 { 6000 } else { 120000 };
        let mut plain = Vec::new();
        while plain.len() < want / 2 {
            let (_, p) = crate::gen::plaintext(&mut rng, want);
            plain.extend_from_slice(&p);
        }
        let level = rng.range(1, 9) as i32;
        let mem = *rng.pick(&[1, 3, 5, 6, 7, 7, 9, 9, 8]);
        let s = crate::gen::zlib_raw(&plain, level, 0, 15, mem);
        let h = |s: &[u8]| match guarded(|| decompress_deflate_stream(s, false, 0)) {
            Ok(Ok(r)) => fnv(&r.plain_text) ^ fnv(&r.prediction_corrections).rotate_left(17) ^ r.compressed_size as u64,
            _ => 3,
        };
        let x = 1000 + i;
        writeln!(out, "{}", event("Seq", json!({"fn":2,"x":x,"hash":format!("{:016x}", h(&s))}))).unwrap();
        for rep in 0..3 {
            writeln!(out, "{}", event("End", json!({"t":0,"fn":2,"x":x,"round":-1,"rep":rep,"hash":format!("{:016x}", h(&s))}))).unwrap();
        }
    }
    let log: Mutex<Vec<Value>> = Mutex::new(Vec::new());
    // noisy neighbours: half of the threads do nothing but get garbage rejected (thousands of
    // calls that fail at once) while the other half expands files that hold real streams
    {
        let stop = std::sync::atomic::AtomicBool::new(false);
        let barrier = std::sync::Barrier::new(threads);
        let garbage: Vec<Vec<u8>> = (0..64).map(|_| crate::gen::junk(&mut rng, 12)).collect();
        let workers = (threads / 2).max(1);
        let done = std::sync::atomic::AtomicUsize::new(0);
        std::thread::scope(|s| {
            for t in 0..threads {
                let (barrier, log, call, stop, garbage, done, files) = (&barrier, &log, &call, &stop, &garbage, &done, &files);
                s.spawn(move || {
                    barrier.wait();
                    if t >= workers {
                        let mut k = 0usize;
                        while !stop.load(Ordering::SeqCst) {
                            let _ = guarded(|| decompress_deflate_stream(&garbage[k % garbage.len()], false, 0).is_ok());
                            k += 1;
                        }
                    } else {
                        for rep in 0..2 {
                            for x in 0..files.len() {
                                let h = call(0, x);
                                log.lock().unwrap().push(json!({"t":t,"fn":0,"x":x,"round":-4,"rep":rep,"hash":format!("{:016x}", h)}));
                            }
                        }
                        if done.fetch_add(1, Ordering::SeqCst) + 1 == workers {
                            stop.store(true, Ordering::SeqCst);
                        }
                    }
                });
            }
        });
    }
    for round in 0..rounds {
        let barrier = std::sync::Barrier::new(threads);
        let mut plan: Vec<(usize, usize)> = Vec::new();
        for t in 0..threads {
            // rounds 0-3: every thread the same function (round = function) on inputs dealt out
            // in turn, so that calls of one kind overlap; later rounds: random mixes
            plan.push(if round < NFN { (round, t % nin(round)) } else { let f = rng.below(NFN as u64) as usize; (f, rng.below(nin(f) as u64) as usize) });
        }
        std::thread::scope(|s| {
            for t in 0..threads {
                let (f, x) = plan[t];
                let barrier = &barrier;
                let log = &log;
                let call = &call;
                s.spawn(move || {
                    barrier.wait();
                    for rep in 0..reps {
                        let h = call(f, x);
                        log.lock().unwrap().push(json!({"t":t,"fn":f,"x":x,"round":round,"rep":rep,"hash":format!("{:016x}", h)}));
                    }
                });
            }
        });
    }
    for e in log.lock().unwrap().iter() {
        writeln!(out, "{}", event("End", e.clone())).unwrap();
    }
    writeln!(out, "{}", event("Done", json!({}))).unwrap();
    0
}
