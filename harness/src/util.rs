// Small helpers shared by all harness subcommands: PRNG, hex, panic capture,
// argument parsing, a per-case watchdog.

use std::collections::HashMap;
use std::panic::{catch_unwind, AssertUnwindSafe};
use std::sync::atomic::{AtomicU64, Ordering};
use std::sync::{Arc, Mutex};
use std::time::{Duration, Instant};

/// splitmix64 / xoshiro-like generator; deterministic for a seed
#[derive(Clone)]
pub struct Rng(pub u64);

impl Rng {
    pub fn new(seed: u64) -> Self {
        Rng(seed.wrapping_mul(0x9E3779B97F4A7C15) ^ 0xD1B54A32D192ED03)
    }
    pub fn next(&mut self) -> u64 {
        self.0 = self.0.wrapping_add(0x9E3779B97F4A7C15);
        let mut z = self.0;
        z = (z ^ (z >> 30)).wrapping_mul(0xBF58476D1CE4E5B9);
        z = (z ^ (z >> 27)).wrapping_mul(0x94D049BB133111EB);
        z ^ (z >> 31)
    }
    /// uniform in 0..n (n > 0)
    pub fn below(&mut self, n: u64) -> u64 {
        self.next() % n
    }
    pub fn range(&mut self, lo: u64, hi_incl: u64) -> u64 {
        lo + self.below(hi_incl - lo + 1)
    }
    pub fn chance(&mut self, num: u64, den: u64) -> bool {
        self.below(den) < num
    }
    pub fn pick<'a, T>(&mut self, xs: &'a [T]) -> &'a T {
        &xs[self.below(xs.len() as u64) as usize]
    }
    pub fn fork(&mut self) -> Rng {
        Rng::new(self.next())
    }
}

pub fn hex(b: &[u8]) -> String {
    let mut s = String::with_capacity(b.len() * 2);
    for x in b {
        s.push_str(&format!("{:02x}", x));
    }
    s
}

pub fn unhex(s: &str) -> Vec<u8> {
    (0..s.len() / 2)
        .map(|i| u8::from_str_radix(&s[2 * i..2 * i + 2], 16).unwrap())
        .collect()
}

pub fn fnv(b: &[u8]) -> u64 {
    let mut h: u64 = 0xcbf29ce484222325;
    for x in b {
        h ^= *x as u64;
        h = h.wrapping_mul(0x100000001b3);
    }
    h
}

thread_local! {
    static LAST_PANIC_AT: std::cell::RefCell<String> = std::cell::RefCell::new(String::new());
}

/// installs a panic hook that stays quiet (panics are data here) and remembers
/// where the panic was raised
pub fn quiet_panics() {
    std::panic::set_hook(Box::new(|info| {
        let at = info
            .location()
            .map(|l| {
                let f = l.file();
                let f = f.rsplit('/').next().unwrap_or(f);
                format!("{}:{}", f, l.line())
            })
            .unwrap_or_default();
        LAST_PANIC_AT.with(|c| *c.borrow_mut() = at);
    }));
}

/// "file.rs" of the last panic on this thread (line numbers dropped so that
/// the class survives unrelated edits), and the full "file.rs:line"
pub fn last_panic_at() -> (String, String) {
    LAST_PANIC_AT.with(|c| {
        let s = c.borrow().clone();
        (s.split(':').next().unwrap_or("").to_string(), s)
    })
}

/// Ok(value) or Err(panic message)
pub fn guarded<T>(f: impl FnOnce() -> T) -> Result<T, String> {
    match catch_unwind(AssertUnwindSafe(f)) {
        Ok(v) => Ok(v),
        Err(e) => {
            let msg = if let Some(s) = e.downcast_ref::<&str>() {
                s.to_string()
            } else if let Some(s) = e.downcast_ref::<String>() {
                s.clone()
            } else {
                "panic".to_string()
            };
            let (_, at) = last_panic_at();
            Err(format!("{} @{}", msg, at))
        }
    }
}

pub struct Args {
    pub pos: Vec<String>,
    pub kv: HashMap<String, String>,
}

impl Args {
    pub fn parse(v: &[String]) -> Args {
        let mut pos = Vec::new();
        let mut kv = HashMap::new();
        let mut i = 0;
        while i < v.len() {
            if let Some(k) = v[i].strip_prefix("--") {
                if i + 1 < v.len() && !v[i + 1].starts_with("--") {
                    kv.insert(k.to_string(), v[i + 1].clone());
                    i += 2;
                } else {
                    kv.insert(k.to_string(), "1".to_string());
                    i += 1;
                }
            } else {
                pos.push(v[i].clone());
                i += 1;
            }
        }
        Args { pos, kv }
    }
    pub fn get(&self, k: &str) -> Option<&str> {
        self.kv.get(k).map(|s| s.as_str())
    }
    pub fn num(&self, k: &str, d: u64) -> u64 {
        self.get(k).map(|s| s.parse().unwrap()).unwrap_or(d)
    }
    pub fn req(&self, k: &str) -> &str {
        self.get(k).unwrap_or_else(|| panic!("missing --{}", k))
    }
}

/// Watchdog for hangs: each worker announces the case it is working on; if a
/// case runs longer than the limit the process writes a TIMEOUT record through
/// the callback and exits with status 3.
pub struct Watchdog {
    slots: Arc<Mutex<Vec<Option<(String, Instant)>>>>,
}

impl Watchdog {
    pub fn start(workers: usize, limit: Duration, on_timeout: Box<dyn Fn(&str) + Send>) -> Self {
        let slots: Arc<Mutex<Vec<Option<(String, Instant)>>>> =
            Arc::new(Mutex::new(vec![None; workers]));
        let s2 = slots.clone();
        std::thread::spawn(move || loop {
            std::thread::sleep(Duration::from_millis(500));
            let g = s2.lock().unwrap();
            for s in g.iter() {
                if let Some((id, t)) = s {
                    if t.elapsed() > limit {
                        on_timeout(id);
                        std::process::exit(3);
                    }
                }
            }
        });
        Watchdog { slots }
    }
    pub fn enter(&self, w: usize, id: &str) {
        self.slots.lock().unwrap()[w] = Some((id.to_string(), Instant::now()));
    }
    pub fn leave(&self, w: usize) {
        self.slots.lock().unwrap()[w] = None;
    }
}

/// runs `f(index, worker)` for every index in 0..n on `threads` threads
pub fn par_for(n: usize, threads: usize, f: impl Fn(usize, usize) + Sync) {
    let next = AtomicU64::new(0);
    std::thread::scope(|s| {
        for w in 0..threads.max(1) {
            let next = &next;
            let f = &f;
            s.spawn(move || loop {
                let i = next.fetch_add(1, Ordering::SeqCst) as usize;
                if i >= n {
                    break;
                }
                f(i, w);
            });
        }
    });
}

/// serialises an event with the "e" key first (serde_json sorts keys), so that
/// readers can recognise the event kind from the start of the line
pub fn event(e: &str, body: serde_json::Value) -> String {
    let s = body.to_string();
    if s == "{}" || !s.starts_with('{') {
        format!("{{\"e\":\"{}\"}}", e)
    } else {
        format!("{{\"e\":\"{}\",{}", e, &s[1..])
    }
}

/// Runs `f` in a forked child with an address-space and CPU limit and returns
/// what it wrote, or how the child died.  For calls that may run away (a
/// decoder fed data it misreads can loop and allocate without bound).  Only
/// to be used from a single-threaded part of the harness.
pub fn isolated(mem_bytes: u64, cpu_secs: u64, f: impl FnOnce() -> Vec<u8>) -> Result<Vec<u8>, String> {
    unsafe {
        let mut fds = [0i32; 2];
        if libc::pipe(fds.as_mut_ptr()) != 0 {
            return Err("pipe failed".into());
        }
        let pid = libc::fork();
        if pid < 0 {
            return Err("fork failed".into());
        }
        if pid == 0 {
            libc::close(fds[0]);
            let lim = libc::rlimit { rlim_cur: mem_bytes, rlim_max: mem_bytes };
            libc::setrlimit(libc::RLIMIT_AS, &lim);
            let lim = libc::rlimit { rlim_cur: cpu_secs, rlim_max: cpu_secs + 1 };
            libc::setrlimit(libc::RLIMIT_CPU, &lim);
            let r = catch_unwind(AssertUnwindSafe(f));
            let (tag, body): (u8, Vec<u8>) = match r {
                Ok(v) => (0, v),
                Err(_) => (1, Vec::new()),
            };
            let mut buf = vec![tag];
            buf.extend_from_slice(&body);
            let mut off = 0;
            while off < buf.len() {
                let n = libc::write(fds[1], buf[off..].as_ptr() as *const libc::c_void, buf.len() - off);
                if n <= 0 {
                    break;
                }
                off += n as usize;
            }
            libc::_exit(0);
        }
        libc::close(fds[1]);
        let mut out = Vec::new();
        let mut chunk = [0u8; 65536];
        loop {
            let n = libc::read(fds[0], chunk.as_mut_ptr() as *mut libc::c_void, chunk.len());
            if n <= 0 {
                break;
            }
            out.extend_from_slice(&chunk[..n as usize]);
        }
        libc::close(fds[0]);
        let mut status = 0i32;
        libc::waitpid(pid, &mut status, 0);
        if libc::WIFSIGNALED(status) {
            return Err(format!("killed by signal {}{}", libc::WTERMSIG(status), match libc::WTERMSIG(status) { 24 => " (CPU time limit: a runaway loop)", 9 => " (memory limit or killed)", 6 => " (abort)", 11 => " (segmentation fault)", _ => "" }));
        }
        if out.is_empty() {
            return Err(format!("child exited with status {} and no result", libc::WEXITSTATUS(status)));
        }
        if out[0] == 1 {
            return Err("panic".into());
        }
        Ok(out[1..].to_vec())
    }
}
