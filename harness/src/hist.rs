// C04: data written by the frozen reference build (crate preflate-ref) must be
// reconstructed by the current build while both declare the same format
// version numbers.  Also cross-trace validation: the operations the reference
// build encoded and the operations the current build decodes from those bytes
// must agree under the coding-relevant projection.

use crate::container::{build_file, build_pool};
use crate::gen;
use crate::util::*;
use serde_json::{json, Value};
use std::collections::HashMap;
use std::io::Write;

/// (kind, first-use context id for corrections, value, width); misprediction
/// contexts do not reach the coder and State markers are not coded
fn project_cur(ops: &[preflate_rs::verif::Op]) -> Vec<(u8, u32, u32, u8)> {
    use preflate_rs::verif::Op;
    let mut names: HashMap<u8, u32> = HashMap::new();
    ops.iter()
        .filter_map(|o| match o {
            Op::Value { v, bits } => Some((0u8, 0u32, *v as u32, *bits)),
            Op::Mis { v, .. } => Some((1, 0, *v as u32, 0)),
            Op::Corr { ctx, v, .. } => {
                let n = names.len() as u32;
                Some((2, *names.entry(*ctx).or_insert(n), *v, 0))
            }
            Op::State { .. } => None,
        })
        .collect()
}

fn project_ref(ops: &[preflate_ref::verif::Op]) -> Vec<(u8, u32, u32, u8)> {
    use preflate_ref::verif::Op;
    let mut names: HashMap<u8, u32> = HashMap::new();
    ops.iter()
        .filter_map(|o| match o {
            Op::Value { v, bits } => Some((0u8, 0u32, *v as u32, *bits)),
            Op::Mis { v, .. } => Some((1, 0, *v as u32, 0)),
            Op::Corr { ctx, v, .. } => {
                let n = names.len() as u32;
                Some((2, *names.entry(*ctx).or_insert(n), *v, 0))
            }
            Op::State { .. } => None,
        })
        .collect()
}

fn res3<T, E>(r: Result<Result<T, E>, String>) -> (&'static str, Option<T>) {
    match r {
        Ok(Ok(x)) => ("ok", Some(x)),
        Ok(Err(_)) => ("err", None),
        Err(_) => ("panic", None),
    }
}

pub fn record(args: &Args) -> i32 {
    quiet_panics();
    let seed = args.num("seed", 1);
    let nstreams = args.num("streams", 40) as usize;
    let nfiles = args.num("files", 12) as usize;
    let maxlen = args.num("maxlen", 40000) as usize;
    let mut rng = Rng::new(seed ^ 0x404);
    let mut out = std::io::BufWriter::new(std::fs::File::create(args.req("out")).unwrap());
    let vref = preflate_ref::verif::format_versions();
    let vcur = preflate_rs::verif::format_versions();
    let versions = json!({"ref":[vref.0, vref.1],"cur":[vcur.0, vcur.1]});
    let mut run = 0;

    // streams: compressor outputs, the repository's samples, mutations
    let mut streams: Vec<(String, Vec<u8>)> = Vec::new();
    for d in crate::deflate::sample_streams() {
        streams.push((d.label, d.bytes));
    }
    for _ in 0..nstreams {
        let (pn, plain) = gen::plaintext(&mut rng, maxlen);
        let (cn, s) = gen::compress_random(&mut rng, &plain);
        if rng.chance(1, 4) {
            let (m, b) = gen::mutate(&mut rng, &s, &[1, 2, 3]);
            streams.push((format!("{}/{}/{}", pn, cn, m), b));
        }
        streams.push((format!("{}/{}", pn, cn), s));
    }
    for (label, bytes) in gen::sweep_streams(&mut rng, args.num("sweeps", 4) as usize, args.num("window", 40) as usize) {
        streams.push((label, bytes));
    }
    for (label, bytes) in gen::frequent_symbol_streams(&mut rng) {
        streams.push((label, bytes));
    }
    for (label, bytes) in gen::window_edge_streams(&mut rng).into_iter().chain(gen::reshift_edge_streams(&mut rng, maxlen > 40000)) {
        streams.push((label, bytes));
    }
    if let Some(extra) = args.get("extra") {
        // generated streams (hex, one per line)
        if let Ok(txt) = std::fs::read_to_string(extra) {
            for (i, l) in txt.lines().enumerate() {
                streams.push((format!("generated/{}", i), unhex(l.trim())));
            }
        }
    }
    for (label, s) in &streams {
        let w = guarded(|| preflate_ref::decompress_deflate_stream(s, true, 0));
        let (wres, r) = res3(w);
        writeln!(out, "{}", event("Reset", json!({"run":run,"kind":"stream","label":label,"versions":versions,"len":s.len(),
            "hex": if s.len() < 3000 { hex(s) } else { String::new() }}))).unwrap();
        writeln!(out, "{}", event("Write", json!({"build":"ref","result":wres}))).unwrap();
        if let Some(r) = r {
            let orig = &s[..r.compressed_size];
            // the current build reading foreign data may misread it and run away: isolate it
            out.flush().unwrap();
            let iso = isolated(6 << 30, 60, || match preflate_rs::recompress_deflate_stream(&r.plain_text, &r.prediction_corrections) {
                Ok(b) => { let mut v = vec![0u8]; v.extend_from_slice(&b); v }
                Err(_) => vec![1u8],
            });
            let (rres, back): (&str, Option<Vec<u8>>) = match &iso {
                Ok(v) if v.first() == Some(&0) => ("ok", Some(v[1..].to_vec())),
                Ok(_) => ("err", None),
                Err(e) if e == "panic" => ("panic", None),
                Err(_) => ("runaway", None),
            };
            let equal = back.as_ref().map(|b| &b[..] == orig).unwrap_or(false);
            writeln!(out, "{}", event("Read", json!({"build":"cur","result":rres,"equal":equal}))).unwrap();
            let safe = rres != "runaway";
            // control: the reference reads its own data
            let rr = guarded(|| preflate_ref::recompress_deflate_stream(&r.plain_text, &r.prediction_corrections));
            let (cres, cback) = res3(rr);
            writeln!(out, "{}", event("Read", json!({"build":"ref","result":cres,"equal":cback.map(|b| &b[..] == orig).unwrap_or(false)}))).unwrap();
            // cross-trace: what the reference encoded vs what the current build decodes
            let enc = guarded(|| preflate_ref::verif::analyse_trace(s));
            let dec = if safe { guarded(|| preflate_rs::verif::reconstruct_trace(&r.plain_text, &r.prediction_corrections)) } else { Err("runaway".to_string()) };
            if let (Ok(e), Ok(d)) = (enc, dec) {
                let pe = project_ref(&e.ops);
                let pd = project_cur(&d.ops);
                let first = pe.iter().zip(pd.iter()).position(|(a, b)| a != b);
                let equal = pe == pd;
                writeln!(out, "{}", event("Ops", json!({"n_ref":pe.len(),"n_cur":pd.len(),"equal":equal,
                    "first_diff": first.map(|x| x as i64).unwrap_or(if equal { -1 } else { pe.len().min(pd.len()) as i64 }),
                    "same_bytes": e.corrections == r.prediction_corrections}))).unwrap();
            }
        }
        writeln!(out, "{}", event("Done", json!({}))).unwrap();
        run += 1;
    }

    // containers
    let big = build_pool(&mut rng, 8, true, maxlen);
    let small = build_pool(&mut rng, 3, false, 2000);
    let mut files: Vec<(Value, Vec<u8>)> = Vec::new();
    if !big.is_empty() && !small.is_empty() {
        for _ in 0..nfiles {
            let segs = crate::container::random_segs_pub(&mut rng);
            let b = build_file(&segs, &big, &small, &mut rng);
            files.push((segs, b.bytes));
        }
    }
    for name in ["samplezip.zip", "sample1.bin.gz", "treegdi.png"] {
        if let Ok(b) = std::fs::read(format!("/repo/samples/{}", name)) {
            files.push((json!({"sample":name}), b));
        }
    }
    for (desc, f) in &files {
        let w = guarded(|| preflate_ref::expand_zlib_chunks(f, 0));
        let (wres, c) = res3(w);
        writeln!(out, "{}", event("Reset", json!({"run":run,"kind":"file","label":desc,"versions":versions,"len":f.len(),
            "hex": if f.len() < 3000 { hex(f) } else { String::new() }}))).unwrap();
        writeln!(out, "{}", event("Write", json!({"build":"ref","result":wres}))).unwrap();
        if let Some(c) = c {
            out.flush().unwrap();
            let iso = isolated(8 << 30, 120, || {
                let mut o = vec![0u8];
                match preflate_rs::recreated_zlib_chunks(&mut std::io::Cursor::new(&c), &mut o) { Ok(_) => o, Err(_) => vec![1u8] }
            });
            let (rres, back): (&str, Option<Vec<u8>>) = match &iso {
                Ok(v) if v.first() == Some(&0) => ("ok", Some(v[1..].to_vec())),
                Ok(_) => ("err", None),
                Err(e) if e == "panic" => ("panic", None),
                Err(_) => ("runaway", None),
            };
            writeln!(out, "{}", event("Read", json!({"build":"cur","result":rres,"equal":back.map(|b| b == *f).unwrap_or(false)}))).unwrap();
            // the current build's own container must be the same bytes as long as nothing changed
            let cc = guarded(|| preflate_rs::expand_zlib_chunks(f, 0));
            if let ("ok", Some(c2)) = res3(cc) {
                writeln!(out, "{}", event("SameContainer", json!({"equal": c2 == c}))).unwrap();
            }
        }
        writeln!(out, "{}", event("Done", json!({}))).unwrap();
        run += 1;
    }
    0
}
