------------------------------- MODULE Stream -------------------------------
(***************************************************************************)
(* The correction-operation grammar of one stream (src/process.rs          *)
(* predict_blocks / recreate_blocks, src/token_predictor.rs predict_block  *)
(* / recreate_block).  Operations are <<kind, role, value, width>>.        *)
(*                                                                         *)
(*  Stream := Header [M(EOF,1) if the plaintext is empty] Block*           *)
(*  Block  := C(BlockType, diff(dynamic, type))                            *)
(*            ( V(len,16) C(NonZeroPadding,pad)                   stored   *)
(*            | C(TokenCount, 0 | n+1) Token^n [Tree if dynamic] )         *)
(*            Trailer                                                      *)
(*  Trailer:= M(EOF,1)                        not last, input exhausted    *)
(*          | (nothing)                       not last                     *)
(*          | M(EOF,0) C(NonZeroPadding,pad)  after the last block         *)
(*  Token  := M(LitWrong,0) | M(RefWrong,1)                  target literal*)
(*          | (M(LitWrong,1) | M(RefWrong,0)) C(Len,x)                     *)
(*            (C(DistAfterLen,h>=1) if x # 0 | C(DistOnly,h>=0) if x = 0)  *)
(*            [M(Irregular258,b) if the target length is 258]              *)
(* What the predictor predicted is not logged; the grammar says which      *)
(* values are possible for some prediction.                                *)
(***************************************************************************)
EXTENDS TreePredict

\* RFC block type (0 stored, 1 fixed, 2 dynamic) -> discriminant used in the difference
\* against the predicted type "dynamic" (dynamic 0, stored 1, fixed 2)
TypeCode(t) == IF t = 2 THEN 0 ELSE IF t = 0 THEN 1 ELSE 2

TokenCountValue(b, last, maxtok) ==
  IF (~last /\ b.ntok # maxtok) \/ b.ntok > maxtok THEN b.ntok + 1 ELSE 0

BlockStartOps(b, last, maxtok) ==
  << C("BlockTypeCorrection", EncodeDiffT(0, TypeCode(b.type))) >>
  \o (IF b.type = 0 THEN << Vl(b.slen, 16), C("NonZeroPadding", b.pad) >>
      ELSE << C("TokenCount", TokenCountValue(b, last, maxtok)) >>)

Trailer(last, exhausted, eofpad) ==
  IF last THEN << M("EOFMisprediction", FALSE), C("NonZeroPadding", eofpad) >>
  ELSE IF exhausted THEN << M("EOFMisprediction", TRUE) >> ELSE <<>>

\* a length correction x is possible for target length len iff it is the difference to
\* some predicted length in 3..258
LenCorrOk(x, len) == IF x % 2 = 0 THEN len + (x \div 2) <= 258
                     ELSE (x \div 2) >= 1 /\ len >= 3 + (x \div 2)

\* t = <<0, byte, 0, 0>> | <<1, len, dist, irr>>
TokenOpsOk(t, ops) ==
  IF t[1] = 0 THEN ops \in { << M("LiteralPredictionWrong", FALSE) >>, << M("ReferencePredictionWrong", TRUE) >> }
  ELSE /\ Len(ops) = (IF t[2] = 258 THEN 4 ELSE 3)
       /\ ops[1] \in { M("LiteralPredictionWrong", TRUE), M("ReferencePredictionWrong", FALSE) }
       /\ ops[2][1] = "C" /\ ops[2][2] = "LenCorrection" /\ LenCorrOk(ops[2][3], t[2])
       /\ ops[3][1] = "C"
       /\ IF ops[2][3] # 0 THEN ops[3][2] = "DistAfterLenCorrection" /\ ops[3][3] >= 1
          ELSE ops[3][2] = "DistOnlyCorrection"
       /\ (t[2] = 258 => ops[4] = M("IrregularLen258", t[4] = 1))
TokLenT(t) == IF t[1] = 0 THEN 1 ELSE t[2]
=============================================================================
