---------------------------- MODULE Gen_CodecRuns ----------------------------
(* Enumerator of sequences dominated by one long run of default operations      *)
(* (a correct prediction: M(c, 0) or C(c, 0)) followed by a few operations that *)
(* are not defaults - what the analysis of a well-predicted stream of several   *)
(* megabytes looks like.  Lossless is checked by TLC itself for the run lengths *)
(* in Small; for every run length in Runs one REPLAY line is printed in         *)
(* run-length form (the harness expands it): the oracle there is the property   *)
(* itself - the decoder returns the encoded sequence - not the bins.            *)
EXTENDS Codec, TLC, Json
CONSTANTS Runs, Small
Tails == { << [k |-> "C", c |-> 3, v |-> 5, n |-> 0] >>,
           << [k |-> "M", c |-> 1, v |-> 1, n |-> 0], [k |-> "V", c |-> 0, v |-> 1234, n |-> 16] >>,
           << [k |-> "V", c |-> 0, v |-> 1, n |-> 1], [k |-> "C", c |-> 0, v |-> 0, n |-> 0], [k |-> "M", c |-> 0, v |-> 1, n |-> 0] >> }
Defaults == { [k |-> "M", c |-> 0, v |-> 0, n |-> 0], [k |-> "C", c |-> 2, v |-> 0, n |-> 0] }
VARIABLE case
Init == case \in [r : Runs \cup Small, d : Defaults, tail : Tails]
Next == UNCHANGED case
Spec == Init /\ [][Next]_case
Expand(cs) == [i \in 1..cs.r |-> cs.d] \o cs.tail
Lossless == case.r \in Small =>
              DecAll(EncAll(Expand(case), 0), Expand(case), 1, 0) = [ok |-> TRUE, ops |-> Expand(case)]
Replay == case.r \in Runs => PrintT(<<"REPLAY", ToJson([rle |-> << <<case.d, case.r>> >> \o [i \in 1..Len(case.tail) |-> <<case.tail[i], 1>>]])>>)
=============================================================================
