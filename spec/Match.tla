-------------------------------- MODULE Match --------------------------------
(***************************************************************************)
(* The part of the stored format that is nowhere written down: how the     *)
(* next token is predicted from the plaintext and the parameters.  The     *)
(* corrections in stored data are differences against these predictions,   *)
(* so every rule here (hash function, which positions enter the            *)
(* dictionary, the order in which candidates are visited, where the search *)
(* stops, the lazy rule) is part of the format (C04).  Transcribed from    *)
(* hash_algorithm.rs, hash_chain.rs, add_policy_estimator.rs (update_hash),*)
(* hash_chain_holder.rs (match_token_offset) and token_predictor.rs        *)
(* (predict_token), for the hash functions that fit 32-bit arithmetic      *)
(* (zlib's rotating hash, miniz' level-1 hash).                            *)
(*                                                                         *)
(* The dictionary is kept abstractly: H is the hash of every position and  *)
(* chains[h] the inserted positions with hash h, most recent first.  (The  *)
(* 16-bit position arithmetic and the periodic reshift of the real tables  *)
(* are below this level.)                                                  *)
(*                                                                         *)
(* Parameters p: the 18-vector of Params.tla.  Tokens <<0,b,0,0>> literal, *)
(* <<1,len,dist,irr>> reference.  Positions are 0-based, plain is 1-based. *)
(***************************************************************************)
EXTENDS Naturals, Sequences, Bitwise

MinMatch == 3
MaxMatch == 258
MinLookahead == 262
P2(n) == 2 ^ n
Mn(a, b) == IF a < b THEN a ELSE b
Mx(a, b) == IF a > b THEN a ELSE b

\* ---- hash of the 3 bytes at 0-based position q
ZlibHash(plain, q, shift, mask) ==
  ((((((plain[q + 1] * P2(shift)) % 65536) ^^ plain[q + 2]) * P2(shift)) % 65536) ^^ plain[q + 3]) & mask
MinizHash(plain, q) ==
  LET h == plain[q + 1] + 256 * plain[q + 2] + 65536 * plain[q + 3]
  IN (h ^^ (h \div 131072)) & 4095
Supported(p) == p[5] \in {1, 2}
HashAt(plain, q, p) == IF p[5] = 1 THEN ZlibHash(plain, q, p[6], p[7]) ELSE MinizHash(plain, q)

\* ---- which positions a token of `length` bytes at pos adds (DictionaryAddPolicy::update_hash
\* with HashTable::update_chain: a batch that would need bytes beyond the input is dropped whole)
Batch(n, from, cnt) == IF cnt + 2 >= n - from THEN <<>> ELSE [i \in 1..cnt |-> from + i - 1]
At32k(length, pos) == length > 1 /\ (pos % 32768) <= 32768 - 262 /\ ((pos + length) % 32768) >= 32768 - 262
Added(n, pos, length, p) ==
  IF length = 1 THEN Batch(n, pos, 1)
  ELSE IF p[17] = 0 THEN Batch(n, pos, length)
  ELSE IF p[17] = 1 THEN (IF length <= p[18] THEN Batch(n, pos, length) ELSE Batch(n, pos, 1))
  ELSE IF p[17] = 2 THEN (IF length <= p[18] THEN Batch(n, pos, length)
                          ELSE Batch(n, pos, 1) \o Batch(n, pos + length - 1, 1))
  ELSE IF p[17] = 3 THEN (IF (pos % 4096) < 4093 THEN Batch(n, pos, 1) ELSE <<>>)
  ELSE Batch(n, pos, 1) \o (IF At32k(length, pos) THEN Batch(n, pos + length - 1, 1) ELSE <<>>)

\* ---- the dictionary: for every hash value the inserted positions, most recent first
EmptyChains(p) == [h \in 0..(IF p[5] = 1 THEN p[7] ELSE 4095) |-> <<>>]
RECURSIVE InsertAll(_, _, _, _)
InsertAll(chains, H, qs, i) ==
  IF i > Len(qs) THEN chains
  ELSE InsertAll([chains EXCEPT ![H[qs[i] + 1]] = <<qs[i]>> \o @], H, qs, i + 1)

\* ---- candidates (distances, in the order the chain is walked) for a search that starts
\* at pos + off.  With off = 1 the position pos itself is not in the dictionary yet; if it
\* hashes like pos + 1 it is visited first, at distance 1.
ChainOf(chains, h, ref) == [i \in 1..Len(chains[h]) |-> ref - chains[h][i]]
Candidates(chains, H, pos, off) ==
  (IF off = 1 /\ H[pos + 1] = H[pos + 2] THEN <<1>> ELSE <<>>) \o ChainOf(chains, H[pos + off + 1], pos + off)

\* common prefix of the text at start and at start - dist, at most maxlen
RECURSIVE Common(_, _, _, _, _)
Common(plain, start, dist, k, maxlen) ==
  IF k = maxlen \/ plain[start + k + 1] # plain[start - dist + k + 1] THEN k
  ELSE Common(plain, start, dist, k + 1, maxlen)

\* ---- match_token_offset: result <<len, dist>> or <<0, 0>>
NoRef == <<0, 0>>
RECURSIVE Walk(_, _, _, _, _, _, _, _, _, _, _)
\* c: candidates, i: index, first: is this the first candidate
Walk(plain, c, i, start, maxlen, nice, d3, hop0, hop1, best, chain) ==
  IF i > Len(c) THEN best
  ELSE IF i = 1 /\ c[i] > hop0 THEN NoRef                                \* DistanceLargerThanHop0
  ELSE IF i > 1 /\ c[i] > hop1 THEN best
  ELSE LET ml == Common(plain, start, c[i], 0, maxlen)
           better == ml > best[1] /\ ml >= MinMatch
           nb == IF better THEN <<ml, c[i]>> ELSE best
       IN IF better /\ ml >= nice /\ (ml > 3 \/ c[i] <= d3) THEN nb
          ELSE IF better /\ ml >= maxlen THEN nb                          \* cannot get longer
          ELSE IF chain = 1 THEN nb                                        \* max_chain exhausted
          ELSE Walk(plain, c, i + 1, start, maxlen, nice, d3, hop0, hop1, nb, IF chain = 0 THEN 0 ELSE chain - 1)
\* (chain = 0 means no limit: a depth of 0 wraps around in the release build)

MatchAt(plain, chains, H, pos, off, prevlen, depth, p) ==
  LET n == Len(plain)
      start == pos + off
      maxlen == Mn(n - start, MaxMatch)
      toStart == IF p[11] = 1 THEN start ELSE start - 1
      window == P2(p[4])
      far == p[10] = 1
      hop0 == IF far THEN Mn(toStart, window) ELSE IF p[1] = 1 THEN 1 ELSE Mn(toStart, window - MinLookahead + 1)
      hop1 == IF far THEN Mn(toStart, window) ELSE IF p[1] = 1 THEN 1 ELSE Mn(toStart, window - MinLookahead)
  IN IF maxlen < Mx(prevlen + 1, MinMatch) THEN NoRef                      \* NoInput
     ELSE IF ~far /\ p[1] \in {2, 3} THEN NoRef                            \* huffman only / store
     ELSE Walk(plain, Candidates(chains, H, pos, off), 1, start, maxlen, Mn(p[14], maxlen), p[9], hop0, hop1,
               <<prevlen, 0>>, depth)
IsMatch(m) == m[2] > 0 /\ m[1] >= MinMatch

\* ---- predict_token: state s = [pos, pend], result [tok, pend]
Predict(plain, chains, H, s, p) ==
  LET n == Len(plain) IN
  IF s.pos = 0 \/ n - s.pos < MinMatch THEN [tok |-> <<0, 0, 0, 0>>, pend |-> s.pend]
  ELSE LET m == IF s.pend # NoRef THEN s.pend ELSE MatchAt(plain, chains, H, s.pos, 0, 0, p[15], p) IN
       IF ~IsMatch(m) THEN [tok |-> <<0, 0, 0, 0>>, pend |-> NoRef]
       ELSE IF m[1] = 3 /\ m[2] > p[9] THEN [tok |-> <<0, 0, 0, 0>>, pend |-> NoRef]
       ELSE IF p[13] > 0 /\ m[1] < p[13] /\ n - s.pos >= m[1] + 2 THEN
              LET depth == IF p[3] = 1 /\ m[1] >= p[12] THEN p[15] \div 4 ELSE p[15]
                  m1 == MatchAt(plain, chains, H, s.pos, 1, m[1], depth, p)
              IN IF IsMatch(m1) /\ m1[2] > 0 /\ m1[1] > m[1]
                 THEN [tok |-> <<0, 0, 0, 0>>, pend |-> IF p[3] = 1 THEN m1 ELSE NoRef]
                 ELSE [tok |-> <<1, m[1], m[2], 0>>, pend |-> NoRef]
       ELSE [tok |-> <<1, m[1], m[2], 0>>, pend |-> NoRef]
=============================================================================
