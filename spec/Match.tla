-------------------------------- MODULE Match --------------------------------
(***************************************************************************)
(* The part of the stored format that is nowhere written down: how the     *)
(* next token is predicted from the plaintext and the parameters, and how  *)
(* the difference between the prediction and the real token is expressed.  *)
(* The corrections in stored data are differences against these            *)
(* predictions, so every rule here (hash function, which positions enter   *)
(* the dictionary, the order in which candidates are visited, where the    *)
(* search stops, the lazy rule, how a distance is counted in hops) is part *)
(* of the format (C04).  Transcribed from hash_algorithm.rs, hash_chain.rs,*)
(* add_policy_estimator.rs (update_hash), hash_chain_holder.rs             *)
(* (match_token_offset, calculate_hops) and token_predictor.rs             *)
(* (predict_token, repredict_reference, the token part of predict_block),  *)
(* for all seven hash functions (the 32-bit multiplications and the CRC    *)
(* are done on 16-bit halves: TLC's integers are 32-bit signed).           *)
(*                                                                         *)
(* The dictionary is kept abstractly: H is the hash of every position and  *)
(* chains[h] the inserted positions with hash h, most recent first.  (The  *)
(* 16-bit position arithmetic and the periodic reshift of the real tables  *)
(* are below this level: what a reshift drops is further away than any     *)
(* distance the walk accepts.)  libdeflate's matcher keeps a second table  *)
(* over 3-byte hashes whose head is visited before the 4-byte chain: H3 /  *)
(* chains3, empty for the other hash functions.                            *)
(*                                                                         *)
(* Parameters p: the 18-vector of Params.tla.  Tokens <<0,b,0,0>> literal, *)
(* <<1,len,dist,irr>> reference.  Positions are 0-based, plain is 1-based. *)
(***************************************************************************)
EXTENDS Naturals, Sequences, SequencesExt, Bitwise, HashTables

MinMatch == 3
MaxMatch == 258
MinLookahead == 262
P2(n) == 2 ^ n
Mn(a, b) == IF a < b THEN a ELSE b
Mx(a, b) == IF a > b THEN a ELSE b

\* ---- hash of the bytes at 0-based position q
ZlibHash(plain, q, shift, mask) ==
  ((((((plain[q + 1] * P2(shift)) % 65536) ^^ plain[q + 2]) * P2(shift)) % 65536) ^^ plain[q + 3]) & mask
MinizHash(plain, q) ==
  LET h == plain[q + 1] + 256 * plain[q + 2] + 65536 * plain[q + 3]
  IN (h ^^ (h \div 131072)) & 4095
\* bits 16..31 of (xh * 2^16 + xl) * (kh * 2^16 + kl) mod 2^32, all operands below 2^16
MulLow16(a, k) == (a * (k % 256) + ((a * (k \div 256)) % 256) * 256) % 65536
MulHigh16(a, k) == (a * (k \div 256) + ((a * (k % 256)) \div 256)) \div 256
Top16(xh, xl, kh, kl) == (MulHigh16(xl, kl) + MulLow16(xh, kl) + MulLow16(xl, kh)) % 65536
Le16(plain, q) == plain[q + 1] + 256 * plain[q + 2]
LibdeflateHash4(plain, q) == Top16(Le16(plain, q + 2), Le16(plain, q), 7733, 42941)        \* * 0x1E35A7BD >> 16
LibdeflateHash3(plain, q) == Top16(plain[q + 3], Le16(plain, q), 7733, 42941) \div 2      \* 3 bytes, >> 17
ZlibNgHash(plain, q) == Top16(Le16(plain, q + 2), Le16(plain, q), 40503, 31153)             \* * 2654435761 >> 16
RandomVectorHash(plain, q) ==
  (RandomVector[plain[q + 1] + 1] ^^ RandomVector[plain[q + 2] + 257]) ^^ RandomVector[plain[q + 3] + 513]
\* one step of the table driven CRC on <<hi, lo>>: crc = (crc >> 8) ^ T[(crc ^ b) & 0xFF]
CrcStep(c, b) == LET i == ((c[2] ^^ b) & 255) + 1
                 IN << (c[1] \div 256) ^^ Crc32cHi[i], (((c[1] % 256) * 256) + (c[2] \div 256)) ^^ Crc32cLo[i] >>
Crc32cHash(plain, q) ==
  CrcStep(CrcStep(CrcStep(<<Crc32cHi[plain[q + 1] + 1], Crc32cLo[plain[q + 1] + 1]>>, plain[q + 2]), plain[q + 3]), plain[q + 4])[2]

Supported(p) == p[5] \in 1..7
HashBytes(p) == IF p[5] \in {3, 4, 5, 7} THEN 4 ELSE 3
HashAt(plain, q, p) ==
  CASE p[5] = 1 -> ZlibHash(plain, q, p[6], p[7])
    [] p[5] = 2 -> MinizHash(plain, q)
    [] p[5] \in {3, 4} -> LibdeflateHash4(plain, q)
    [] p[5] = 5 -> ZlibNgHash(plain, q)
    [] p[5] = 6 -> RandomVectorHash(plain, q)
    [] p[5] = 7 -> Crc32cHash(plain, q)
HasSecondary(p) == p[5] = 3

\* ---- which positions a token of `length` bytes at pos adds (DictionaryAddPolicy::update_hash
\* with HashTable::update_chain: a batch that would need bytes beyond the input is dropped whole)
\* (nhb: the number of bytes the table's hash function reads)
Batch(n, from, cnt, nhb) == IF cnt + nhb - 1 >= n - from THEN <<>> ELSE [i \in 1..cnt |-> from + i - 1]
At32k(length, pos) == length > 1 /\ (pos % 32768) <= 32768 - 262 /\ ((pos + length) % 32768) >= 32768 - 262
AddedN(n, pos, length, p, nhb) ==
  IF length = 1 THEN Batch(n, pos, 1, nhb)
  ELSE IF p[17] = 0 THEN Batch(n, pos, length, nhb)
  ELSE IF p[17] = 1 THEN (IF length <= p[18] THEN Batch(n, pos, length, nhb) ELSE Batch(n, pos, 1, nhb))
  ELSE IF p[17] = 2 THEN (IF length <= p[18] THEN Batch(n, pos, length, nhb)
                          ELSE Batch(n, pos, 1, nhb) \o Batch(n, pos + length - 1, 1, nhb))
  ELSE IF p[17] = 3 THEN (IF (pos % 4096) < 4093 THEN Batch(n, pos, 1, nhb) ELSE <<>>)
  ELSE Batch(n, pos, 1, nhb) \o (IF At32k(length, pos) THEN Batch(n, pos + length - 1, 1, nhb) ELSE <<>>)
Added(n, pos, length, p) == AddedN(n, pos, length, p, HashBytes(p))
Added3(n, pos, length, p) == AddedN(n, pos, length, p, 3)            \* the secondary table

\* ---- the dictionary: for every hash value the inserted positions, most recent first
EmptyChains(H) == [h \in {H[i] : i \in 1..Len(H)} |-> <<>>]
RECURSIVE InsertAll(_, _, _, _)
InsertAll(chains, H, qs, i) ==
  IF i > Len(qs) THEN chains
  ELSE InsertAll([chains EXCEPT ![H[qs[i] + 1]] = <<qs[i]>> \o @], H, qs, i + 1)

\* ---- candidates (distances, in the order the chain is walked) for a search that starts
\* at pos + off.  With off = 1 the position pos itself is not in the dictionary yet; if it
\* hashes like pos + 1 it is visited first, at distance 1.
ChainOf(chains, h, ref) == [i \in 1..Len(chains[h]) |-> ref - chains[h][i]]
\* d: the dictionary [H, chains, H3, chains3]
Candidates(d, pos, off, p) ==
  IF HasSecondary(p) /\ off = 0
  THEN (IF d.chains3[d.H3[pos + 1]] # <<>> THEN <<pos - d.chains3[d.H3[pos + 1]][1]>> ELSE <<>>)
       \o ChainOf(d.chains, d.H[pos + 1], pos)
  ELSE (IF off = 1 /\ d.H[pos + 1] = d.H[pos + 2] THEN <<1>> ELSE <<>>) \o ChainOf(d.chains, d.H[pos + off + 1], pos + off)

\* common prefix of the text at start and at start - dist, at most maxlen (k is always 0).  Written
\* with native sequence comparisons instead of a recursion: a long run of one byte makes every
\* candidate of a long chain agree over 257 bytes, and TLC's deep recursion is quadratically slow
Common(plain, start, dist, k, maxlen) ==
  IF SubSeq(plain, start + 1, start + maxlen) = SubSeq(plain, start - dist + 1, start - dist + maxlen) THEN maxlen
  ELSE CHOOSE n \in 0..(maxlen - 1) :
         /\ plain[start + n + 1] # plain[start - dist + n + 1]
         /\ SubSeq(plain, start + 1, start + n) = SubSeq(plain, start - dist + 1, start - dist + n)

\* ---- match_token_offset: result <<len, dist>> or <<0, 0>>
NoRef == <<0, 0>>
\* The walk over the candidates c (distances, in chain order) is a fold with an early exit, not a
\* recursion: chains are thousands of entries long on repetitive data, and TLC's recursion costs
\* time quadratic in its depth.  acc = [best, chain (budget left, 0 = unlimited), st].
Indices(c) == [i \in 1..Len(c) |-> i]
WalkTry(acc, dist, ml, maxlen, nice, d3) ==
  IF ml > acc.best[1] /\ ml >= MinMatch
  THEN (IF (ml >= nice /\ (ml > 3 \/ dist <= d3)) \/ ml >= maxlen \/ acc.chain = 1
        THEN [best |-> <<ml, dist>>, chain |-> acc.chain, st |-> "done"]        \* good enough / cannot get longer / budget spent
        ELSE [best |-> <<ml, dist>>, chain |-> IF acc.chain = 0 THEN 0 ELSE acc.chain - 1, st |-> "go"])
  ELSE (IF acc.chain = 1 THEN [acc EXCEPT !.st = "done"]
        ELSE [acc EXCEPT !.chain = IF acc.chain = 0 THEN 0 ELSE acc.chain - 1])
WalkStep(plain, c, start, maxlen, nice, d3, hop0, hop1, acc, i) ==
  IF acc.st # "go" THEN acc
  ELSE IF i = 1 /\ c[i] > hop0 THEN [acc EXCEPT !.st = "noref"]                  \* DistanceLargerThanHop0
  ELSE IF i > 1 /\ c[i] > hop1 THEN [acc EXCEPT !.st = "done"]
  ELSE WalkTry(acc, c[i], Common(plain, start, c[i], 0, maxlen), maxlen, nice, d3)
WalkEnd(acc) == IF acc.st = "noref" THEN NoRef ELSE acc.best
Walk(plain, c, i, start, maxlen, nice, d3, hop0, hop1, best, chain) ==
  WalkEnd(FoldLeft(LAMBDA acc, k : WalkStep(plain, c, start, maxlen, nice, d3, hop0, hop1, acc, k),
                   [best |-> best, chain |-> chain, st |-> "go"], Indices(c)))
\* (chain = 0 means no limit: a depth of 0 wraps around in the release build)

MatchAt(plain, d, pos, off, prevlen, depth, p) ==
  LET n == Len(plain)
      start == pos + off
      maxlen == Mn(n - start, MaxMatch)
      toStart == IF p[11] = 1 THEN start ELSE start - 1
      window == P2(p[4])
      far == p[10] = 1
      hop0 == IF far THEN Mn(toStart, window) ELSE IF p[1] = 1 THEN 1 ELSE Mn(toStart, window - MinLookahead + 1)
      hop1 == IF far THEN Mn(toStart, window) ELSE IF p[1] = 1 THEN 1 ELSE Mn(toStart, window - MinLookahead)
  IN IF maxlen < Mx(prevlen + 1, Mx(HashBytes(p), MinMatch)) THEN NoRef                      \* NoInput
     ELSE IF ~far /\ p[1] \in {2, 3} THEN NoRef                            \* huffman only / store
     ELSE Walk(plain, Candidates(d, pos, off, p), 1, start, maxlen, Mn(p[14], maxlen), p[9], hop0, hop1,
               <<prevlen, 0>>, depth)
IsMatch(m) == m[2] > 0 /\ m[1] >= MinMatch

\* ---- predict_token: state s = [pos, pend], result [tok, pend]
Predict(plain, d, s, p) ==
  LET n == Len(plain) IN
  IF s.pos = 0 \/ n - s.pos < MinMatch THEN [tok |-> <<0, 0, 0, 0>>, pend |-> s.pend]
  ELSE LET m == IF s.pend # NoRef THEN s.pend ELSE MatchAt(plain, d, s.pos, 0, 0, p[15], p) IN
       IF ~IsMatch(m) THEN [tok |-> <<0, 0, 0, 0>>, pend |-> NoRef]
       ELSE IF m[1] = 3 /\ m[2] > p[9] THEN [tok |-> <<0, 0, 0, 0>>, pend |-> NoRef]
       ELSE IF p[13] > 0 /\ m[1] < p[13] /\ n - s.pos >= m[1] + 2 THEN
              LET depth == IF p[3] = 1 /\ m[1] >= p[12] THEN p[15] \div 4 ELSE p[15]
                  m1 == MatchAt(plain, d, s.pos, 1, m[1], depth, p)
              IN IF IsMatch(m1) /\ m1[2] > 0 /\ m1[1] > m[1]
                 THEN [tok |-> <<0, 0, 0, 0>>, pend |-> IF p[3] = 1 THEN m1 ELSE NoRef]
                 ELSE [tok |-> <<1, m[1], m[2], 0>>, pend |-> NoRef]
       ELSE [tok |-> <<1, m[1], m[2], 0>>, pend |-> NoRef]

\* ---- calculate_hops: the distance of the real reference as the number of candidates, up to
\* and including it, at which the text agrees over the reference's whole length (0: not found)
\* acc = [hops, chain, st, res]
HopsStep(plain, c, pos, tlen, tdist, maxdist, acc, i) ==
  IF acc.st # "go" THEN acc
  ELSE IF c[i] > maxdist THEN [acc EXCEPT !.st = "done"]
  ELSE LET agrees == Common(plain, pos, c[i], 0, tlen) >= tlen IN
       IF c[i] = tdist THEN [acc EXCEPT !.st = "done", !.res = acc.hops + (IF agrees THEN 1 ELSE 0)]
       ELSE IF c[i] > tdist \/ acc.chain <= 1 THEN [acc EXCEPT !.st = "done"]
       ELSE [acc EXCEPT !.hops = acc.hops + (IF agrees THEN 1 ELSE 0), !.chain = acc.chain - 1]
HopsWalk(plain, c, i, pos, tlen, tdist, maxdist, hops, chain) ==
  FoldLeft(LAMBDA acc, k : HopsStep(plain, c, pos, tlen, tdist, maxdist, acc, k),
           [hops |-> hops, chain |-> chain, st |-> "go", res |-> 0], Indices(c)).res
Hops(plain, d, pos, tlen, tdist, p) ==
  IF Mn(Len(plain) - pos, MaxMatch) < tlen THEN 0
  ELSE HopsWalk(plain, Candidates(d, pos, 0, p), 1, pos, tlen, tdist, Mn(pos, P2(p[4])), 0, 65535)

\* ---- hop_match, the inverse: the distance of the hops-th agreeing candidate (0: none)
HopMatchStep(plain, c, pos, len, maxdist, hops, acc, i) ==
  IF acc.st # "go" THEN acc
  ELSE IF c[i] > maxdist THEN [acc EXCEPT !.st = "done"]
  ELSE IF Common(plain, pos, c[i], 0, len) >= len
       THEN (IF acc.cur + 1 = hops THEN [acc EXCEPT !.st = "done", !.res = c[i]] ELSE [acc EXCEPT !.cur = acc.cur + 1])
       ELSE acc
HopMatchWalk(plain, c, i, pos, len, maxdist, hops, cur) ==
  FoldLeft(LAMBDA acc, k : HopMatchStep(plain, c, pos, len, maxdist, hops, acc, k),
           [cur |-> cur, st |-> "go", res |-> 0], Indices(c)).res
HopMatch(plain, d, pos, len, hops, p) ==
  IF Mn(Len(plain) - pos, MaxMatch) < len THEN 0
  ELSE HopMatchWalk(plain, Candidates(d, pos, 0, p), 1, pos, len, Mn(pos, P2(p[4])), hops, 0)

\* ---- the correction operations of one token (predict_block), <<kind, role, value, width>>
EncodeDiff(pred, act) == IF pred >= act THEN (pred - act) * 2 ELSE (act - pred) * 2 + 1
Cor(ctx, v) == <<"C", ctx, v, 0>>
Mis(ctx, b) == <<"M", ctx, IF b THEN 1 ELSE 0, 0>>
\* repredict_reference: the match search again, without the lazy rule and the 3-byte distance rule
Repredict(plain, d, s, p) ==
  IF s.pos = 0 \/ Len(plain) - s.pos < MinMatch THEN NoRef ELSE MatchAt(plain, d, s.pos, 0, 0, p[15], p)
RefOps(plain, d, s, p, t, pm, flag) ==
  << flag, Cor("LenCorrection", EncodeDiff(pm[1], t[2])),
     IF pm[1] # t[2] THEN Cor("DistAfterLenCorrection", Hops(plain, d, s.pos, t[2], t[3], p))
     ELSE IF pm[2] # t[3] THEN Cor("DistOnlyCorrection", Hops(plain, d, s.pos, t[2], t[3], p))
     ELSE Cor("DistOnlyCorrection", 0) >>
  \o (IF t[2] = 258 THEN << Mis("IrregularLen258", t[4] = 1) >> ELSE <<>>)
\* pr: the prediction (Predict).  <<>> stands for "the analysis fails here" (no match to correct from)
TokenOps(plain, d, s, p, t, pr) ==
  IF t[1] = 0 THEN (IF pr.tok[1] = 0 THEN << Mis("LiteralPredictionWrong", FALSE) >>
                    ELSE << Mis("ReferencePredictionWrong", TRUE) >>)
  ELSE IF pr.tok[1] = 1 THEN RefOps(plain, d, s, p, t, <<pr.tok[2], pr.tok[3]>>, Mis("ReferencePredictionWrong", FALSE))
  ELSE LET rm == Repredict(plain, d, s, p) IN
       IF ~IsMatch(rm) THEN <<>> ELSE RefOps(plain, d, s, p, t, rm, Mis("LiteralPredictionWrong", TRUE))
\* the decoder's side of the same token: what hop_match makes of the correction
Decoded(plain, d, s, p, ops, pm) ==
  LET len == IF ops[2][3] % 2 = 0 THEN pm[1] - ops[2][3] \div 2 ELSE pm[1] + ops[2][3] \div 2
  IN IF len # pm[1] \/ ops[3][3] # 0 THEN <<len, HopMatch(plain, d, s.pos, len, ops[3][3], p)>> ELSE pm
=============================================================================
