-------------------------------- MODULE CAbi --------------------------------
(***************************************************************************)
(* The two extern "C" wrappers of src/lib.rs as seen by a C caller: a      *)
(* caller-owned output buffer of `cap` bytes with memory around it, a      *)
(* result_size cell, and a status.  The body runs inside catch_unwind:     *)
(*   Inner = Ok    the library call and the zstd step succeeded            *)
(*   Inner = Err   one of them returned an error            -> status -1   *)
(*   Inner = Panic something unwound                        -> status -2   *)
(* Output is produced only through a slice of exactly cap bytes.           *)
(* What is demanded of a call does not depend on the calls before it in    *)
(* the same process (a wrapper keeps nothing between calls - in particular *)
(* nothing a caught panic could leave in a bad state).                     *)
(***************************************************************************)
EXTENDS Naturals, Integers, Sequences, FiniteSets

CONSTANTS Guard     \* cells on either side of the buffer that belong to the caller

\* what C12 demands of one call, given the capacity and the size that would be needed
\* (needed: bytes of valid output; bound: capacity from which success is required)
StatusOk(status)  == status \in {0, -1, -2}
Demand(status, unwound, rs_set, rs, guards, valid, cap, needed, bound, goodInput) ==
  /\ ~unwound /\ StatusOk(status)
  /\ guards                                              \* nothing outside the buffer was written
  /\ status = 0 => (rs_set /\ rs <= cap /\ valid)        \* success: size set, within capacity, bytes right
  /\ cap < needed => status < 0                          \* undersized buffer
  /\ (goodInput /\ cap >= bound) => status = 0           \* large enough buffer, good input: must succeed
  /\ ~goodInput => status < 0
\* a frame around a container that was damaged after it was written: the content is outside the
\* property (garbage in), the caller's memory and the reporting discipline are not
DemandDamaged(status, unwound, rs_set, rs, guards, cap) ==
  /\ ~unwound /\ StatusOk(status) /\ guards
  /\ status = 0 => (rs_set /\ rs <= cap)
=============================================================================
