------------------------------ MODULE Trace_IO ------------------------------
(***************************************************************************)
(* Validates the I/O call sequence recorded while recreated_zlib_chunks    *)
(* ran against scripted Read / Write objects (harness io-record).  The     *)
(* acceptor is deliberately permissive about request sizes (buffer sizes   *)
(* are not part of C13) and strict about order, progress and verdict.  It  *)
(* is the environment side of IO.tla: the same outcome classes, with the   *)
(* obligations IO.tla proves for the model checked here on real runs.      *)
(*                                                                         *)
(*  Reset   run clen flen                                                  *)
(*  Call    side (R|W) req ret (n|int|err|zero) n                          *)
(*  Return  result (ok|err|panic) written prefix_ok equal consumed         *)
(*  Summary result written equal   (a run without recorded calls)          *)
(*  Died    how                    (no transition: the process was killed) *)
(***************************************************************************)
EXTENDS Naturals, Sequences, TLC, Json, IOUtils

Rec == ndJsonDeserialize(IOEnv.TRACE)

VARIABLES l, base, rpos, wpos, hard, intr, phase
vars == <<l, base, rpos, wpos, hard, intr, phase>>

Init == l = 1 /\ base = 1 /\ rpos = 0 /\ wpos = 0 /\ hard = FALSE /\ intr = FALSE /\ phase = "idle"

IsEvent(e) == l <= Len(Rec) /\ Rec[l].e = e /\ l' = l + 1

Reset == /\ IsEvent("Reset") /\ phase = "idle"
         /\ base' = l /\ rpos' = 0 /\ wpos' = 0 /\ hard' = FALSE /\ intr' = FALSE /\ phase' = "run"

\* a read: never more than requested, never past the end of the container; it makes
\* progress whenever data remains and something was requested
ReadCall(c) ==
  /\ c.side = "R"
  /\ IF c.ret = "n" THEN
        /\ c.n <= c.req /\ rpos + c.n <= Rec[base].clen
        /\ (c.req > 0 /\ rpos < Rec[base].clen) => c.n > 0
        /\ rpos' = rpos + c.n /\ UNCHANGED <<hard, intr>>
     ELSE IF c.ret = "int" THEN intr' = TRUE /\ UNCHANGED <<rpos, hard>>
     ELSE c.ret = "err" /\ hard' = TRUE /\ UNCHANGED <<rpos, intr>>
  /\ UNCHANGED wpos

\* a write: the destination never holds more than the original file
WriteCall(c) ==
  /\ c.side = "W"
  /\ IF c.ret = "n" THEN
        /\ c.n <= c.req /\ c.n > 0 /\ wpos + c.n <= Rec[base].flen
        /\ wpos' = wpos + c.n /\ UNCHANGED <<hard, intr>>
     ELSE IF c.ret = "int" THEN intr' = TRUE /\ UNCHANGED <<wpos, hard>>
     ELSE c.ret \in {"err", "zero"} /\ hard' = TRUE /\ UNCHANGED <<wpos, intr>>
  /\ UNCHANGED rpos

\* once a hard error was delivered the library makes no further I/O call
CallEv == /\ IsEvent("Call") /\ phase = "run" /\ ~hard
          /\ (ReadCall(Rec[l]) \/ WriteCall(Rec[l]))
          /\ UNCHANGED <<base, phase>>

\* C13: Err iff a fault that cannot be retried was delivered; the bytes written are a
\* prefix of the original; without faults the result is the file, however the
\* transfers were fragmented.  An Interrupted on the end-of-container probe (the one
\* raw read) may surface as Err, so Interrupted alone permits either verdict.
ReturnEv ==
  /\ IsEvent("Return") /\ phase = "run"
  /\ Rec[l].result \in {"ok", "err"}
  /\ Rec[l].prefix_ok /\ Rec[l].written = wpos /\ Rec[l].consumed = rpos
  /\ hard => Rec[l].result = "err"
  /\ (~hard /\ ~intr) => Rec[l].result = "ok"
  /\ Rec[l].result = "ok" => (Rec[l].equal /\ wpos = Rec[base].flen /\ rpos = Rec[base].clen)
  /\ phase' = "idle"
  /\ UNCHANGED <<base, rpos, wpos, hard, intr>>

\* a run whose calls were not recorded one by one (one byte per call, no faults, on a thread with a
\* small stack): only the verdict - without faults the result is the file
SummaryEv ==
  /\ IsEvent("Summary") /\ phase = "run" /\ rpos = 0 /\ wpos = 0
  /\ Rec[l].result = "ok" /\ Rec[l].equal /\ Rec[l].written = Rec[base].flen
  /\ phase' = "idle"
  /\ UNCHANGED <<base, rpos, wpos, hard, intr>>

Next == Reset \/ CallEv \/ ReturnEv \/ SummaryEv
Spec == Init /\ [][Next]_vars

Bounds == rpos <= Rec[base].clen /\ wpos <= Rec[base].flen

Accepted ==
  LET d == TLCGet("stats").diameter IN
  IF d - 1 = Len(Rec) THEN TRUE
  ELSE /\ PrintT(<<"TRACE-REJECTED line", d, IF d <= Len(Rec) THEN ToJson([e |-> Rec[d].e]) ELSE "eof">>)
       /\ FALSE
=============================================================================
