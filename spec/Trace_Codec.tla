---------------------------- MODULE Trace_Codec ----------------------------
(***************************************************************************)
(* Validates traces recorded from the real codec (hook cabac_roundtrip)    *)
(* against Codec.tla.  One event per operation and side; the bins are the  *)
(* (context id, bit) pairs the arithmetic coder was actually given, where  *)
(* context ids are numbered by order of first use (0 = bypass).            *)
(*                                                                         *)
(*  Reset  run, n, ebins, dbins   start of a run; all bins of both sides   *)
(*  E      k c v n end            encoder operation; bins ebins[..end]     *)
(*  F      end                    finish                                   *)
(*  D      k c v n end            decoder operation and the decoded value  *)
(*  Done                          end of run                               *)
(* Anything else (e.g. Panic) has no transition and rejects the trace.     *)
(***************************************************************************)
EXTENDS Codec, FiniteSets, TLC, Json, IOUtils

Rec == ndJsonDeserialize(IOEnv.TRACE)

VARIABLES l, base, namesE, dcE, renE, epos, dcD, renD, rd, phase
vars == <<l, base, namesE, dcE, renE, epos, dcD, renD, rd, phase>>

Name(b) == <<b[1], b[2], b[3]>>
NoRen == [x \in {} |-> 0]
Card(f) == Cardinality(DOMAIN f)

\* Compares spec bins exp[i..] with recorded bins arr[pos+i-1..] under the first-use
\* renaming ren (names is its inverse: names[id] = context name); yields the extended
\* renaming, or ok = FALSE.
RECURSIVE Match(_, _, _, _, _, _)
NoMatch(ren, names) == [ok |-> FALSE, ren |-> ren, names |-> names]
MatchId(exp, i, arr, pos, ren, names, nm, a) ==
  IF nm[1] = "byp" THEN
       (IF a[1] = 0 THEN Match(exp, i + 1, arr, pos, ren, names) ELSE NoMatch(ren, names))
  ELSE IF nm \in DOMAIN ren THEN
       (IF a[1] = ren[nm] THEN Match(exp, i + 1, arr, pos, ren, names) ELSE NoMatch(ren, names))
  ELSE (IF a[1] = Card(ren) + 1 THEN Match(exp, i + 1, arr, pos, ren @@ (nm :> Card(ren) + 1), Append(names, nm))
                                 ELSE NoMatch(ren, names))
Match(exp, i, arr, pos, ren, names) ==
  IF i > Len(exp) THEN [ok |-> TRUE, ren |-> ren, names |-> names]
  ELSE IF pos + i - 1 > Len(arr) THEN NoMatch(ren, names)
  ELSE IF arr[pos + i - 1][2] # exp[i][4] THEN NoMatch(ren, names)
  ELSE MatchId(exp, i, arr, pos, ren, names, Name(exp[i]), arr[pos + i - 1])

Init == /\ l = 1 /\ base = 0 /\ namesE = <<>> /\ dcE = 0 /\ renE = NoRen /\ epos = 0
        /\ dcD = 0 /\ renD = NoRen /\ rd = 1 /\ phase = "idle"

IsEvent(e) == l <= Len(Rec) /\ Rec[l].e = e /\ l' = l + 1

Reset == /\ IsEvent("Reset") /\ phase \in {"idle"}
         /\ base' = l /\ namesE' = <<>> /\ dcE' = 0 /\ renE' = NoRen /\ epos' = 0
         /\ dcD' = 0 /\ renD' = NoRen /\ rd' = 1 /\ phase' = "enc"

OpOf(r) == [k |-> r.k, c |-> r.c, v |-> r.v, n |-> r.n]

EncWith(ev, r, m) ==
  /\ m.ok /\ ev.end = epos + Len(r.bins)
  /\ namesE' = m.names /\ dcE' = r.dc /\ renE' = m.ren /\ epos' = ev.end
EncEv2(ev, r) == EncWith(ev, r, Match(r.bins, 1, Rec[base].ebins, epos + 1, renE, namesE))
EncEv == /\ IsEvent("E") /\ phase = "enc"
         /\ EncEv2(Rec[l], EncOp(OpOf(Rec[l]), dcE))
         /\ UNCHANGED <<base, dcD, renD, rd, phase>>

FinWith(ev, bins, m) ==
  /\ m.ok /\ ev.end = epos + Len(bins) /\ ev.end = Len(Rec[base].ebins)
  /\ namesE' = m.names /\ dcE' = 0 /\ renE' = m.ren /\ epos' = ev.end
FinEv2(ev, bins) == FinWith(ev, bins, Match(bins, 1, Rec[base].ebins, epos + 1, renE, namesE))
FinEv == /\ IsEvent("F") /\ phase = "enc"
         /\ l = base + Rec[base].n + 1              \* every operation was recorded
         /\ FinEv2(Rec[l], EncFinish(dcE))
         /\ phase' = "dec"
         /\ UNCHANGED <<base, dcD, renD, rd>>

\* The channel is what the encoder wrote: the recorded encoder bins, whose context ids the
\* encoder events above have tied to the specification's names (namesE).  The decoder must
\* consume exactly the next window of it (up to the logged end), in the contexts the
\* specification names and under its own first-use numbering, and return the value that
\* the partner E event encoded.
NamedBin(b) == IF b[1] = 0 THEN <<"byp", 0, 0, b[2]>>
               ELSE <<namesE[b[1]][1], namesE[b[1]][2], namesE[b[1]][3], b[2]>>
Window(from, to) == [k \in 1..(to - from + 1) |-> NamedBin(Rec[base].ebins[from + k - 1])]
DecWith(ev, w, r, m) ==
  /\ r.ok /\ m.ok
  /\ r.rd = Len(w) + 1                     \* exactly the window, nothing less
  /\ ev.v = r.v
  /\ rd' = ev.end + 1 /\ dcD' = r.dc /\ renD' = m.ren
DecEv4(ev, w, r) ==
  DecWith(ev, w, r, IF r.ok THEN Match(w, 1, Rec[base].dbins, rd, renD, <<>>) ELSE NoMatch(renD, <<>>))
DecEv3(ev, w) == DecEv4(ev, w, DecOp(w, OpOf(ev), 1, dcD))
DecEv2(ev, partner) ==
  /\ partner.e = "E" /\ partner.k = ev.k /\ partner.c = ev.c /\ partner.n = ev.n
  /\ ev.v = partner.v                                   \* C10: lossless
  /\ ev.end >= rd - 1 /\ ev.end <= Len(Rec[base].ebins)
  /\ DecEv3(ev, Window(rd, ev.end))
DecEv == /\ IsEvent("D") /\ phase = "dec"
         /\ DecEv2(Rec[l], Rec[l - Rec[base].n - 1])
         /\ UNCHANGED <<base, namesE, dcE, renE, epos, phase>>

DoneEv == /\ IsEvent("Done") /\ phase = "dec"
          /\ l = base + 2 * Rec[base].n + 2
          /\ rd = Len(Rec[base].ebins) + 1 /\ dcD = 0 /\ Len(Rec[base].dbins) = Len(Rec[base].ebins)
          /\ phase' = "idle"
          /\ UNCHANGED <<base, namesE, dcE, renE, epos, dcD, renD, rd>>

Next == Reset \/ EncEv \/ FinEv \/ DecEv \/ DoneEv
Spec == Init /\ [][Next]_vars

RunAtMostOne == dcE \in {0, 1}
\* the line number identifies a state of a trace; keeping the channel and the renamings out
\* of the fingerprint makes long runs linear instead of quadratic
TraceView == <<l, phase, epos, rd, dcE, dcD>>

\* accepted iff every line was consumed (one state per line plus the initial state)
Accepted ==
  LET d == TLCGet("stats").diameter IN
  IF d - 1 = Len(Rec) THEN TRUE
  ELSE /\ PrintT(<<"TRACE-REJECTED line", d, IF d <= Len(Rec) THEN ToJson([e |-> Rec[d].e]) ELSE "eof">>)
       /\ FALSE
=============================================================================
