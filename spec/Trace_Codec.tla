---------------------------- MODULE Trace_Codec ----------------------------
(***************************************************************************)
(* Validates traces recorded from the real codec (hook cabac_roundtrip)    *)
(* against Codec.tla.  One event per operation and side; the bins are the  *)
(* (context id, bit) pairs the arithmetic coder was actually given, where  *)
(* context ids are numbered by order of first use (0 = bypass).            *)
(*                                                                         *)
(*  Reset  run, n, ebins, dbins   start of a run; all bins of both sides   *)
(*  E      k c v n end            encoder operation; bins ebins[..end]     *)
(*  F      end                    finish                                   *)
(*  D      k c v n end            decoder operation and the decoded value  *)
(*  Done                          end of run                               *)
(* Anything else (e.g. Panic) has no transition and rejects the trace.     *)
(***************************************************************************)
EXTENDS Codec, FiniteSets, TLC, Json, IOUtils

Rec == ndJsonDeserialize(IOEnv.TRACE)

VARIABLES l, base, chan, dcE, renE, epos, dcD, renD, rd, phase
vars == <<l, base, chan, dcE, renE, epos, dcD, renD, rd, phase>>

Name(b) == <<b[1], b[2], b[3]>>
NoRen == [x \in {} |-> 0]
Card(f) == Cardinality(DOMAIN f)

\* Compares spec bins exp[i..] with recorded bins arr[pos+i-1..] under the
\* first-use renaming ren; yields the extended renaming, or ok = FALSE.
RECURSIVE Match(_, _, _, _, _)
MatchId(exp, i, arr, pos, ren, nm, a) ==
  IF nm[1] = "byp" THEN
       (IF a[1] = 0 THEN Match(exp, i + 1, arr, pos, ren) ELSE [ok |-> FALSE, ren |-> ren])
  ELSE IF nm \in DOMAIN ren THEN
       (IF a[1] = ren[nm] THEN Match(exp, i + 1, arr, pos, ren) ELSE [ok |-> FALSE, ren |-> ren])
  ELSE (IF a[1] = Card(ren) + 1 THEN Match(exp, i + 1, arr, pos, ren @@ (nm :> Card(ren) + 1))
                                ELSE [ok |-> FALSE, ren |-> ren])
Match(exp, i, arr, pos, ren) ==
  IF i > Len(exp) THEN [ok |-> TRUE, ren |-> ren]
  ELSE IF pos + i - 1 > Len(arr) THEN [ok |-> FALSE, ren |-> ren]
  ELSE IF arr[pos + i - 1][2] # exp[i][4] THEN [ok |-> FALSE, ren |-> ren]
  ELSE MatchId(exp, i, arr, pos, ren, Name(exp[i]), arr[pos + i - 1])

Init == /\ l = 1 /\ base = 0 /\ chan = <<>> /\ dcE = 0 /\ renE = NoRen /\ epos = 0
        /\ dcD = 0 /\ renD = NoRen /\ rd = 1 /\ phase = "idle"

IsEvent(e) == l <= Len(Rec) /\ Rec[l].e = e /\ l' = l + 1

Reset == /\ IsEvent("Reset") /\ phase \in {"idle"}
         /\ base' = l /\ chan' = <<>> /\ dcE' = 0 /\ renE' = NoRen /\ epos' = 0
         /\ dcD' = 0 /\ renD' = NoRen /\ rd' = 1 /\ phase' = "enc"

OpOf(r) == [k |-> r.k, c |-> r.c, v |-> r.v, n |-> r.n]

EncWith(ev, r, m) ==
  /\ m.ok /\ ev.end = epos + Len(r.bins)
  /\ chan' = chan \o r.bins /\ dcE' = r.dc /\ renE' = m.ren /\ epos' = ev.end
EncEv2(ev, r) == EncWith(ev, r, Match(r.bins, 1, Rec[base].ebins, epos + 1, renE))
EncEv == /\ IsEvent("E") /\ phase = "enc"
         /\ EncEv2(Rec[l], EncOp(OpOf(Rec[l]), dcE))
         /\ UNCHANGED <<base, dcD, renD, rd, phase>>

FinWith(ev, bins, m) ==
  /\ m.ok /\ ev.end = epos + Len(bins) /\ ev.end = Len(Rec[base].ebins)
  /\ chan' = chan \o bins /\ dcE' = 0 /\ renE' = m.ren /\ epos' = ev.end
FinEv2(ev, bins) == FinWith(ev, bins, Match(bins, 1, Rec[base].ebins, epos + 1, renE))
FinEv == /\ IsEvent("F") /\ phase = "enc"
         /\ l = base + Rec[base].n + 1              \* every operation was recorded
         /\ FinEv2(Rec[l], EncFinish(dcE))
         /\ phase' = "dec"
         /\ UNCHANGED <<base, dcD, renD, rd>>

\* the decoder must consume exactly the bins the spec's decoder consumes, in
\* the contexts the spec names, obtain the bits that were written, and return
\* the value that the partner E event encoded
DecWith(ev, r, m) ==
  /\ r.ok /\ m.ok
  /\ ev.end = r.rd - 1
  /\ ev.v = r.v
  /\ rd' = r.rd /\ dcD' = r.dc /\ renD' = m.ren
DecEv3(ev, r) ==
  DecWith(ev, r, IF r.ok THEN Match(SubSeq(chan, rd, r.rd - 1), 1, Rec[base].dbins, rd, renD)
                         ELSE [ok |-> FALSE, ren |-> renD])
DecEv2(ev, partner) ==
  /\ partner.e = "E" /\ partner.k = ev.k /\ partner.c = ev.c /\ partner.n = ev.n
  /\ ev.v = partner.v                                   \* C10: lossless
  /\ DecEv3(ev, DecOp(chan, OpOf(ev), rd, dcD))
DecEv == /\ IsEvent("D") /\ phase = "dec"
         /\ DecEv2(Rec[l], Rec[l - Rec[base].n - 1])
         /\ UNCHANGED <<base, chan, dcE, renE, epos, phase>>

DoneEv == /\ IsEvent("Done") /\ phase = "dec"
          /\ l = base + 2 * Rec[base].n + 2
          /\ rd = Len(chan) + 1 /\ dcD = 0 /\ Len(Rec[base].dbins) = Len(chan)
          /\ phase' = "idle"
          /\ UNCHANGED <<base, chan, dcE, renE, epos, dcD, renD, rd>>

Next == Reset \/ EncEv \/ FinEv \/ DecEv \/ DoneEv
Spec == Init /\ [][Next]_vars

RunAtMostOne == dcE \in {0, 1}

\* accepted iff every line was consumed (one state per line plus the initial state)
Accepted ==
  LET d == TLCGet("stats").diameter IN
  IF d - 1 = Len(Rec) THEN TRUE
  ELSE /\ PrintT(<<"TRACE-REJECTED line", d, IF d <= Len(Rec) THEN ToJson([e |-> Rec[d].e]) ELSE "eof">>)
       /\ FALSE
=============================================================================
