------------------------------ MODULE MC_Chunks ------------------------------
(***************************************************************************)
(* Writer / reader symmetry of the container format (Chunks.tla) over      *)
(* chunk lists of up to MaxChunks chunks whose lengths sit on the varint   *)
(* boundaries, with payloads kept abstract: the container is a sequence of *)
(* items, a header byte or Blob(n) standing for n payload bytes.              *)
(* ZeroSizes = TRUE additionally lets an IDAT descriptor carry a chunk of  *)
(* size 0 - the pinned tree's defect (the size list is terminated by 0);   *)
(* it must violate RoundTrip and is kept as the negative self-test.        *)
(***************************************************************************)
EXTENDS Chunks, FiniteSets, TLC

CONSTANTS MaxChunks, ZeroSizes

Lens == {0, 1, 127, 128, 16383, 16384, 2097151, 2097152}
SizeLists == {<<1>>, <<5>>, <<70000>>, <<1, 1>>, <<127, 128>>, <<5, 70000, 1>>}
             \cup (IF ZeroSizes THEN {<<0>>, <<5, 0, 7>>, <<5, 0>>} ELSE {})
Lit(n)        == [kind |-> TagLiteral, span |-> n, plain_len |-> 0, corr_len |-> 0, sizes |-> <<>>, zh |-> <<0, 0>>, adler |-> <<0, 0, 0, 0>>]
Str(p, c)     == [kind |-> TagStream, span |-> 0, plain_len |-> p, corr_len |-> c, sizes |-> <<>>, zh |-> <<0, 0>>, adler |-> <<0, 0, 0, 0>>]
Idat(s, p, c) == [kind |-> TagIdat, span |-> 0, plain_len |-> p, corr_len |-> c, sizes |-> s, zh |-> <<120, 94>>, adler |-> <<1, 2, 3, 4>>]
ChunkSet == {Lit(n) : n \in Lens} \cup {Str(p, c) : p \in {0, 128, 16384}, c \in {0, 127}}
            \cup {Idat(s, p, 1) : s \in SizeLists, p \in {1025, 16384}}

Blob(n) == 1000 + n          \* (an item that is no byte)
Write(c) == IF c.kind = TagLiteral THEN Hdr1(c) \o <<Blob(c.span)>>
            ELSE Hdr1(c) \o <<Blob(c.plain_len)>> \o Hdr2(c) \o <<Blob(c.corr_len)>>
RECURSIVE WriteAll(_, _)
WriteAll(cs, i) == IF i > Len(cs) THEN <<>> ELSE Write(cs[i]) \o WriteAll(cs, i + 1)
Container(cs) == <<WrapperVersion>> \o WriteAll(cs, 1)

\* ---- the reader (read_chunk_block): one chunk from item position p
Bad == [ok |-> FALSE, c |-> Lit(0), p |-> 0]
IsBlob(x, n) == x = Blob(n)
\* varints are read from the byte items; a blob where a byte is expected is an error
Bytes(items) == [i \in 1..Len(items) |-> IF items[i] \in 0..255 THEN items[i] ELSE 999]
ReadOne(items, p) ==
  IF p > Len(items) THEN Bad
  ELSE IF items[p] = TagLiteral THEN
     LET v == ReadVarint(Bytes(items), p + 1) IN
     IF ~v.ok \/ v.p > Len(items) \/ ~IsBlob(items[v.p], v.v) THEN Bad
     ELSE [ok |-> TRUE, c |-> Lit(v.v), p |-> v.p + 1]
  ELSE IF items[p] \in {TagStream, TagIdat} THEN
     LET d == IF items[p] = TagIdat THEN ReadSizes(Bytes(items), p + 1, <<>>) ELSE [ok |-> TRUE, sizes |-> <<>>, p |-> p + 1]
         q == IF items[p] = TagIdat THEN d.p + 6 ELSE d.p
     IN IF ~d.ok \/ q > Len(items) THEN Bad
        ELSE LET v == ReadVarint(Bytes(items), q) IN
             IF ~v.ok \/ v.p > Len(items) \/ ~IsBlob(items[v.p], v.v) THEN Bad
             ELSE LET w == ReadVarint(Bytes(items), v.p + 1) IN
                  IF ~w.ok \/ w.p > Len(items) \/ ~IsBlob(items[w.p], w.v) THEN Bad
                  ELSE [ok |-> TRUE,
                        c |-> IF items[p] = TagIdat
                              THEN Idat(d.sizes, v.v, w.v) ELSE Str(v.v, w.v),
                        p |-> w.p + 1]
  ELSE Bad
RECURSIVE ReadAll(_, _, _)
ReadAllStep(items, r, acc) == IF ~r.ok THEN [ok |-> FALSE, cs |-> acc] ELSE ReadAll(items, r.p, Append(acc, r.c))
ReadAll(items, p, acc) == IF p > Len(items) THEN [ok |-> TRUE, cs |-> acc] ELSE ReadAllStep(items, ReadOne(items, p), acc)
Read(items) == IF Len(items) = 0 \/ items[1] # WrapperVersion THEN [ok |-> FALSE, cs |-> <<>>] ELSE ReadAll(items, 2, <<>>)

VARIABLE cs
Init == cs \in UNION {[1..n -> ChunkSet] : n \in 0..MaxChunks}
Next == UNCHANGED cs
Spec == Init /\ [][Next]_cs

\* the IDAT descriptor the reader gets back (zh / adler are carried verbatim: 6 bytes)
RoundTrip == Read(Container(cs)) = [ok |-> TRUE, cs |-> cs]
VarintRoundTrip == \A n \in Lens \cup {268435455, 268435456} : ReadVarint(Varint(n), 1) = [ok |-> TRUE, v |-> n, p |-> Len(Varint(n)) + 1]
=============================================================================
