------------------------------ MODULE MC_Deflate ------------------------------
(***************************************************************************)
(* Bounded model of the DEFLATE reader (DeflateParse.tla) over a catalogue *)
(* of inputs: small valid streams that between them use every production   *)
(* of the grammar, one input per way a production can fail, and every      *)
(* byte-prefix of all of them (end of input inside every field).           *)
(* Checked: every input ends in Accept or Reject with the catalogued       *)
(* reason (totality, C05); what is accepted is what was serialised         *)
(* (Parse o Serialise = id, C03) and re-serialises to the consumed input   *)
(* (Serialise o Parse = id, C07).  With Emit the catalogue is printed as   *)
(* replay cases for the real parser.                                       *)
(***************************************************************************)
EXTENDS DeflateParse, Json

CONSTANT Emit

VARIABLES case, cut, nbytes   \* which catalogue entry; how many of its nbytes bytes are given
vars == <<pvars, case, cut, nbytes>>

FixLC == Canon(FixedLitLens)
FixDC == Canon(FixedDistLens)
FixedBlock(fin, ts) == HeaderFields(fin, 1) \o BlockBody(ts, FixLC, FixedLitLens, FixDC, FixedDistLens)
\* a stored block that starts at bit position p
StoredBlock(fin, p, padv, data) == HeaderFields(fin, 0) \o StoredFields((8 - ((p + 3) % 8)) % 8, padv, data)
\* raw symbols under the fixed code (for symbols no token can denote)
FixSym(s) == C(FixLC[s], FixedLitLens[s])
FixDist(s) == C(FixDC[s], 5)

\* ---- a small dynamic header: 'A' (65) 1 bit, end-of-block and length-3 symbol 2 bits each;
\* two distance codes of 1 bit; the code length alphabet uses 1, 2 and 18
DLit  == [s \in 0..257 |-> IF s = 65 THEN 1 ELSE IF s \in {256, 257} THEN 2 ELSE 0]
DDist == [s \in 0..1 |-> 1]
DLit8 == [s \in 0..257 |-> IF s \in 65..71 THEN s - 64 ELSE IF s \in {256, 257} THEN 8 ELSE 0]
DCl   == [s \in 0..18 |-> IF s = 18 THEN 1 ELSE IF s \in {1, 2} THEN 2 ELSE 0]
DItems == << <<18, 54>>, <<1, 0>>, <<18, 127>>, <<18, 41>>, <<2, 0>>, <<2, 0>>, <<1, 0>>, <<1, 0>> >>
DynHdrFields(fin, hlitf, hdistf, hclen, cl, items) ==
  HeaderFields(fin, 2)
  \o << F(hlitf, 5), F(hdistf, 5), F(hclen - 4, 4) >> \o [k \in 1..hclen |-> F(cl[ClOrder[k]], 3)]
  \o Flat([i \in 1..Len(items) |-> << C(Canon(cl)[items[i][1]], cl[items[i][1]]) >> \o
            (IF items[i][1] >= 16 THEN << F(items[i][2], ItemExtraBits(items[i][1])) >> ELSE <<>>)])
DynBlockWith(fin, hlitf, hdistf, hclen, cl, items, ts, lit, dist) ==
  DynHdrFields(fin, hlitf, hdistf, hclen, cl, items) \o BlockBody(ts, Canon(lit), lit, Canon(dist), dist)
DynBlock(fin, items, ts) == DynBlockWith(fin, 1, 1, 19, DCl, items, ts, DLit, DDist)
DToks == << Lit(65), Ref(3, 1, FALSE), Ref(3, 2, FALSE) >>

Case(n, fs, v, r) == [name |-> n, fields |-> fs, verdict |-> v, reason |-> r]
ReplaceAt(s, i, x) == [s EXCEPT ![i] = x]

Catalogue == {
  \* ---- valid
  Case("fixed-tokens", FixedBlock(1, << Lit(97), Ref(3, 1, FALSE), Lit(200), Ref(258, 1, TRUE), Ref(258, 2, FALSE),
                                        Ref(10, 3, FALSE), Ref(4, 500, FALSE), Lit(0) >>), "accept", ""),
  Case("fixed-empty-then-stored", FixedBlock(0, <<>>) \o StoredBlock(1, 10, 5, <<1, 2, 3>>), "accept", ""),
  Case("stored-empty", StoredBlock(1, 0, 0, <<>>), "accept", ""),
  Case("stored-pad", StoredBlock(0, 0, 31, <<255>>) \o FixedBlock(1, << Ref(3, 1, FALSE) >>), "accept", ""),
  Case("dynamic", DynBlock(1, DItems, DToks), "accept", ""),
  Case("dynamic-then-fixed", DynBlock(0, DItems, << Lit(65) >>) \o FixedBlock(1, << Ref(5, 1, FALSE) >>), "accept", ""),
  Case("dynamic-repeat-after-zero",       \* 18 x65, 'A', zeros: 17 x3 then 16 (repeat the zero) ... legal
       DynBlockWith(1, 1, 1, 19, [DCl EXCEPT ![2] = 3, ![16] = 4, ![17] = 4],
                    << <<18, 54>>, <<1, 0>>, <<17, 0>>, <<16, 3>>, <<18, 127>>, <<18, 32>>, <<2, 0>>, <<2, 0>>, <<1, 0>>, <<1, 0>> >>,
                    DToks, DLit, DDist),
       "accept", ""),
  Case("dynamic-single-dist-code",        \* one distance code of one bit: incomplete, tolerated by zlib
       DynBlockWith(1, 1, 0, 19, DCl, << <<18, 54>>, <<1, 0>>, <<18, 127>>, <<18, 41>>, <<2, 0>>, <<2, 0>>, <<1, 0>> >>,
                    << Lit(65), Ref(3, 1, FALSE) >>, DLit, [s \in 0..0 |-> 1]), "accept", ""),
  Case("dynamic-no-dist-code",            \* literals only: no distance code at all
       DynBlockWith(1, 1, 0, 19, [DCl EXCEPT ![0] = 2, ![1] = 3, ![2] = 3],
                    << <<18, 54>>, <<1, 0>>, <<18, 127>>, <<18, 41>>, <<2, 0>>, <<2, 0>>, <<0, 0>> >>,
                    << Lit(65) >>, DLit, [s \in 0..0 |-> 0]), "accept", ""),
  Case("dynamic-explicit-only",           \* no run-length symbol at all: the code length alphabet uses 0, 1, 2 only
       DynHdrFields(1, 1, 1, 19, [s \in 0..18 |-> IF s = 0 THEN 1 ELSE IF s \in {1, 2} THEN 2 ELSE 0],
                    [i \in 1..260 |-> IF i = 66 THEN <<1, 0>> ELSE IF i \in {257, 258} THEN <<2, 0>>
                                       ELSE IF i \in {259, 260} THEN <<1, 0>> ELSE <<0, 0>>])
       \o BlockBody(DToks, Canon(DLit), DLit, Canon(DDist), DDist), "accept", ""),
  Case("dynamic-explicit-lengths-to-8",   \* explicit lengths only, up to 8: the code length alphabet uses 0..8 and nothing above
       DynHdrFields(1, 1, 1, 19, [s \in 0..18 |-> IF s = 0 THEN 1 ELSE IF s \in 1..8 THEN 4 ELSE 0],
                    [i \in 1..260 |-> IF i \in 66..72 THEN <<i - 65, 0>> ELSE IF i \in {257, 258} THEN <<8, 0>>
                                       ELSE IF i \in {259, 260} THEN <<1, 0>> ELSE <<0, 0>>])
       \o BlockBody(DToks, Canon(DLit8), DLit8, Canon(DDist), DDist), "accept", ""),
  \* ---- one input per way a production can fail
  Case("block-type-3", << F(1, 1), F(3, 2), F(0, 5) >>, "reject", "block-type"),
  \* the reserved block type in front of what would be a well-formed dynamic block
  Case("block-type-3-dynamic-body", HeaderFields(1, 3) \o SubSeq(DynBlock(1, DItems, DToks), 3, Len(DynBlock(1, DItems, DToks))),
       "reject", "block-type"),
  Case("stored-nlen", HeaderFields(1, 0) \o << F(0, 5), F(2, 16), F(65532, 16), F(7, 8), F(8, 8) >>, "reject", "len-nlen"),
  \* NLEN with ones where the complement has zeros (LEN | NLEN is still all ones, LEN xor NLEN is not)
  Case("stored-nlen-extra-ones", HeaderFields(1, 0) \o << F(0, 5), F(2, 16), F(65535, 16), F(7, 8), F(8, 8) >>, "reject", "len-nlen"),
  Case("hlit-287", HeaderFields(1, 2) \o << F(30, 5), F(1, 5), F(15, 4) >> \o [k \in 1..19 |-> F(DCl[ClOrder[k]], 3)], "reject", "too-many-symbols"),
  \* block type history fixed, dynamic, fixed: the dynamic code (a = 0, b = 10, c = 110, end = 111) is such
  \* that the last block's bits ('A' under the fixed code: 01110001, then the end of block) also read under it
  \* (as 'a', end of block) - a reader that still holds the previous block's tables does not even notice
  Case("fixed-dynamic-fixed",
       FixedBlock(0, << Lit(97), Lit(98) >>)
       \o DynBlockWith(0, 0, 1, 19, [s \in 0..18 |-> IF s \in {1, 2, 3, 18} THEN 2 ELSE 0],
                       << <<18, 86>>, <<1, 0>>, <<2, 0>>, <<3, 0>>, <<18, 127>>, <<18, 7>>, <<3, 0>>, <<1, 0>>, <<1, 0>> >>,
                       << Lit(97), Lit(98), Lit(99) >>,
                       [s \in 0..256 |-> IF s = 97 THEN 1 ELSE IF s = 98 THEN 2 ELSE IF s \in {99, 256} THEN 3 ELSE 0], DDist)
       \o FixedBlock(1, << Lit(65) >>), "accept", ""),
  \* the largest header the two 5-bit counts can announce: 288 literal/length and 32 distance lengths, the
  \* surplus ones zero (zlib refuses more than 286 / 30; a reader that takes it has 320 lengths to hold)
  Case("hlit-288-hdist-32",
       DynBlockWith(1, 31, 31, 19, DCl,
                    << <<18, 54>>, <<1, 0>>, <<18, 127>>, <<18, 41>>, <<2, 0>>, <<2, 0>>, <<18, 19>>, <<1, 0>>, <<1, 0>>, <<18, 19>> >>,
                    DToks, [s \in 0..287 |-> IF s = 65 THEN 1 ELSE IF s \in {256, 257} THEN 2 ELSE 0],
                    [s \in 0..31 |-> IF s \in {0, 1} THEN 1 ELSE 0]),
       "reject", "too-many-symbols"),
  \* a repeat (16) right behind a zero run.  RFC 1951 / zlib repeat the zero (the literal code is then
  \* incomplete: rejected); the library repeats the last explicit length, under which reading the code
  \* is complete and the body below is well formed.  Whatever a reader makes of it, it must write it back.
  Case("repeat-after-zero-run",
       DynBlockWith(1, 0, 1, 19, [s \in 0..18 |-> IF s \in {1, 3, 16, 18} THEN 2 ELSE 0],
                    << <<3, 0>>, <<18, 85>>, <<16, 3>>, <<18, 127>>, <<18, 4>>, <<3, 0>>, <<1, 0>>, <<1, 0>> >>,
                    << Lit(0), Lit(97), Lit(100), Lit(102), Lit(0) >>,
                    [s \in 0..256 |-> IF s = 0 \/ s \in 97..102 \/ s = 256 THEN 3 ELSE 0], DDist),
       "reject", "lit-code"),
  \* 32 distance codes, two of them (30, 31) with a code although no distance uses them, and a reference whose
  \* code is longer than theirs: zlib refuses the header; a reader that takes it must write it back as it was
  Case("hdist-32-with-codes-30-31",
       DynBlockWith(1, 1, 31, 19, [DCl EXCEPT ![2] = 3, ![3] = 3],
                    << <<18, 54>>, <<1, 0>>, <<18, 127>>, <<18, 41>>, <<2, 0>>, <<2, 0>>, <<1, 0>>, <<3, 0>>, <<18, 17>>, <<2, 0>>, <<3, 0>> >>,
                    << Lit(65), Ref(3, 1, FALSE), Ref(3, 2, FALSE), Ref(3, 2, FALSE) >>, DLit,
                    [s \in 0..31 |-> IF s = 0 THEN 1 ELSE IF s = 1 THEN 3 ELSE IF s = 30 THEN 2 ELSE IF s = 31 THEN 3 ELSE 0]),
       "reject", "too-many-symbols"),
  Case("hdist-31", HeaderFields(1, 2) \o << F(1, 5), F(30, 5), F(15, 4) >> \o [k \in 1..19 |-> F(DCl[ClOrder[k]], 3)], "reject", "too-many-symbols"),
  Case("cl-incomplete", DynBlockWith(1, 1, 1, 19, [DCl EXCEPT ![2] = 3], DItems, DToks, DLit, DDist), "reject", "cl-incomplete"),
  Case("cl-oversubscribed", DynBlockWith(1, 1, 1, 19, [DCl EXCEPT ![2] = 1], DItems, DToks, DLit, DDist), "reject", "cl-incomplete"),
  Case("repeat-first", DynBlockWith(1, 1, 1, 19, [DCl EXCEPT ![2] = 3, ![16] = 3], << <<16, 0>>, <<18, 51>> >> \o Tail(DItems), DToks, DLit, DDist),
       "reject", "repeat-no-prev"),      \* well formed apart from the leading 16: the lengths still add up
  Case("overrun", DynBlock(1, ReplaceAt(DItems, 4, <<18, 127>>), DToks), "reject", "overrun"),
  \* the last item is a repeat that runs two lengths past HLIT + HDIST; cut off at the announced size the
  \* two codes would be complete and the rest of the block well formed
  Case("overrun-by-final-repeat", DynBlockWith(1, 1, 1, 19, [DCl EXCEPT ![2] = 3, ![16] = 3], ReplaceAt(DItems, 8, <<16, 0>>), DToks, DLit, DDist),
       "reject", "overrun"),
  Case("no-eob", DynHdrFields(1, 1, 1, 19, DCl, << <<18, 54>>, <<1, 0>>, <<18, 127>>, <<18, 42>>, <<1, 0>>, <<1, 0>>, <<1, 0>> >>)
                 \o << F(0, 8) >>, "reject", "no-eob"),
  Case("lit-incomplete", DynBlock(1, ReplaceAt(DItems, 2, <<2, 0>>), DToks), "reject", "lit-code"),
  Case("lit-oversubscribed", DynBlock(1, ReplaceAt(DItems, 5, <<1, 0>>), DToks), "reject", "lit-code"),
  Case("dist-incomplete", DynBlock(1, ReplaceAt(DItems, 8, <<2, 0>>), DToks), "reject", "dist-code"),
  Case("len-symbol-286", HeaderFields(1, 1) \o << FixSym(97), FixSym(286), FixDist(0), FixSym(256) >>, "reject", "len-symbol"),
  Case("len-symbol-287", HeaderFields(1, 1) \o << FixSym(97), FixSym(287), FixDist(0), FixSym(256) >>, "reject", "len-symbol"),
  Case("dist-symbol-30", HeaderFields(1, 1) \o << FixSym(97), FixSym(257), FixDist(30), FixSym(256) >>, "reject", "dist-symbol"),
  Case("dist-symbol-31", HeaderFields(1, 1) \o << FixSym(97), FixSym(257), FixDist(31), FixSym(256) >>, "reject", "dist-symbol"),
  Case("too-far", FixedBlock(1, << Lit(97), Ref(3, 2, FALSE) >>), "reject", "too-far"),
  Case("too-far-at-start", FixedBlock(1, << Ref(3, 1, FALSE) >>), "reject", "too-far"),
  \* a single distance code of one bit: the other one-bit pattern has no symbol
  Case("invalid-code", DynHdrFields(1, 1, 0, 19, DCl, << <<18, 54>>, <<1, 0>>, <<18, 127>>, <<18, 41>>, <<2, 0>>, <<2, 0>>, <<1, 0>> >>)
                       \o << C(Canon(DLit)[65], 1), C(Canon(DLit)[257], 2), C(1, 1), F(0, 8) >>, "reject", "invalid-code"),
  \* the same followed by a proper end of block: a reader that maps the unassigned pattern to the only
  \* symbol would accept this, and a writer has no way to spell it
  Case("invalid-code-then-eob", DynHdrFields(1, 1, 0, 19, DCl, << <<18, 54>>, <<1, 0>>, <<18, 127>>, <<18, 41>>, <<2, 0>>, <<2, 0>>, <<1, 0>> >>)
                       \o << C(Canon(DLit)[65], 1), C(Canon(DLit)[257], 2), C(1, 1), C(Canon(DLit)[256], 2) >>, "reject", "invalid-code")
}

\* bits of a field list, then zero padding to a whole byte
RECURSIVE FieldBits(_, _)
OneField(f) == [i \in 1..f[2] |-> IF f[3] = 1 THEN (f[1] \div Pow2(f[2] - i)) % 2 ELSE (f[1] \div Pow2(i - 1)) % 2]
FieldBits(fs, i) == IF i > Len(fs) THEN <<>> ELSE OneField(fs[i]) \o FieldBits(fs, i + 1)
Padded(b) == b \o [i \in 1..((8 - (Len(b) % 8)) % 8) |-> 0]
InputBits(c) == Padded(FieldBits(c.fields, 1))

InitWith(c, b) == /\ case = c /\ nbytes = Len(b) \div 8
                  /\ cut \in 0..(Len(b) \div 8)
                  /\ ParseInit(SubSeq(b, 1, 8 * cut))
\* a stored block behind a fixed block, its header ending at every bit position of a byte (n literals of
\* nine bits each move it by one bit), with and without padding bits set
StoredAt == { Case("stored-after-fixed-" \o ToString(n) \o (IF pv = 0 THEN "" ELSE "-pad"),
                   FixedBlock(0, [i \in 1..n |-> Lit(200)]) \o StoredBlock(1, 10 + 9 * n, pv, <<7, 8, 9>>), "accept", "")
              : n \in 0..7, pv \in {0, 1} }
AllCases == Catalogue \cup StoredAt
Init == \E c \in AllCases : InitWith(c, InputBits(c))

Next == ParseNext /\ UNCHANGED <<case, cut, nbytes>>
Spec == Init /\ [][Next]_vars /\ WF_vars(Next)

Whole == cut = nbytes
Done == phase = "done"

\* C05 (model): the reader always ends, in Accept or Reject
Terminates == <>Done
Total == Done => verdict \in {"accept", "reject"}
\* the catalogued verdict for whole inputs; a proper prefix of a valid stream is refused as truncated
Verdicts == Done =>
   /\ (Whole => (verdict = case.verdict /\ reason = case.reason))
   /\ ((~Whole /\ verdict = "accept") => 8 * cut >= pos)
ProperPrefixOfValid == (Done /\ case.verdict = "accept" /\ verdict = "reject") => reason = "truncated"
\* C07 (model): what was parsed re-serialises to exactly the consumed input
ReserialiseIsIdentity ==
  (Done /\ verdict = "accept") =>
     Padded(FieldBits(Reserialise(blocks, 1, 0), 1)) = SubSeq(bits, 1, pos)

BytesOf(b) == [i \in 1..(Len(b) \div 8) |-> LsbAt(8 * (i - 1), 8)]
TokJ(t) == IF t.k = "L" THEN <<0, t.v, 0, 0>> ELSE <<1, t.l, t.d, IF t.irr THEN 1 ELSE 0>>
BlockJ(b) == [type |-> b.type, final |-> b.final, pad |-> b.pad, slen |-> b.slen,
              toks |-> [i \in 1..Len(b.toks) |-> TokJ(b.toks[i])]]
Replay == (Emit /\ Done) =>
   PrintT(<<"REPLAY", ToJson([name |-> case.name, cut |-> cut, whole |-> Whole, bytes |-> BytesOf(bits),
                              verdict |-> verdict, reason |-> reason, consumed |-> pos \div 8, plain |-> outlen,
                              lenient |-> reason \in Lenient,
                              blocks |-> [i \in 1..Len(blocks) |-> BlockJ(blocks[i])]])>>)
=============================================================================
