----------------------------- MODULE DiffProof -----------------------------
(***************************************************************************)
(* Unbounded complement to the bounded checks: the difference coding used  *)
(* for length, type and bit-length corrections (cabac_codec.rs             *)
(* encode_difference / decode_difference; Codec!EncodeDiff / DecodeDiff)   *)
(* is inverted exactly, for all naturals.  Checked by the TLA+ proof       *)
(* system (tlapm), not by TLC.                                             *)
(***************************************************************************)
EXTENDS Naturals, TLAPS

EncodeDiff(pred, act) == IF pred >= act THEN (pred - act) * 2 ELSE (act - pred) * 2 + 1
DecodeDiff(pred, enc) == IF enc % 2 = 0 THEN pred - (enc \div 2) ELSE pred + (enc \div 2)

THEOREM DiffRoundTrip == \A p, a \in Nat : DecodeDiff(p, EncodeDiff(p, a)) = a
<1> SUFFICES ASSUME NEW p \in Nat, NEW a \in Nat PROVE DecodeDiff(p, EncodeDiff(p, a)) = a
    OBVIOUS
<1>1. CASE p >= a
    <2>1. EncodeDiff(p, a) = (p - a) * 2  BY <1>1 DEF EncodeDiff
    <2>2. ((p - a) * 2) % 2 = 0 /\ ((p - a) * 2) \div 2 = p - a  BY <1>1, SMT
    <2>3. DecodeDiff(p, (p - a) * 2) = p - (p - a)  BY <2>2 DEF DecodeDiff
    <2>4. p - (p - a) = a  BY <1>1, SMT
    <2> QED BY <2>1, <2>3, <2>4
<1>2. CASE ~(p >= a)
    <2>1. EncodeDiff(p, a) = (a - p) * 2 + 1  BY <1>2 DEF EncodeDiff
    <2>2. ((a - p) * 2 + 1) % 2 = 1 /\ ((a - p) * 2 + 1) \div 2 = a - p  BY <1>2, SMT
    <2>3. DecodeDiff(p, (a - p) * 2 + 1) = p + (a - p)  BY <2>2 DEF DecodeDiff
    <2>4. p + (a - p) = a  BY <1>2, SMT
    <2> QED BY <2>1, <2>3, <2>4
<1> QED BY <1>1, <1>2

\* the encoded value identifies prediction error and direction: it is injective in the actual value
THEOREM DiffInjective == \A p, a, b \in Nat : EncodeDiff(p, a) = EncodeDiff(p, b) => a = b
  BY DiffRoundTrip
=============================================================================
