------------------------------- MODULE Params -------------------------------
(***************************************************************************)
(* The parameter vector that travels at the front of the correction data   *)
(* (src/preflate_parameter_estimator.rs write / read) and the range of     *)
(* vectors the estimator can emit.  A vector is a sequence of 18 numbers:  *)
(*  1 strategy (0 default, 1 rle only, 2 huff only, 3 store)               *)
(*  2 huff_strategy (0 dynamic, 1 mixed, 2 static)     3 zlib_compatible   *)
(*  4 window_bits      5 hash_algorithm (0 none, 1 zlib, 2 miniz fast,     *)
(*  3 libdeflate4, 4 libdeflate4 fast, 5 zlib-ng, 6 random vector, 7 crc32c)*)
(*  6 hash_shift  7 hash_mask (zlib hash only)          8 max_token_count  *)
(*  9 max_dist_3_matches  10 very_far_matches  11 matches_to_start         *)
(* 12 good_length 13 max_lazy (0, 0 = greedy)  14 nice_length 15 max_chain *)
(* 16 min_len   17 add_policy (0 all, 1 first(limit), 2 first and last     *)
(* (limit), 3 first except 4k boundary, 4 first with 32k boundary) 18 limit*)
(***************************************************************************)
EXTENDS Naturals, Sequences, FiniteSets

FileVersion == 1
V(v, n) == <<"V", v, n>>

HasHashParams(p) == p[5] = 1
HasLimit(p) == p[17] \in {1, 2}

\* the header: field order and widths exactly as written
Write(p) ==
     << V(FileVersion, 8), V(p[1], 4), V(p[2], 4), V(p[3], 1), V(p[4], 8), V(p[5], 4) >>
  \o (IF HasHashParams(p) THEN << V(p[6], 8), V(p[7], 16) >> ELSE <<>>)
  \o << V(p[8], 16), V(p[9], 16), V(p[10], 1), V(p[11], 1), V(p[12], 16), V(p[13], 16),
        V(p[14], 16), V(p[15], 16), V(p[16], 16), V(p[17], 3) >>
  \o (IF HasLimit(p) THEN << V(p[18], 8) >> ELSE <<>>)

Pow2(n) == IF n = 16 THEN 65536 ELSE IF n = 8 THEN 256 ELSE IF n = 4 THEN 16 ELSE IF n = 3 THEN 8 ELSE IF n = 1 THEN 2 ELSE 0
\* every field fits its width (a value that does not fit is silently truncated by the bypass coder)
FitsW(w) == \A i \in 1..Len(w) : w[i][2] < Pow2(w[i][3])
Fits(p) == FitsW(Write(p))

\* reading the header back from the values (vs[i] = value of the i-th header field)
Read(vs) ==
  LET h == vs[6] = 1
      o == IF h THEN 2 ELSE 0
      a == vs[16 + o]
  IN << vs[2], vs[3], vs[4], vs[5], vs[6], IF h THEN vs[7] ELSE 0, IF h THEN vs[8] ELSE 0,
        vs[7 + o], vs[8 + o], vs[9 + o], vs[10 + o], vs[11 + o], vs[12 + o], vs[13 + o], vs[14 + o],
        vs[15 + o], a, IF a \in {1, 2} THEN vs[17 + o] ELSE 0 >>
Values(ops) == [i \in 1..Len(ops) |-> ops[i][2]]
\* unused hash parameters / limit are normalised to 0 by both sides
Normal(p) == [p EXCEPT ![6] = IF HasHashParams(p) THEN @ ELSE 0, ![7] = IF HasHashParams(p) THEN @ ELSE 0,
                       ![18] = IF HasLimit(p) THEN @ ELSE 0]
RoundTrips(p) == Read(Values(Write(p))) = Normal(p)

(***************************************************************************)
(* What the estimator can emit (estimate_preflate_parameters,              *)
(* complevel_estimator.rs recommend, add_policy_estimator.rs).             *)
(***************************************************************************)
NoDictionary(p) ==
  /\ p[1] \in {2, 3} /\ p[2] \in 0..2 /\ p[3] = 1 /\ p[4] = 0 /\ p[5] = 0 /\ p[6] = 0 /\ p[7] = 0
  /\ p[8] = 16386 /\ p[9] = 0 /\ p[10] = 0 /\ p[11] = 0 /\ p[12] = 0 /\ p[13] = 0 /\ p[14] = 0
  /\ p[15] = 0 /\ p[16] = 0 /\ p[17] = 0 /\ p[18] = 0
Matching == { <<0, 0>>, <<4, 4>>, <<8, 16>>, <<8, 32>>, <<32, 128>>, <<32, 258>> }
TokenCounts == { 127, 255, 511, 1023, 2047, 4095, 8191, 16383, 32767 }      \* 2^(6+memlevel) - 1
Dictionary(p) ==
  /\ p[1] \in {0, 1} /\ p[2] \in 0..2 /\ p[3] \in {0, 1} /\ p[4] \in 9..15
  /\ p[5] \in 1..7
  /\ (p[5] = 1 => <<p[6], p[7]>> \in { <<5, 32767>>, <<4, 2047>> })
  /\ (p[5] # 1 => p[6] = 0 /\ p[7] = 0)
  /\ (p[16] = 3 => p[5] \in {1, 2, 3, 6}) /\ (p[16] # 3 => p[5] \in {4, 5, 7})
  /\ p[8] \in TokenCounts /\ p[9] \in 0..32768 /\ p[10] \in {0, 1} /\ p[11] \in {0, 1}
  /\ <<p[12], p[13]>> \in Matching /\ p[14] \in {8, 16, 32, 128, 258}
  /\ p[15] \in 1..4096 /\ p[16] \in 3..258
  /\ p[17] \in 0..4 /\ (p[17] \in {1, 2} => p[18] \in 0..255) /\ (p[17] \notin {1, 2} => p[18] = 0)
InEstimatorRange(p) == Len(p) = 18 /\ (NoDictionary(p) \/ Dictionary(p))
=============================================================================
