----------------------------- MODULE Trace_Zstd -----------------------------
(* Reset run flen size zlen | Decompress frame cap result equal | Done       *)
EXTENDS Zstd, TLC, Json, IOUtils
Rec == ndJsonDeserialize(IOEnv.TRACE)
VARIABLES l, base, phase, seen
vars == <<l, base, phase, seen>>
Init == l = 1 /\ base = 1 /\ phase = "idle" /\ seen = {}
IsEvent(e) == l <= Len(Rec) /\ Rec[l].e = e /\ l' = l + 1
Reset == IsEvent("Reset") /\ phase = "idle" /\ base' = l /\ phase' = "run" /\ seen' = {}
Dec == /\ IsEvent("Decompress") /\ phase = "run"
       /\ Rec[l].frame \in FrameClasses
       /\ Satisfies(Demand(Rec[l].frame, Rec[l].cap, Rec[base].size), Rec[l].result, Rec[l].equal)
       /\ seen' = seen \cup {Rec[l].frame} /\ UNCHANGED <<base, phase>>
\* every run must have exercised the boundary: at, below and above the expanded size
Done == /\ IsEvent("Done") /\ phase = "run" /\ "valid" \in seen /\ "garbage" \in seen
        /\ phase' = "idle" /\ UNCHANGED <<base, seen>>
Next == Reset \/ Dec \/ Done
Spec == Init /\ [][Next]_vars
Accepted ==
  LET d == TLCGet("stats").diameter IN
  IF d - 1 = Len(Rec) THEN TRUE
  ELSE /\ PrintT(<<"TRACE-REJECTED line", d, IF d <= Len(Rec) THEN ToJson([e |-> Rec[d].e]) ELSE "eof">>)
       /\ FALSE
=============================================================================
