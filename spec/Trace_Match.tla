----------------------------- MODULE Trace_Match -----------------------------
(***************************************************************************)
(* Validates the predictions the real predictor made while a stream was    *)
(* analysed (hook: predictor log with the predicted token) against         *)
(* Match.tla: for every token the specification recomputes, from the       *)
(* plaintext, the parameters and the tokens so far, what must have been    *)
(* predicted.  This makes the implicit part of the stored format explicit: *)
(* a change of the hash function, of what enters the dictionary, of the    *)
(* candidate order, of a search limit or of the lazy rule is a different   *)
(* prediction somewhere.  The correction operations of every token are    *)
(* recomputed as well (which flag, the length difference, the distance as  *)
(* a number of hops) and the decoder's inverse (hop_match) is applied to   *)
(* them: together with Stream.tla, TreePredict.tla / HuffCalc.tla and      *)
(* Params.tla the whole operation sequence of a stream is then a function  *)
(* the specification computes from the stream and its parameters.          *)
(*                                                                         *)
(*  Reset   run params plain supported                                     *)
(*  Stored  len                    a stored block                          *)
(*  Block                          start of a Huffman block                *)
(*  Tok     t (target) p (predicted: kind len dist) pos pend               *)
(*          ops (the correction operations the encoder emitted for it)     *)
(*  End                                                                    *)
(***************************************************************************)
EXTENDS Match, TLC, Json, IOUtils

Rec == ndJsonDeserialize(IOEnv.TRACE)

VARIABLES l, base, pos, chains, pend, H, chains3, H3, phase
vars == <<l, base, pos, chains, pend, H, chains3, H3, phase>>
Dict == [H |-> H, chains |-> chains, H3 |-> H3, chains3 |-> chains3]
TraceView == <<l, pos, pend, phase>>

Plain == Rec[base].plain
Par == Rec[base].params
N == Len(Plain)

Init == l = 1 /\ base = 1 /\ pos = 0 /\ chains = <<>> /\ pend = NoRef /\ H = <<>> /\ chains3 = <<>> /\ H3 = <<>> /\ phase = "idle"
IsEvent(e) == l <= Len(Rec) /\ Rec[l].e = e /\ l' = l + 1

\* hash of every position that has enough bytes for the hash function
Hashes(plain, p) == [q \in 1..(IF Len(plain) >= HashBytes(p) THEN Len(plain) - HashBytes(p) + 1 ELSE 0) |-> HashAt(plain, q - 1, p)]
Hashes3(plain, p) == IF HasSecondary(p)
                     THEN [q \in 1..(IF Len(plain) >= 3 THEN Len(plain) - 2 ELSE 0) |-> LibdeflateHash3(plain, q - 1)]
                     ELSE <<>>

Reset == /\ IsEvent("Reset") /\ phase = "idle"
         /\ base' = l /\ pos' = 0 /\ pend' = NoRef
         /\ IF Rec[l].supported
            THEN /\ \E h \in {Hashes(Rec[l].plain, Rec[l].params)} : H' = h /\ chains' = EmptyChains(h)
                 /\ \E h \in {Hashes3(Rec[l].plain, Rec[l].params)} : H3' = h /\ chains3' = EmptyChains(h)
                 /\ phase' = "run"
            ELSE H' = <<>> /\ chains' = <<>> /\ H3' = <<>> /\ chains3' = <<>> /\ phase' = "skip"
\* hash functions outside 32-bit arithmetic, or no dictionary at all: nothing to recompute
Skip == /\ IsEvent("Skip") /\ phase = "skip" /\ phase' = "idle" /\ UNCHANGED <<base, pos, chains, pend, H, chains3, H3>>

\* a stored block adds every byte on its own
Singles(from, to, nhb) == [i \in 1..(IF Mn(to, N - nhb) > from THEN Mn(to, N - nhb) - from ELSE 0) |-> from + i - 1]
StoredEv == /\ IsEvent("Stored") /\ phase = "run"
            /\ pos + Rec[l].len <= N
            /\ chains' = InsertAll(chains, H, Singles(pos, pos + Rec[l].len, HashBytes(Par)), 1)
            /\ chains3' = IF HasSecondary(Par) THEN InsertAll(chains3, H3, Singles(pos, pos + Rec[l].len, 3), 1) ELSE chains3
            /\ pos' = pos + Rec[l].len /\ pend' = NoRef
            /\ UNCHANGED <<base, H, H3, phase>>
BlockEv == /\ IsEvent("Block") /\ phase = "run" /\ pend' = NoRef /\ UNCHANGED <<base, pos, chains, H, chains3, H3, phase>>

TokLen(t) == IF t[1] = 0 THEN 1 ELSE t[2]
TokWith(ev, st, pr) ==
  /\ ev.pos = pos
  /\ ev.pend = (IF pend = NoRef THEN 0 ELSE 1)
  /\ ev.p = <<pr.tok[1], pr.tok[2], pr.tok[3]>>                         \* the prediction itself
  /\ ev.ops = TokenOps(Plain, Dict, st, Par, ev.t, pr)                   \* what the encoder says about the token
  /\ (ev.t[1] = 1 =>                                                    \* and what the decoder makes of that
        Decoded(Plain, Dict, st, Par, ev.ops,
                IF pr.tok[1] = 1 THEN <<pr.tok[2], pr.tok[3]>> ELSE Repredict(Plain, Dict, st, Par)) = <<ev.t[2], ev.t[3]>>)
  /\ chains' = InsertAll(chains, H, Added(N, pos, TokLen(ev.t), Par), 1)
  /\ chains3' = IF HasSecondary(Par) THEN InsertAll(chains3, H3, Added3(N, pos, TokLen(ev.t), Par), 1) ELSE chains3
  /\ pos' = pos + TokLen(ev.t) /\ pos + TokLen(ev.t) <= N
  /\ pend' = IF ev.t[1] = 0 THEN pr.pend ELSE NoRef
TokEv == /\ IsEvent("Tok") /\ phase = "run"
         /\ \E st \in {[pos |-> pos, pend |-> pend]} : TokWith(Rec[l], st, Predict(Plain, Dict, st, Par))
         /\ UNCHANGED <<base, H, H3, phase>>

EndEv == /\ IsEvent("End") /\ phase = "run" /\ pos = N /\ phase' = "idle" /\ UNCHANGED <<base, pos, chains, pend, H, chains3, H3>>

Next == Reset \/ Skip \/ StoredEv \/ BlockEv \/ TokEv \/ EndEv
Spec == Init /\ [][Next]_vars

Accepted ==
  LET d == TLCGet("stats").diameter IN
  IF d - 1 = Len(Rec) THEN TRUE
  ELSE /\ PrintT(<<"TRACE-REJECTED line", d, IF d <= Len(Rec) THEN ToJson([e |-> Rec[d].e]) ELSE "eof">>)
       /\ FALSE
=============================================================================
