----------------------------- MODULE Trace_Match -----------------------------
(***************************************************************************)
(* Validates the predictions the real predictor made while a stream was    *)
(* analysed (hook: predictor log with the predicted token) against         *)
(* Match.tla: for every token the specification recomputes, from the       *)
(* plaintext, the parameters and the tokens so far, what must have been    *)
(* predicted.  This makes the implicit part of the stored format explicit: *)
(* a change of the hash function, of what enters the dictionary, of the    *)
(* candidate order, of a search limit or of the lazy rule is a different   *)
(* prediction somewhere.                                                   *)
(*                                                                         *)
(*  Reset   run params plain supported                                     *)
(*  Stored  len                    a stored block                          *)
(*  Block                          start of a Huffman block                *)
(*  Tok     t (target) p (predicted: kind len dist) pos pend               *)
(*  End                                                                    *)
(***************************************************************************)
EXTENDS Match, TLC, Json, IOUtils

Rec == ndJsonDeserialize(IOEnv.TRACE)

VARIABLES l, base, pos, chains, pend, H, phase
vars == <<l, base, pos, chains, pend, H, phase>>
TraceView == <<l, pos, pend, phase>>

Plain == Rec[base].plain
Par == Rec[base].params
N == Len(Plain)

Init == l = 1 /\ base = 1 /\ pos = 0 /\ chains = <<>> /\ pend = NoRef /\ H = <<>> /\ phase = "idle"
IsEvent(e) == l <= Len(Rec) /\ Rec[l].e = e /\ l' = l + 1

\* hash of every position that has three bytes
Hashes(plain, p) == [q \in 1..(IF Len(plain) >= 3 THEN Len(plain) - 2 ELSE 0) |-> HashAt(plain, q - 1, p)]

Reset == /\ IsEvent("Reset") /\ phase = "idle"
         /\ base' = l /\ pos' = 0 /\ pend' = NoRef
         /\ IF Rec[l].supported
            THEN H' = Hashes(Rec[l].plain, Rec[l].params) /\ chains' = EmptyChains(Rec[l].params) /\ phase' = "run"
            ELSE H' = <<>> /\ chains' = <<>> /\ phase' = "skip"
\* hash functions outside 32-bit arithmetic, or no dictionary at all: nothing to recompute
Skip == /\ IsEvent("Skip") /\ phase = "skip" /\ phase' = "idle" /\ UNCHANGED <<base, pos, chains, pend, H>>

\* a stored block adds every byte on its own
StoredEv == /\ IsEvent("Stored") /\ phase = "run"
            /\ pos + Rec[l].len <= N
            /\ chains' = InsertAll(chains, H, [i \in 1..(IF Mn(pos + Rec[l].len, N - 3) > pos THEN Mn(pos + Rec[l].len, N - 3) - pos ELSE 0) |-> pos + i - 1], 1)
            /\ pos' = pos + Rec[l].len /\ pend' = NoRef
            /\ UNCHANGED <<base, H, phase>>
BlockEv == /\ IsEvent("Block") /\ phase = "run" /\ pend' = NoRef /\ UNCHANGED <<base, pos, chains, H, phase>>

TokLen(t) == IF t[1] = 0 THEN 1 ELSE t[2]
TokWith(ev, pr) ==
  /\ ev.pos = pos
  /\ ev.pend = (IF pend = NoRef THEN 0 ELSE 1)
  /\ ev.p = <<pr.tok[1], pr.tok[2], pr.tok[3]>>                         \* the prediction itself
  /\ chains' = InsertAll(chains, H, Added(N, pos, TokLen(ev.t), Par), 1)
  /\ pos' = pos + TokLen(ev.t) /\ pos + TokLen(ev.t) <= N
  /\ pend' = IF ev.t[1] = 0 THEN pr.pend ELSE NoRef
TokEv == /\ IsEvent("Tok") /\ phase = "run"
         /\ TokWith(Rec[l], Predict(Plain, chains, H, [pos |-> pos, pend |-> pend], Par))
         /\ UNCHANGED <<base, H, phase>>

EndEv == /\ IsEvent("End") /\ phase = "run" /\ pos = N /\ phase' = "idle" /\ UNCHANGED <<base, pos, chains, pend, H>>

Next == Reset \/ Skip \/ StoredEv \/ BlockEv \/ TokEv \/ EndEv
Spec == Init /\ [][Next]_vars

Accepted ==
  LET d == TLCGet("stats").diameter IN
  IF d - 1 = Len(Rec) THEN TRUE
  ELSE /\ PrintT(<<"TRACE-REJECTED line", d, IF d <= Len(Rec) THEN ToJson([e |-> Rec[d].e]) ELSE "eof">>)
       /\ FALSE
=============================================================================
