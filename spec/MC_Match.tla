------------------------------ MODULE MC_Match ------------------------------
(***************************************************************************)
(* Model-level C02 for the concrete matcher of Match.tla: for every        *)
(* plaintext of up to N bytes over a two-letter alphabet, every valid      *)
(* LZ77 parse of it (any earlier occurrence, any length from 3 up to the   *)
(* common length) and every parameter vector of ParamSet, the analyser's   *)
(* side (Predict, Repredict, Hops: TokenOps) and the reconstructor's side  *)
(* (Predict, Repredict, HopMatch: Decoded), run over the same growing      *)
(* dictionary, agree: whenever the analysis of a token does not fail, the  *)
(* decoder recovers exactly that token.  This is what makes a wrong        *)
(* prediction harmless, for whatever reason it is wrong (C08).  The two    *)
(* sides count hops independently (calculate_hops stops at the target      *)
(* distance, hop_match at the hop count), over candidate lists in which a  *)
(* position can occur twice (libdeflate's 3-byte table in front of the     *)
(* 4-byte chain) - the invariant says the counts still invert.             *)
(***************************************************************************)
EXTENDS Match, FiniteSets, TLC, Json, SequencesExt

CONSTANTS N, Alphabet,
          Asym        \* negative configuration: the reconstructor does not consult libdeflate's 3-byte table

\* parameter vectors (Params.tla order): strategy, huff, zlib_compatible, window_bits, hash, shift, mask,
\* max_token_count, max_dist_3, very_far, to_start, good, max_lazy, nice, max_chain, min_len, add_policy, limit
PV(zc, hash, far, tostart, good, lazy, nice, chain, d3, ap, lim) ==
  << 0, 0, zc, 9, hash, IF hash = 1 THEN 5 ELSE 0, IF hash = 1 THEN 32767 ELSE 0, 1023, d3, far, tostart, good, lazy, nice, chain,
     3, ap, lim >>
PV16(zc, hash, far, tostart, good, lazy, nice, chain, d3, ap, lim, minlen) ==
  [PV(zc, hash, far, tostart, good, lazy, nice, chain, d3, ap, lim) EXCEPT ![16] = minlen]
\* vectors inside the estimator's range (Params!InEstimatorRange): these are also replayed into the real matcher
InRangeSet == { PV(1, 1, 0, 0, 4, 4, 258, 4, 4096, 0, 0),        \* zlib, lazy, add all
                PV(1, 1, 0, 0, 0, 0, 258, 1, 4096, 0, 0),        \* greedy, one candidate
                PV(0, 1, 1, 1, 8, 16, 8, 2, 1, 0, 0),            \* far + to start, short nice length, 3-byte matches only near
                PV(1, 2, 0, 0, 0, 0, 258, 2, 4096, 1, 3),        \* miniz hash, add first only beyond 3
                PV(1, 3, 0, 1, 4, 4, 258, 3, 4096, 0, 0),        \* libdeflate: two tables
                PV16(1, 5, 0, 0, 4, 4, 258, 5, 4096, 2, 4, 4),   \* zlib-ng 4-byte hash, first and last
                PV(1, 6, 0, 0, 32, 258, 258, 2, 4096, 4, 0) }    \* random vector hash, always lazy
\* and some outside it, for the model only (a chain budget of 0 wraps to "unlimited")
ParamSet == InRangeSet \cup { PV(1, 1, 0, 0, 4, 5, 4, 0, 4096, 0, 0) }
PR == INSTANCE Params
ASSUME \A v \in InRangeSet : PR!InEstimatorRange(v)

VARIABLES plain, par, pos, H, chains, H3, chains3, pend, state
vars == <<plain, par, pos, H, chains, H3, chains3, pend, state>>
Dict == [H |-> H, chains |-> chains, H3 |-> H3, chains3 |-> chains3]
DictR == IF Asym THEN [H |-> H, chains |-> chains, H3 |-> H3, chains3 |-> EmptyChains(H3)] ELSE Dict   \* the reconstructor's

HashesOf(pl, p) == [q \in 1..(IF Len(pl) >= HashBytes(p) THEN Len(pl) - HashBytes(p) + 1 ELSE 0) |-> HashAt(pl, q - 1, p)]
Hashes3Of(pl, p) == IF HasSecondary(p) THEN [q \in 1..(IF Len(pl) >= 3 THEN Len(pl) - 2 ELSE 0) |-> LibdeflateHash3(pl, q - 1)] ELSE <<>>

Init == /\ plain \in UNION {[1..n -> Alphabet] : n \in 1..N}
        /\ par \in ParamSet
        /\ pos = 0 /\ pend = NoRef /\ state = "run"
        /\ H = HashesOf(plain, par) /\ chains = EmptyChains(H)
        /\ H3 = Hashes3Of(plain, par) /\ chains3 = EmptyChains(H3)

\* the tokens a valid stream may have at pos
Refs == {<<1, len, dist, 0>> : len \in 3..Mn(Len(plain) - pos, 258), dist \in 1..pos}
ValidRef(t) == Common(plain, pos, t[3], 0, t[2]) >= t[2]
Tokens == {<<0, plain[pos + 1], 0, 0>>} \cup {t \in Refs : ValidRef(t)}

TokLen(t) == IF t[1] = 0 THEN 1 ELSE t[2]
\* the analysis of a reference fails (Err: allowed) when no match can be corrected from, or
\* when the target is not on its chain within the limits
Fails(t, pr, ops) ==
  t[1] = 1 /\ (ops = <<>> \/ (ops[3][3] = 0 /\ (ops[3][2] = "DistAfterLenCorrection" \/
                                                  (IF pr.tok[1] = 1 THEN pr.tok[3] ELSE Repredict(plain, Dict, [pos |-> pos, pend |-> pend], par)[2]) # t[3])))
StepWith(t, st, pr, ops) ==
  IF Fails(t, pr, ops) THEN state' = "rejected" /\ UNCHANGED <<pos, chains, chains3, pend>>
  ELSE /\ state' = IF t[1] = 1 /\ Decoded(plain, DictR, st, par, ops,
                                          IF pr.tok[1] = 1 THEN <<pr.tok[2], pr.tok[3]>> ELSE Repredict(plain, Dict, st, par)) # <<t[2], t[3]>>
                   THEN "desync" ELSE IF pos + TokLen(t) = Len(plain) THEN "done" ELSE "run"
       /\ chains' = InsertAll(chains, H, Added(Len(plain), pos, TokLen(t), par), 1)
       /\ chains3' = IF HasSecondary(par) THEN InsertAll(chains3, H3, Added3(Len(plain), pos, TokLen(t), par), 1) ELSE chains3
       /\ pos' = pos + TokLen(t)
       /\ pend' = IF t[1] = 0 THEN pr.pend ELSE NoRef
Step == /\ state = "run"
        /\ \E t \in Tokens :
           \E st \in {[pos |-> pos, pend |-> pend]} :
           \E pr \in {Predict(plain, Dict, st, par)} :
              StepWith(t, st, pr, TokenOps(plain, Dict, st, par, t, pr))
        /\ UNCHANGED <<plain, par, H, H3>>
Next == Step
Spec == Init /\ [][Next]_vars

\* what the decoder rebuilds is what the analyser saw, token by token
Restored == state # "desync"
\* the predictor's own predictions are valid tokens (a predicted reference really matches)
PredictionValid ==
  state = "run" => LET pr == Predict(plain, Dict, [pos |-> pos, pend |-> pend], par)
                   IN pr.tok[1] = 1 => /\ pr.tok[3] \in 1..pos /\ pr.tok[2] \in 3..(Len(plain) - pos)
                                       /\ Common(plain, pos, pr.tok[3], 0, pr.tok[2]) >= pr.tok[2]
\* a pending match is always one that starts at the current position
PendingValid == (state = "run" /\ pend # NoRef) =>
                   /\ pend[2] \in 1..pos /\ pend[1] <= Len(plain) - pos
                   /\ Common(plain, pos, pend[2], 0, pend[1]) >= pend[1]
\* the parameter vectors, for the harness' exhaustive small-scope run of the real matcher (match-exhaustive)
Replay == (pos = 0 /\ Len(plain) = 1 /\ plain[1] = 97 /\ par = PV(1, 1, 0, 0, 4, 4, 258, 4, 4096, 0, 0)) =>
             PrintT(<<"REPLAY", ToJson([vecs |-> SetToSeq(InRangeSet)])>>)
\* vacuity probes (each must be violated): the model does reach rejections, corrected lengths,
\* distances several hops away, and wrongly predicted token kinds
ProbeRejected == state # "rejected"
ProbeDone == state # "done"
=============================================================================
