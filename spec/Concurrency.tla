---------------------------- MODULE Concurrency ----------------------------
(***************************************************************************)
(* Why concurrent use is safe: every call works on state it owns.          *)
(* Threads run calls split into K internal steps.  A call reads its input, *)
(* immutable tables, and its own scratch state; SharedCells is the set of  *)
(* mutable cells reachable from more than one call.  With SharedCells = {} *)
(* every result is F(input); with one shared cell (a cache a call writes   *)
(* its input to at step 1 and reads back at the last step) TLC finds the   *)
(* racy schedule - kept as a negative self-test of the model.              *)
(***************************************************************************)
EXTENDS Naturals, FiniteSets, TLC
CONSTANTS Threads, Inputs, K, SharedCells
VARIABLES pc, inp, scratch, shared, results
vars == <<pc, inp, scratch, shared, results>>
F(x) == x * 7 + 3            \* what a call computes; any pure function
Init == /\ pc = [t \in Threads |-> 0] /\ inp \in [Threads -> Inputs]
        /\ scratch = [t \in Threads |-> 0] /\ shared = 0 /\ results = [t \in Threads |-> 0 - 1]
Start(t) == /\ pc[t] = 0 /\ pc' = [pc EXCEPT ![t] = 1]
            /\ scratch' = [scratch EXCEPT ![t] = inp[t]]
            /\ shared' = IF SharedCells # {} THEN inp[t] ELSE shared
            /\ UNCHANGED <<inp, results>>
Work(t) == /\ pc[t] \in 1..(K - 1) /\ pc' = [pc EXCEPT ![t] = pc[t] + 1]
           /\ UNCHANGED <<inp, scratch, shared, results>>
Finish(t) == /\ pc[t] = K /\ pc' = [pc EXCEPT ![t] = K + 1]
             /\ results' = [results EXCEPT ![t] = F(IF SharedCells # {} THEN shared ELSE scratch[t])]
             /\ UNCHANGED <<inp, scratch, shared>>
Next == \E t \in Threads : Start(t) \/ Work(t) \/ Finish(t)
Spec == Init /\ [][Next]_vars
\* C14: every finished call returned what the sequential call returns
Deterministic == \A t \in Threads : pc[t] = K + 1 => results[t] = F(inp[t])
=============================================================================
