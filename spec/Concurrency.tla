---------------------------- MODULE Concurrency ----------------------------
(***************************************************************************)
(* Why every public function is a function of its arguments alone: every   *)
(* call works on state it owns and leaves nothing behind.                  *)
(* Threads run sequences of up to Calls calls, each split into K internal  *)
(* steps.  A call reads its input, immutable tables, and its own scratch   *)
(* state.  Two kinds of cell would break this and are the negative         *)
(* configurations of the model:                                            *)
(*  SharedCells # {}: a mutable cell reachable from more than one thread   *)
(*     (a cache a call writes its input to at step 1 and reads back at the *)
(*     last step): TLC finds the racy schedule;                            *)
(*  Retained # {}: a cell that survives the call in its thread (a          *)
(*     thread_local pool, a recycled object with a field that is not       *)
(*     reset): the first call of a thread leaves its input there and later *)
(*     calls of that thread read it - no second thread is needed, the      *)
(*     counterexample is a history of two calls.                           *)
(* With both empty every result is F(input), whatever ran before or runs   *)
(* at the same time.                                                       *)
(***************************************************************************)
EXTENDS Naturals, Sequences, FiniteSets, TLC
CONSTANTS Threads, Inputs, K, Calls, SharedCells, Retained
VARIABLES pc, inp, scratch, shared, kept, results
vars == <<pc, inp, scratch, shared, kept, results>>
F(x) == x * 7 + 3            \* what a call computes; any pure function
None == 0
Init == /\ pc = [t \in Threads |-> 0] /\ inp = [t \in Threads |-> None]
        /\ scratch = [t \in Threads |-> 0] /\ shared = 0 /\ kept = [t \in Threads |-> None]
        /\ results = [t \in Threads |-> <<>>]
\* the next call of thread t, on any input
Start(t) == /\ pc[t] = 0 /\ Len(results[t]) < Calls
            /\ \E x \in Inputs :
                 /\ inp' = [inp EXCEPT ![t] = x]
                 /\ scratch' = [scratch EXCEPT ![t] = x]
                 /\ shared' = IF SharedCells # {} THEN x ELSE shared
                 /\ kept' = IF Retained # {} /\ kept[t] = None THEN [kept EXCEPT ![t] = x] ELSE kept
            /\ pc' = [pc EXCEPT ![t] = 1]
            /\ UNCHANGED results
Work(t) == /\ pc[t] \in 1..(K - 1) /\ pc' = [pc EXCEPT ![t] = pc[t] + 1]
           /\ UNCHANGED <<inp, scratch, shared, kept, results>>
Finish(t) == /\ pc[t] = K /\ pc' = [pc EXCEPT ![t] = 0]
             /\ results' = [results EXCEPT ![t] = Append(@, <<inp[t],
                              F(IF SharedCells # {} THEN shared ELSE IF Retained # {} THEN kept[t] ELSE scratch[t])>>)]
             /\ UNCHANGED <<inp, scratch, shared, kept>>
Next == \E t \in Threads : Start(t) \/ Work(t) \/ Finish(t)
Spec == Init /\ [][Next]_vars
\* C14: every finished call returned what a call with no history and no company returns
Deterministic == \A t \in Threads : \A i \in 1..Len(results[t]) : results[t][i][2] = F(results[t][i][1])
=============================================================================
