-------------------------- MODULE Trace_Container --------------------------
(***************************************************************************)
(* Validates what expand_zlib_chunks did to one file: the scanner's chunk  *)
(* list (hook scan), where each chunk sits in the produced container and   *)
(* the header bytes found there, and the outcome of feeding the container  *)
(* to recreated_zlib_chunks.                                               *)
(*                                                                         *)
(*  Reset     run len clen version                                         *)
(*  Chunk     kind span plain_len corr_len csize sizes zh adler            *)
(*            at hdr1 hdr2 end                                             *)
(*  Recreate  result equal cend                                            *)
(*  ExpandErr / Panic: no transition (C01: expand must return Ok)          *)
(*                                                                         *)
(* Checked at every step: the chunks tile the file (every byte in exactly  *)
(* one chunk) and the container; literal and stream chunks alternate the   *)
(* way the scanner emits them; the header bytes are the ones Chunks.tla    *)
(* computes; thresholds; IDAT arithmetic; and at the end C01 itself.       *)
(***************************************************************************)
EXTENDS Chunks, TLC, Json, IOUtils

Rec == ndJsonDeserialize(IOEnv.TRACE)

VARIABLES l, base, fpos, cpos, last, phase
vars == <<l, base, fpos, cpos, last, phase>>

Init == l = 1 /\ base = 1 /\ fpos = 0 /\ cpos = 0 /\ last = "none" /\ phase = "idle"

IsEvent(e) == l <= Len(Rec) /\ Rec[l].e = e /\ l' = l + 1

Reset == /\ IsEvent("Reset") /\ phase = "idle"
         /\ Rec[l].version = WrapperVersion
         /\ base' = l /\ fpos' = 0 /\ cpos' = 1 /\ last' = "none" /\ phase' = "chunks"

ChunkOk(c) ==
  /\ c.at = cpos
  /\ c.hdr1 = Hdr1(c) /\ c.hdr2 = Hdr2(c)
  /\ c.end = cpos + ChunkBytes(c)
  /\ c.end <= Rec[base].clen
  /\ fpos + c.span <= Rec[base].len
  /\ IF c.kind = TagLiteral THEN
        \* a literal precedes every stream chunk; two literals never follow each other
        /\ last # "lit"
     ELSE IF c.kind = TagStream THEN
        /\ last = "lit"
        /\ c.span = c.csize /\ c.plain_len > MinBlockSize
     ELSE
        /\ c.kind = TagIdat /\ last = "lit"
        /\ Len(c.sizes) > 0 /\ NoZeroSizes(c.sizes)
        /\ c.span = IdatSpan(c.sizes) /\ c.span > MinBlockSize
        /\ SumSeq(c.sizes, 1) = c.csize + 6          \* zlib header + stream + adler32, nothing else
        /\ Len(c.zh) = 2 /\ Len(c.adler) = 4

ChunkEv == /\ IsEvent("Chunk") /\ phase = "chunks"
           /\ ChunkOk(Rec[l])
           /\ fpos' = fpos + Rec[l].span /\ cpos' = Rec[l].end
           /\ last' = IF Rec[l].kind = TagLiteral THEN "lit" ELSE "stream"
           /\ UNCHANGED <<base, phase>>

\* C01: every byte of the file is in exactly one chunk, the container is nothing but
\* its chunks, and recreating it gives back the file.  The trailing literal is
\* present exactly when bytes remain, so a file never ends in an empty literal.
RecreateEv == /\ IsEvent("Recreate") /\ phase = "chunks"
              /\ fpos = Rec[base].len
              /\ cpos = Rec[base].clen /\ Rec[l].cend = cpos
              /\ Rec[l].result = "ok" /\ Rec[l].equal
              /\ phase' = "idle"
              /\ UNCHANGED <<base, fpos, cpos, last>>

Next == Reset \/ ChunkEv \/ RecreateEv
Spec == Init /\ [][Next]_vars

Tiling == fpos <= Rec[base].len

Accepted ==
  LET d == TLCGet("stats").diameter IN
  IF d - 1 = Len(Rec) THEN TRUE
  ELSE /\ PrintT(<<"TRACE-REJECTED line", d, IF d <= Len(Rec) THEN ToJson([e |-> Rec[d].e]) ELSE "eof">>)
       /\ FALSE
=============================================================================
