--------------------------------- MODULE IO ---------------------------------
(***************************************************************************)
(* recreated_zlib_chunks (src/preflate_container.rs) run against an        *)
(* environment that fragments and fails I/O.                               *)
(*                                                                         *)
(* The reader machine, one action per I/O call:                            *)
(*   version      read_exact(1)                                            *)
(*   probe        ONE raw read(1): 0 bytes means end of container          *)
(*   varint       read_exact(1) per byte (the model's varints are 1 byte)  *)
(*   literal      loop: read_exact(min(BUF, left)) ; write_all(that)       *)
(*   stream/idat  read_exact(plain) ; varint ; read_exact(corr) ;          *)
(*                reconstruct ; write_all(output) (IDAT: several writes)   *)
(* read_exact / write_all are loops over raw calls: a short transfer       *)
(* continues, Interrupted retries, 0 bytes is an error (UnexpectedEof /    *)
(* WriteZero), any other error ends the call.  The probe is the one raw    *)
(* read: there Interrupted is not retried and surfaces as Err.             *)
(*                                                                         *)
(* Environment: every raw call returns k in 1..n bytes, or Interrupted, or *)
(* a hard error; a write may also return 0.  The source never claims end   *)
(* of data while data remains (that is a different file, not a fault).     *)
(***************************************************************************)
EXTENDS Naturals, Sequences, TLC

CONSTANTS Shapes,      \* set of containers; a container is a sequence of chunks
                       \* [kind |-> "lit"|"str", a |-> payload bytes, b |-> correction bytes, o |-> output bytes]
          BUF,         \* copy buffer of the literal loop (65536 in the code)
          MaxFaults    \* bound on Interrupted outcomes so that behaviours are finite

VARIABLES Container, \* the container being read (chosen initially, never changes)
          ci,        \* index of the chunk being processed
          phase,     \* what the reader is doing
          need,      \* bytes the current read_exact / write_all still has to transfer
          left,      \* literal bytes of the current chunk not yet read
          rpos,      \* bytes consumed from the source
          out,       \* bytes accepted by the destination, as <<chunk, offset>> pairs in order
          faults,    \* Interrupted outcomes delivered
          hard,      \* a hard error (or a zero write) was delivered
          result     \* "run" | "ok" | "err"
vars == <<ci, phase, need, left, rpos, out, faults, hard, result>>

RECURSIVE SumIn(_, _), SumOut(_, _)
ChunkIn(c) == 1 + 1 + c.a + (IF c.kind = "lit" THEN 0 ELSE 1 + c.b)
SumIn(cs, n) == IF n = 0 THEN 0 ELSE ChunkIn(cs[n]) + SumIn(cs, n - 1)
SumOut(cs, n) == IF n = 0 THEN 0 ELSE cs[n].o + SumOut(cs, n - 1)
TotalIn == 1 + SumIn(Container, Len(Container))
\* the file: output byte j of chunk i, for all chunks in order
Expected == LET Bytes(i) == [j \in 1..Container[i].o |-> <<i, j>>]
                RECURSIVE Cat(_)
                Cat(i) == IF i > Len(Container) THEN <<>> ELSE Bytes(i) \o Cat(i + 1)
            IN Cat(1)

Init == /\ Container \in Shapes
        /\ ci = 0 /\ phase = "version" /\ need = 1 /\ left = 0 /\ rpos = 0 /\ out = <<>>
        /\ faults = 0 /\ hard = FALSE /\ result = "run"

Fail == result' = "err" /\ phase' = "end"

\* ---- one raw read inside read_exact(need); then(n) says what happens once it is complete
ReadExact(next) ==
  /\ result = "run" /\ need > 0
  /\ \/ \E k \in 1..need :                         \* k bytes (short if k < need)
          /\ rpos + k <= TotalIn
          /\ rpos' = rpos + k
          /\ IF k = need THEN next ELSE need' = need - k /\ UNCHANGED <<ci, phase, left, out, result>>
          /\ UNCHANGED <<faults, hard>>
     \/ /\ faults < MaxFaults                      \* Interrupted: retried
        /\ faults' = faults + 1
        /\ UNCHANGED <<ci, phase, need, left, rpos, out, hard, result>>
     \/ /\ hard' = TRUE /\ Fail                    \* hard error
        /\ UNCHANGED <<ci, need, left, rpos, out, faults>>

ReadVersion ==
  /\ phase = "version"
  /\ ReadExact(/\ phase' = "probe" /\ need' = 0 /\ UNCHANGED <<ci, left, out, result>>)

\* the end-of-container probe: a single raw read of one byte
Probe ==
  /\ phase = "probe" /\ result = "run"
  /\ \/ /\ rpos = TotalIn                           \* 0 bytes: clean end
        /\ result' = "ok" /\ phase' = "end"
        /\ UNCHANGED <<ci, need, left, rpos, out, faults, hard>>
     \/ /\ rpos < TotalIn                           \* the tag of the next chunk
        /\ rpos' = rpos + 1 /\ ci' = ci + 1
        /\ phase' = "len" /\ need' = 1
        /\ UNCHANGED <<left, out, faults, hard, result>>
     \/ /\ faults < MaxFaults                       \* Interrupted is not retried here: Err
        /\ faults' = faults + 1 /\ Fail
        /\ UNCHANGED <<ci, need, left, rpos, out, hard>>
     \/ /\ hard' = TRUE /\ Fail
        /\ UNCHANGED <<ci, need, left, rpos, out, faults>>

Cur == Container[ci]

ReadLen ==
  /\ phase = "len"
  /\ ReadExact(IF Cur.kind = "lit"
               THEN /\ left' = Cur.a
                    /\ IF Cur.a = 0 THEN phase' = "probe" /\ need' = 0
                       ELSE phase' = "litread" /\ need' = IF Cur.a < BUF THEN Cur.a ELSE BUF
                    /\ UNCHANGED <<ci, out, result>>
               ELSE /\ phase' = IF Cur.a = 0 THEN "len2" ELSE "plain"
                    /\ need' = IF Cur.a = 0 THEN 1 ELSE Cur.a
                    /\ UNCHANGED <<ci, left, out, result>>)

\* literal copy loop: read a piece, write that piece
Piece == IF left < BUF THEN left ELSE BUF
LitRead ==
  /\ phase = "litread"
  /\ ReadExact(/\ phase' = "litwrite" /\ need' = Piece /\ UNCHANGED <<ci, left, out, result>>)

WriteAll(next) ==
  /\ result = "run" /\ need > 0
  /\ \/ \E k \in 1..need :
          /\ out' = out \o [j \in 1..k |-> <<ci, Len(SelectSeq(out, LAMBDA p : p[1] = ci)) + j>>]
          /\ IF k = need THEN next ELSE need' = need - k /\ UNCHANGED <<ci, phase, left, result>>
          /\ UNCHANGED <<rpos, faults, hard>>
     \/ /\ faults < MaxFaults
        /\ faults' = faults + 1
        /\ UNCHANGED <<ci, phase, need, left, rpos, out, hard, result>>
     \/ /\ hard' = TRUE /\ Fail                      \* hard error, or 0 bytes accepted (WriteZero)
        /\ UNCHANGED <<ci, need, left, rpos, out, faults>>

LitWrite ==
  /\ phase = "litwrite"
  /\ WriteAll(/\ left' = left - Piece
              /\ IF left - Piece = 0 THEN phase' = "probe" /\ need' = 0
                 ELSE phase' = "litread" /\ need' = IF left - Piece < BUF THEN left - Piece ELSE BUF
              /\ UNCHANGED <<ci, result>>)

ReadPlain ==
  /\ phase = "plain"
  /\ ReadExact(/\ phase' = "len2" /\ need' = 1 /\ UNCHANGED <<ci, left, out, result>>)
ReadLen2 ==
  /\ phase = "len2"
  /\ ReadExact(/\ IF Cur.b = 0 THEN phase' = "strwrite" /\ need' = Cur.o
                  ELSE phase' = "corr" /\ need' = Cur.b
               /\ UNCHANGED <<ci, left, out, result>>)
\* the chunk is reconstructed only after it was read completely, then written
ReadCorr ==
  /\ phase = "corr"
  /\ ReadExact(/\ phase' = "strwrite" /\ need' = Cur.o /\ UNCHANGED <<ci, left, out, result>>)
StrWrite ==
  /\ phase = "strwrite"
  /\ IF need = 0 THEN /\ phase' = "probe" /\ UNCHANGED <<ci, need, left, rpos, out, faults, hard, result>>
     ELSE WriteAll(/\ phase' = "probe" /\ need' = 0 /\ UNCHANGED <<ci, left, result>>)

Step == ReadVersion \/ Probe \/ ReadLen \/ LitRead \/ LitWrite \/ ReadPlain \/ ReadLen2 \/ ReadCorr \/ StrWrite
Next == Step /\ UNCHANGED Container
allvars == <<vars, Container>>
Spec == Init /\ [][Next]_allvars /\ WF_allvars(Next)

----------------------------------------------------------------------------
IsPrefixOf(s, t) == Len(s) <= Len(t) /\ \A i \in 1..Len(s) : s[i] = t[i]

\* C13: what was written is always a prefix of the original file
WrittenIsPrefix == IsPrefixOf(out, Expected)
\* Ok means complete and no fault went unnoticed
OkIsComplete == result = "ok" => (out = Expected /\ ~hard /\ rpos = TotalIn)
\* a delivered hard error surfaces
HardErrorSurfaces == (phase = "end" /\ hard) => result = "err"
\* without faults the call succeeds, however the transfers were fragmented
FragmentationIsHarmless == (phase = "end" /\ ~hard /\ faults = 0) => result = "ok"
\* no terminal state other than ok / err
Terminal == phase = "end" <=> result \in {"ok", "err"}
Terminates == <>(phase = "end")
=============================================================================
