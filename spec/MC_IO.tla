------------------------------- MODULE MC_IO -------------------------------
EXTENDS IO
Lit(n)       == [kind |-> "lit", a |-> n, b |-> 0, o |-> n]
Str(a, b, o) == [kind |-> "str", a |-> a, b |-> b, o |-> o]
\* containers of up to 3 chunks: empty, literals around the copy buffer size, a
\* stream chunk with and without corrections, mixtures
MCShapes == { <<>>, << Lit(0) >>, << Lit(1) >>, << Lit(3) >>, << Str(2, 1, 2) >>, << Str(0, 1, 0) >>,
              << Lit(2), Str(1, 1, 2) >>, << Lit(0), Str(2, 0, 1), Lit(3) >>,
              << Str(1, 1, 1), Lit(1), Str(1, 0, 2) >> }
MCShapesBig == MCShapes \cup { << Lit(5) >>, << Lit(4), Lit(1) >>, << Str(3, 2, 4), Lit(5), Str(2, 2, 3) >>,
                               << Lit(5), Str(3, 0, 5), Lit(4) >> }
=============================================================================
