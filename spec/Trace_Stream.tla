---------------------------- MODULE Trace_Stream ----------------------------
(***************************************************************************)
(* Validates the joint trace of one stream's analysis (encode side, E) and *)
(* reconstruction (decode side, D): hook analyse_trace / reconstruct_trace *)
(* with the predictor state log.                                           *)
(*                                                                         *)
(*  Reset  run lib params dparams plain_len eofpad blocks[..] ...          *)
(*  Seg    m eo dm do [ap rp]     one segment of operations between two    *)
(*                                verify-state markers, both sides         *)
(*  End    result rebuilt_equal blocks_equal                               *)
(*                                                                         *)
(* Checked: the header is Params!Write(params), lies in the estimator's    *)
(* range and reads back; every segment's operations are the ones the       *)
(* grammar of Stream.tla / TreePredict.tla demands for the parsed blocks;  *)
(* the decode side performs the same operations with the same values       *)
(* (mirror); before every token both predictors are at the same input      *)
(* position with the same pending state, no deferred match survives a      *)
(* block boundary, and a pending match can only stem from a lazily         *)
(* predicted literal; the reconstruction is bit exact (C02).               *)
(***************************************************************************)
EXTENDS Stream, Params, HuffCalc, SequencesExt, TLC, Json, IOUtils

D == INSTANCE Deflate

Rec == ndJsonDeserialize(IOEnv.TRACE)

VARIABLES l, base, bi, ti, pos, phase, lazyLit
vars == <<l, base, bi, ti, pos, phase, lazyLit>>

R0 == Rec[base]
NB == Len(R0.blocks)
B == R0.blocks[bi]
P == R0.params
MaxTok == P[8]
IsLast == bi = NB

Init == l = 1 /\ base = 1 /\ bi = 0 /\ ti = 0 /\ pos = 0 /\ phase = "idle" /\ lazyLit = FALSE

IsEvent(e) == l <= Len(Rec) /\ Rec[l].e = e /\ l' = l + 1
Mirror(ev) == ev.dm = ev.m /\ ev.do = ev.eo

Reset == /\ IsEvent("Reset") /\ phase = "idle"
         /\ base' = l /\ bi' = 0 /\ ti' = 0 /\ pos' = 0 /\ lazyLit' = FALSE
         /\ phase' = IF Rec[l].lib = "ok" THEN "hdr" ELSE "rejected"
Rejected == IsEvent("Rejected") /\ phase = "rejected" /\ phase' = "idle" /\ UNCHANGED <<base, bi, ti, pos, lazyLit>>

HdrOps(p) == [i \in 1..Len(Write(p)) |-> Vl(Write(p)[i][2], Write(p)[i][3])]
\* C08: the header is the fixed-width serialisation of the parameters, fits, reads back
HdrEv == /\ IsEvent("Seg") /\ phase = "hdr" /\ Rec[l].m = "hdr" /\ Mirror(Rec[l])
         /\ InEstimatorRange(P) /\ Fits(P) /\ RoundTrips(P)
         /\ R0.dparams = Normal(P)
         /\ Rec[l].eo = HdrOps(P) \o (IF R0.plain_len = 0 /\ NB > 0 THEN << M("EOFMisprediction", TRUE) >> ELSE <<>>)
         /\ NB > 0
         /\ phase' = "block" /\ bi' = 1 /\ UNCHANGED <<base, ti, pos, lazyLit>>

TrailerNow(p) == Trailer(IsLast, p = R0.plain_len, R0.eofpad)

\* "blocktypestart": block type, then either the whole stored block or the token count
BlockEv == /\ IsEvent("Seg") /\ phase = "block" /\ Rec[l].m = "blocktypestart" /\ Mirror(Rec[l])
           /\ IF B.type = 0
              THEN /\ Rec[l].eo = BlockStartOps(B, IsLast, MaxTok) \o TrailerNow(pos + B.slen)
                   /\ pos' = pos + B.slen
                   /\ IF IsLast THEN phase' = "end" /\ bi' = bi ELSE phase' = "block" /\ bi' = bi + 1
              ELSE /\ Rec[l].eo = BlockStartOps(B, IsLast, MaxTok)
                   /\ phase' = "start" /\ UNCHANGED <<bi, pos>>
           /\ ti' = 0 /\ lazyLit' = FALSE /\ UNCHANGED base

StartEv == /\ IsEvent("Seg") /\ phase = "start" /\ Rec[l].m = "start" /\ Mirror(Rec[l]) /\ Rec[l].eo = <<>>
           /\ phase' = (IF B.ntok = 0 THEN "done" ELSE "tokens")
           /\ UNCHANGED <<base, bi, ti, pos, lazyLit>>

\* predictor state <<pos, pending, token index>> before the prediction, both sides
StateOk(ev) ==
  /\ ev.ap = ev.rp                                        \* mirror images
  /\ ev.ap[1] = pos /\ ev.ap[3] = ti
  /\ ev.ap[2] \in {0, 1}
  /\ (ti = 0 => ev.ap[2] = 0)                             \* nothing pending at a block start
  /\ (ev.ap[2] = 1 => (lazyLit /\ P[3] = 1 /\ P[13] > 0)) \* only from a lazily predicted literal
TokenEv == /\ IsEvent("Seg") /\ phase = "tokens" /\ Rec[l].m = "token" /\ Mirror(Rec[l])
           /\ StateOk(Rec[l])
           /\ TokenOpsOk(B.toks[ti + 1], Rec[l].eo)
           /\ pos' = pos + TokLenT(B.toks[ti + 1]) /\ pos + TokLenT(B.toks[ti + 1]) <= R0.plain_len
           /\ ti' = ti + 1
           /\ lazyLit' = (Rec[l].eo = << M("LiteralPredictionWrong", FALSE) >>)
           /\ phase' = IF ti + 1 = B.ntok THEN "done" ELSE "tokens"
           /\ UNCHANGED <<base, bi>>

DoneEv == /\ IsEvent("Seg") /\ phase = "done" /\ Rec[l].m = "done" /\ Mirror(Rec[l])
          /\ IF B.type = 2 THEN Rec[l].eo = <<>> /\ phase' = "tree" /\ UNCHANGED bi
             ELSE /\ Rec[l].eo = TrailerNow(pos)
                  /\ IF IsLast THEN phase' = "end" /\ bi' = bi ELSE phase' = "block" /\ bi' = bi + 1
          /\ UNCHANGED <<base, ti, pos, lazyLit>>

\* the symbol frequencies of a dynamic block (end of block counted once; length 258 is counted
\* as symbol 285 whichever way it was spelled) and of its header's run-length items
LitSymOf(t) == IF t[1] = 0 THEN t[2] ELSE 256 + D!LenIdx(t[2])
LitFreq(toks) == FoldLeft(LAMBDA acc, t : [acc EXCEPT ![LitSymOf(t) + 1] = @ + 1],
                          [i \in 1..286 |-> IF i = 257 THEN 1 ELSE 0], toks)
DistFreq(toks) == FoldLeft(LAMBDA acc, t : IF t[1] = 0 THEN acc ELSE [acc EXCEPT ![D!DistIdx(t[3])] = @ + 1],
                           [i \in 1..30 |-> 0], toks)
TcFreq(items) == FoldLeft(LAMBDA acc, it : [acc EXCEPT ![(IF it[1] = 0 THEN it[2] ELSE it[1]) + 1] = @ + 1],
                          [i \in 1..19 |-> 0], items)
\* the predicted code lengths the corrections are relative to are the ones HuffCalc.tla computes
PredictedLens(b) == /\ b.pl = HuffLens(LitFreq(b.toks), 15)
                    /\ b.pd = HuffLens(DistFreq(b.toks), 15)
                    /\ b.ptc = HuffLens(TcFreq(b.items), 7)

TreeEv == /\ IsEvent("Seg") /\ phase = "tree" /\ Rec[l].m = "tree" /\ Mirror(Rec[l])
          /\ PredictedLens(B)
          /\ Rec[l].eo = TreeOps(B) \o TrailerNow(pos)
          /\ IF IsLast THEN phase' = "end" /\ bi' = bi ELSE phase' = "block" /\ bi' = bi + 1
          /\ UNCHANGED <<base, ti, pos, lazyLit>>

\* C02: reconstruction from plaintext and corrections alone is bit exact
EndEv == /\ IsEvent("End") /\ phase = "end"
         /\ pos = R0.plain_len
         /\ Rec[l].result = "ok" /\ Rec[l].rebuilt_equal /\ Rec[l].blocks_equal
         /\ Rec[l].na = Rec[l].nr
         /\ phase' = "idle" /\ UNCHANGED <<base, bi, ti, pos, lazyLit>>

Next == Reset \/ Rejected \/ HdrEv \/ BlockEv \/ StartEv \/ TokenEv \/ DoneEv \/ TreeEv \/ EndEv
Spec == Init /\ [][Next]_vars

PosInRange == phase \in {"idle", "rejected"} \/ pos <= R0.plain_len

Accepted ==
  LET d == TLCGet("stats").diameter IN
  IF d - 1 = Len(Rec) THEN TRUE
  ELSE /\ PrintT(<<"TRACE-REJECTED line", d, IF d <= Len(Rec) THEN ToJson([e |-> Rec[d].e]) ELSE "eof">>)
       /\ FALSE
=============================================================================
