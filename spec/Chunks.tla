------------------------------- MODULE Chunks -------------------------------
(***************************************************************************)
(* The container format of src/preflate_container.rs and the IDAT          *)
(* descriptor of src/idat_parse.rs, at byte level.                         *)
(*                                                                         *)
(*   container := version(1) chunk*                                        *)
(*   chunk     := 0 varint(n) byte^n                          literal      *)
(*              | 1 varint(p) byte^p varint(c) byte^c         stream       *)
(*              | 2 desc varint(p) byte^p varint(c) byte^c    PNG IDAT     *)
(*   desc      := varint(size)+ 0 zlibhdr(2) adler32(4, big endian)        *)
(*   varint    := 7 bits per byte, least significant group first, high bit *)
(*                set on all but the last byte                             *)
(*                                                                         *)
(* A chunk size of 0 inside desc would read back as the terminator: the    *)
(* writer must never be handed one (see NoZeroSizes).                      *)
(***************************************************************************)
EXTENDS Naturals, Sequences

WrapperVersion == 1
TagLiteral == 0
TagStream  == 1
TagIdat    == 2
MinBlockSize == 1024         \* a probed stream is expanded only above this size

RECURSIVE Varint(_)
Varint(v) == IF v < 128 THEN <<v>> ELSE <<128 + (v % 128)>> \o Varint(v \div 128)

\* decoding from position p (1-based) of a byte sequence: [ok, v, p]
RECURSIVE ReadVarintFrom(_, _, _, _)
ReadVarintFrom(bs, p, shift, acc) ==
  IF p > Len(bs) THEN [ok |-> FALSE, v |-> 0, p |-> p]
  ELSE IF bs[p] < 128 THEN [ok |-> TRUE, v |-> acc + bs[p] * shift, p |-> p + 1]
  ELSE ReadVarintFrom(bs, p + 1, shift * 128, acc + (bs[p] - 128) * shift)
ReadVarint(bs, p) == ReadVarintFrom(bs, p, 1, 0)

RECURSIVE FlatV(_, _)
FlatV(sizes, i) == IF i > Len(sizes) THEN <<>> ELSE Varint(sizes[i]) \o FlatV(sizes, i + 1)

RECURSIVE SumSeq(_, _)
SumSeq(s, i) == IF i > Len(s) THEN 0 ELSE s[i] + SumSeq(s, i + 1)

\* descriptor of an IDAT run: sizes, terminator, zlib header, adler32 (4 bytes, big endian)
IdatDesc(sizes, zh, adler) == FlatV(sizes, 1) \o <<0>> \o zh \o adler
NoZeroSizes(sizes) == \A i \in 1..Len(sizes) : sizes[i] > 0

\* reading a descriptor back: sizes up to the first 0
RECURSIVE ReadSizes(_, _, _)
ReadSizesStep(bs, r, acc) ==
  IF ~r.ok THEN [ok |-> FALSE, sizes |-> acc, p |-> r.p]
  ELSE IF r.v = 0 THEN [ok |-> TRUE, sizes |-> acc, p |-> r.p]
  ELSE ReadSizes(bs, r.p, Append(acc, r.v))
ReadSizes(bs, p, acc) == ReadSizesStep(bs, ReadVarint(bs, p), acc)

\* everything of a chunk that precedes its first payload, and what sits between
\* plaintext and corrections
Hdr1(c) ==
  IF c.kind = TagLiteral THEN <<TagLiteral>> \o Varint(c.span)
  ELSE IF c.kind = TagStream THEN <<TagStream>> \o Varint(c.plain_len)
  ELSE <<TagIdat>> \o IdatDesc(c.sizes, c.zh, c.adler) \o Varint(c.plain_len)
Hdr2(c) == IF c.kind = TagLiteral THEN <<>> ELSE Varint(c.corr_len)
ChunkBytes(c) ==
  IF c.kind = TagLiteral THEN Len(Hdr1(c)) + c.span
  ELSE Len(Hdr1(c)) + c.plain_len + Len(Hdr2(c)) + c.corr_len

\* bytes of the original file an IDAT chunk stands for: every PNG chunk carries
\* 4 length bytes, the type, and a CRC
IdatSpan(sizes) == SumSeq(sizes, 1) + 12 * Len(sizes)
=============================================================================
