------------------------------ MODULE MC_Zstd ------------------------------
(***************************************************************************)
(* Bounded model of the zstd wrapper pair over abstract files (sizes) and  *)
(* capacities, with the decoder of a frame modelled as zstd::bulk does it  *)
(* (decompress into a buffer of `cap` bytes, error if the content does not *)
(* fit).  Checks that the wrapper's verdict satisfies Zstd!Demand.         *)
(***************************************************************************)
EXTENDS Zstd, TLC
CONSTANT MaxSize
VARIABLES size, frame, cap, result, equal, phase
vars == <<size, frame, cap, result, equal, phase>>

Caps(s) == {0, 1, s + 1, s + 1000} \cup (IF s > 0 THEN {s - 1, s} ELSE {s})
Init == /\ size \in 1..MaxSize /\ frame \in FrameClasses /\ cap \in Caps(size)
        /\ result = "none" /\ equal = FALSE /\ phase = "call"

\* zstd::bulk::decompress(input, cap): Ok(content) iff well-formed and content size <= cap
Unframe == IF frame \in {"valid"} THEN (IF size <= cap THEN "content" ELSE "too-big")
           ELSE IF frame = "bitflip" THEN "other-or-error"
           ELSE IF frame = "trailing-bytes" THEN "content-or-error"
           ELSE "not-a-frame"

Call == /\ phase = "call"
        /\ \/ /\ Unframe = "content" /\ result' = "ok" /\ equal' = TRUE        \* recreate(expand(F)) = F  (C01)
           \/ /\ Unframe \in {"too-big", "not-a-frame"} /\ result' = "err" /\ equal' = FALSE
           \/ /\ Unframe = "other-or-error" /\ result' \in {"ok", "err", "panic"} /\ equal' = FALSE
           \/ /\ Unframe = "content-or-error"
              /\ \/ (result' = "ok" /\ equal' = TRUE /\ size <= cap)
                 \/ (result' = "err" /\ equal' = FALSE)
        /\ phase' = "done" /\ UNCHANGED <<size, frame, cap>>
Next == Call
Spec == Init /\ [][Next]_vars
Meets == phase = "done" => Satisfies(Demand(frame, cap, size), result, equal)
=============================================================================
