---------------------------- MODULE DeflateParse ----------------------------
(***************************************************************************)
(* The DEFLATE reader as a state machine over an input bit string: one     *)
(* action per grammar production of RFC 1951 and one outcome per way it    *)
(* can fail.  Terminal states are Accept and Reject(reason); there is no   *)
(* other way out (C05 at the level of the grammar).  The verdicts are the  *)
(* ones of zlib's inflate (raw mode); where the library under test is      *)
(* known to be more lenient the reason is listed in Lenient.               *)
(*                                                                         *)
(* Input: bits, a sequence of 0/1 whose length is a multiple of 8 (the     *)
(* input is a byte string; end of input can only fall on a byte boundary). *)
(***************************************************************************)
EXTENDS Deflate, TLC

VARIABLES bits,     \* the input (chosen initially, never changes)
          pos,      \* bits consumed
          phase,    \* "header" | "stored" | "dyncounts" | "dyncl" | "dynitems" | "dyncheck" | "tokens" | "done"
          final,    \* BFINAL of the current block
          btype,    \* BTYPE of the current block
          hdr,      \* dynamic header being read: [hlit, hdist, hclen, cl, items, lens]
          ll, dl,   \* code lengths in force (functions from symbols)
          lk, dk,   \* their canonical codes (computed once per block)
          toks,     \* tokens of the current block
          blocks,   \* finished blocks
          outlen,   \* plaintext bytes produced
          verdict   \* "" | "accept" | "reject"
          , reason, pad
pvars == <<bits, pos, phase, final, btype, hdr, ll, dl, lk, dk, toks, blocks, outlen, verdict, reason, pad>>

NBits == Len(bits)
Avail(n) == pos + n <= NBits
\* n bits from position p as a number, least significant bit first / most significant first
RECURSIVE LsbAt(_, _), MsbAt(_, _)
LsbAt(p, n) == IF n = 0 THEN 0 ELSE bits[p + 1] + 2 * LsbAt(p + 1, n - 1)
MsbAt(p, n) == IF n = 0 THEN 0 ELSE bits[p + n] + 2 * MsbAt(p, n - 1)

\* symbols of a code (lengths L, canonical codes K) that match the input at pos
Matching(L, K) == {s \in DOMAIN L : L[s] > 0 /\ Avail(L[s]) /\ MsbAt(pos, L[s]) = K[s]}
\* the longest code length of L that is still available in the input
CouldStillMatch(L) == \E s \in DOMAIN L : L[s] > 0 /\ ~Avail(L[s])

EmptyHdr == [hlit |-> 0, hdist |-> 0, hclen |-> 0, cl |-> <<>>, items |-> <<>>, lens |-> <<>>]

ParseInit(input) ==
  /\ bits = input /\ pos = 0 /\ phase = "header" /\ final = 0 /\ btype = 0 /\ hdr = EmptyHdr
  /\ ll = <<>> /\ dl = <<>> /\ lk = <<>> /\ dk = <<>> /\ toks = <<>> /\ blocks = <<>> /\ outlen = 0
  /\ verdict = "" /\ reason = "" /\ pad = 0

Reject(r) == /\ verdict' = "reject" /\ reason' = r /\ phase' = "done"
             /\ UNCHANGED <<bits, pos, final, btype, hdr, ll, dl, lk, dk, toks, blocks, outlen, pad>>

\* ---- 3.2.3: block header
BlockHeader ==
  /\ phase = "header"
  /\ IF ~Avail(3) THEN Reject("truncated")
     ELSE IF LsbAt(pos + 1, 2) = 3 THEN Reject("block-type")
     ELSE /\ final' = LsbAt(pos, 1) /\ btype' = LsbAt(pos + 1, 2) /\ pos' = pos + 3
          /\ phase' = (IF LsbAt(pos + 1, 2) = 0 THEN "stored" ELSE IF LsbAt(pos + 1, 2) = 1 THEN "tokens" ELSE "dyncounts")
          /\ ll' = (IF LsbAt(pos + 1, 2) = 1 THEN FixedLitLens ELSE ll)
          /\ dl' = (IF LsbAt(pos + 1, 2) = 1 THEN FixedDistLens ELSE dl)
          /\ lk' = (IF LsbAt(pos + 1, 2) = 1 THEN Canon(FixedLitLens) ELSE lk)
          /\ dk' = (IF LsbAt(pos + 1, 2) = 1 THEN Canon(FixedDistLens) ELSE dk)
          /\ toks' = <<>> /\ hdr' = EmptyHdr
          /\ UNCHANGED <<bits, blocks, outlen, verdict, reason, pad>>

EndBlock(blk, newpos) ==
  /\ blocks' = Append(blocks, blk)
  /\ IF final = 1
     THEN /\ verdict' = "accept" /\ phase' = "done" /\ reason' = ""
          /\ pad' = LsbAt(newpos, (8 - (newpos % 8)) % 8)           \* padding bits of the last byte
          /\ pos' = newpos + ((8 - (newpos % 8)) % 8)
     ELSE /\ phase' = "header" /\ pos' = newpos /\ UNCHANGED <<verdict, reason, pad>>

\* ---- 3.2.4: stored block
Stored ==
  /\ phase = "stored"
  /\ LET padbits == (8 - (pos % 8)) % 8
         p == pos + padbits
     IN IF p + 32 > NBits THEN Reject("truncated")
        ELSE IF LsbAt(p, 16) + LsbAt(p + 16, 16) # 65535 THEN Reject("len-nlen")
        ELSE IF p + 32 + 8 * LsbAt(p, 16) > NBits THEN Reject("truncated")
        ELSE /\ EndBlock([type |-> 0, final |-> final, pad |-> LsbAt(pos, padbits),
                          slen |-> LsbAt(p, 16), toks |-> <<>>, hdr |-> EmptyHdr,
                          data |-> [i \in 1..LsbAt(p, 16) |-> LsbAt(p + 32 + 8 * (i - 1), 8)]],
                         p + 32 + 8 * LsbAt(p, 16))
             /\ outlen' = outlen + LsbAt(p, 16)
             /\ UNCHANGED <<bits, final, btype, hdr, ll, dl, lk, dk, toks>>

\* ---- 3.2.7: dynamic header
DynCounts ==
  /\ phase = "dyncounts"
  /\ IF ~Avail(14) THEN Reject("truncated")
     ELSE IF LsbAt(pos, 5) + 257 > 286 \/ LsbAt(pos + 5, 5) + 1 > 30 THEN Reject("too-many-symbols")
     ELSE /\ hdr' = [hdr EXCEPT !.hlit = LsbAt(pos, 5) + 257, !.hdist = LsbAt(pos + 5, 5) + 1,
                                !.hclen = LsbAt(pos + 10, 4) + 4]
          /\ pos' = pos + 14 /\ phase' = "dyncl"
          /\ UNCHANGED <<bits, final, btype, ll, dl, lk, dk, toks, blocks, outlen, verdict, reason, pad>>

ClFrom(p, n) == [s \in 0..18 |-> IF \E k \in 1..n : ClOrder[k] = s
                                THEN LsbAt(p + 3 * ((CHOOSE k \in 1..n : ClOrder[k] = s) - 1), 3) ELSE 0]
DynClLens ==
  /\ phase = "dyncl"
  /\ IF ~Avail(3 * hdr.hclen) THEN Reject("truncated")
     ELSE IF ~Complete(ClFrom(pos, hdr.hclen)) THEN Reject("cl-incomplete")
     ELSE /\ hdr' = [hdr EXCEPT !.cl = ClFrom(pos, hdr.hclen)]
          /\ pos' = pos + 3 * hdr.hclen /\ phase' = "dynitems"
          /\ UNCHANGED <<bits, final, btype, ll, dl, lk, dk, toks, blocks, outlen, verdict, reason, pad>>

\* one run-length item: an explicit length, or a repeat with its extra bits
DynItem ==
  /\ phase = "dynitems" /\ Len(hdr.lens) < hdr.hlit + hdr.hdist
  /\ LET K == Canon(hdr.cl)
         M == Matching(hdr.cl, K)
     IN IF M = {} THEN Reject(IF CouldStillMatch(hdr.cl) THEN "truncated" ELSE "invalid-code")
        ELSE LET s == CHOOSE x \in M : TRUE
                 p == pos + hdr.cl[s]
                 xb == ItemExtraBits(s)
             IN IF p + xb > NBits THEN Reject("truncated")
                ELSE LET x == LsbAt(p, xb)
                         n == ItemCount(<<s, x>>)
                     IN IF s = 16 /\ hdr.lens = <<>> THEN Reject("repeat-no-prev")
                        ELSE IF Len(hdr.lens) + n > hdr.hlit + hdr.hdist THEN Reject("overrun")
                        ELSE /\ hdr' = [hdr EXCEPT !.items = Append(@, <<s, x>>),
                                          !.lens = @ \o [j \in 1..n |-> IF s <= 15 THEN s
                                                                        ELSE IF s = 16 THEN hdr.lens[Len(hdr.lens)] ELSE 0]]
                             /\ pos' = p + xb
                             /\ UNCHANGED <<bits, phase, final, btype, ll, dl, lk, dk, toks, blocks, outlen, verdict, reason, pad>>

DynCheck ==
  /\ phase = "dynitems" /\ Len(hdr.lens) = hdr.hlit + hdr.hdist
  /\ LET L == LitPart(hdr.lens, hdr.hlit)
         D == DistPart(hdr.lens, hdr.hlit, hdr.hdist)
     IN IF L[256] = 0 THEN Reject("no-eob")
        ELSE IF OverSubscribed(L) \/ ~ZlibAccepts(L) THEN Reject("lit-code")
        ELSE IF OverSubscribed(D) \/ ~(ZlibAccepts(D) \/ UsedCount(D) = 0) THEN Reject("dist-code")
        ELSE /\ ll' = L /\ dl' = D /\ lk' = Canon(L) /\ dk' = Canon(D) /\ phase' = "tokens"
             /\ UNCHANGED <<bits, pos, final, btype, hdr, toks, blocks, outlen, verdict, reason, pad>>

\* ---- 3.2.5: one literal, length/distance pair, or end of block
Token ==
  /\ phase = "tokens"
  /\ LET K == lk
         M == Matching(ll, K)
     IN IF M = {} THEN Reject(IF CouldStillMatch(ll) THEN "truncated" ELSE "invalid-code")
        ELSE LET s == CHOOSE x \in M : TRUE
                 p == pos + ll[s]
             IN IF s < 256 THEN
                   /\ toks' = Append(toks, Lit(s)) /\ pos' = p /\ outlen' = outlen + 1
                   /\ UNCHANGED <<bits, phase, final, btype, hdr, ll, dl, lk, dk, blocks, verdict, reason, pad>>
                ELSE IF s = 256 THEN
                   /\ EndBlock([type |-> btype, final |-> final, pad |-> 0, slen |-> 0, toks |-> toks, hdr |-> hdr, data |-> <<>>], p)
                   /\ UNCHANGED <<bits, final, btype, hdr, ll, dl, lk, dk, toks, outlen>>
                ELSE IF s > 285 THEN Reject("len-symbol")
                ELSE LET li == s - 256
                         xb == LenExtra[li]
                     IN IF p + xb > NBits THEN Reject("truncated")
                        ELSE LET len == LenBase[li] + LsbAt(p, xb)
                                 p2 == p + xb
                                 KD == dk
                                 MD == {d \in DOMAIN dl : dl[d] > 0 /\ p2 + dl[d] <= NBits /\ MsbAt(p2, dl[d]) = KD[d]}
                             IN IF MD = {} THEN
                                   Reject(IF \E d \in DOMAIN dl : dl[d] > 0 /\ p2 + dl[d] > NBits THEN "truncated" ELSE "invalid-code")
                                ELSE LET ds == CHOOSE d \in MD : TRUE
                                         p3 == p2 + dl[ds]
                                     IN IF ds > 29 THEN Reject("dist-symbol")
                                        ELSE IF p3 + DistExtra[ds + 1] > NBits THEN Reject("truncated")
                                        ELSE LET dist == DistBase[ds + 1] + LsbAt(p3, DistExtra[ds + 1])
                                             IN IF dist > outlen THEN Reject("too-far")
                                                ELSE /\ toks' = Append(toks, Ref(len, dist, s = 284 /\ len = 258))
                                                     /\ pos' = p3 + DistExtra[ds + 1]
                                                     /\ outlen' = outlen + len
                                                     /\ UNCHANGED <<bits, phase, final, btype, hdr, ll, dl, lk, dk, blocks, verdict, reason, pad>>

ParseNext == BlockHeader \/ Stored \/ DynCounts \/ DynClLens \/ DynItem \/ DynCheck \/ Token

\* where the library under test is known to accept what RFC 1951 / zlib reject
Lenient == {"repeat-no-prev", "too-many-symbols", "no-eob"}
\* where it is stricter (valid for zlib, refused by the library): incomplete literal or
\* distance codes that zlib tolerates

\* re-serialisation of what was parsed (C07 at the level of the model): the fields of all
\* blocks from bit position p on, then the padding of the last byte
RECURSIVE Reserialise(_, _, _)
BlockFieldsAt(b, p) ==
  HeaderFields(b.final, b.type) \o
  (IF b.type = 0 THEN << F(b.pad, (8 - ((p + 3) % 8)) % 8), F(b.slen, 16), F(65535 - b.slen, 16) >>
                       \o [i \in 1..b.slen |-> F(b.data[i], 8)]
   ELSE IF b.type = 1 THEN BlockBody(b.toks, Canon(FixedLitLens), FixedLitLens, Canon(FixedDistLens), FixedDistLens)
   ELSE DynFields(b.hdr.hlit, b.hdr.hdist, b.hdr.hclen, b.hdr.cl, Canon(b.hdr.cl), b.hdr.items)
        \o BlockBody(b.toks, Canon(LitPart(b.hdr.lens, b.hdr.hlit)), LitPart(b.hdr.lens, b.hdr.hlit),
                      Canon(DistPart(b.hdr.lens, b.hdr.hlit, b.hdr.hdist)), DistPart(b.hdr.lens, b.hdr.hlit, b.hdr.hdist)))
ReserialiseStep(bs, i, p, fs) == fs \o Reserialise(bs, i + 1, p + BitLen(fs))
Reserialise(bs, i, p) == IF i > Len(bs) THEN << F(pad, (8 - (p % 8)) % 8) >> ELSE ReserialiseStep(bs, i, p, BlockFieldsAt(bs[i], p))
=============================================================================
