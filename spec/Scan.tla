-------------------------------- MODULE Scan --------------------------------
(***************************************************************************)
(* The container scanner (src/scan_deflate.rs split_into_deflate_streams)  *)
(* over an *abstract file*: a sequence of segments.  The scanner keeps two *)
(* cursors, index (where it looks for the next signature) and prev_index   *)
(* (start of the bytes not yet assigned to a chunk).  A probe that accepts *)
(* emits a literal chunk for the pending bytes up to the start of the      *)
(* stream and a stream chunk, and moves both cursors behind the stream; a  *)
(* probe that fails advances index by one byte and leaves the bytes to the *)
(* pending literal.  What is left at the end becomes a last literal.       *)
(*                                                                         *)
(* Segment classes (sizes are model sizes; the harness builds real bytes   *)
(* with real sizes and only the structure is compared):                    *)
(*   junk(n)            no byte that starts a signature                    *)
(*   fake(k, why)       a signature whose probe fails for a stated reason  *)
(*   wrap(k, big)       a supported wrapper around a stream the library    *)
(*                      accepts stand-alone; big: plaintext > 1024 bytes   *)
(*                      (and, for IDAT, chunks totalling > 1024 bytes)     *)
(* k \in {zlib, gzip, zip, idat}.  An IDAT signature is found at the "ID"  *)
(* of the chunk type, 4 bytes into the chunk, and is only probed if at     *)
(* least 4 bytes precede it.                                               *)
(***************************************************************************)
EXTENDS Naturals, Sequences, FiniteSets, TLC, Json

CONSTANTS MaxSeg,     \* segments per file
          Emit        \* print finished behaviours as replay cases

Kinds == {"zlib", "gzip", "zip", "idat"}
FakeWhy == [zlib |-> {"block"}, gzip |-> {"method", "fextra-past-eof", "name-past-eof", "comment-past-eof", "block"},
            zip |-> {"signature", "method", "extra-past-eof", "block", "bare"},
            idat |-> {"crc", "short", "nolength", "truncated"}]

Junk(n)      == [c |-> "junk", k |-> "none", why |-> "none", big |-> FALSE, n |-> n]
Fake(k, why) == [c |-> "fake", k |-> k, why |-> why, big |-> FALSE, n |-> 0]
Wrap(k, big) == [c |-> "wrap", k |-> k, why |-> "none", big |-> big, n |-> 0]
\* a zlib stream whose last 4 bytes are at the same time the length field of a single
\* IDAT chunk that follows without a gap: the 4-byte look-back of the IDAT probe would
\* reach into the stream that was just handed out
Overlap      == [c |-> "overlap", k |-> "idat", why |-> "none", big |-> TRUE, n |-> 0]

SegClasses ==
       {Junk(n) : n \in {1, 3, 4, 5}}
  \cup UNION {{Fake(k, w) : w \in FakeWhy[k]} : k \in Kinds}
  \cup {Wrap(k, b) : k \in Kinds, b \in BOOLEAN}
  \cup {Overlap}

\* model sizes: header before the stream, the stream, trailer after it
HdrLen(s)    == IF s.k = "zlib" THEN 2 ELSE IF s.k = "gzip" THEN 10 ELSE IF s.k = "zip" THEN 30 ELSE 0
StreamLen(s) == IF s.k = "idat" THEN 40 ELSE 20        \* for IDAT: the whole chunk run
TrailLen(s)  == IF s.k = "zlib" THEN 4 ELSE IF s.k = "gzip" THEN 8 ELSE 0
SegLen(s) == IF s.c = "junk" THEN s.n
             ELSE IF s.c = "fake" THEN (IF s.k = "idat" /\ s.why = "nolength" THEN 4 ELSE 12)
             ELSE IF s.c = "overlap" THEN 56
             ELSE HdrLen(s) + StreamLen(s) + TrailLen(s)

(***************************************************************************)
(* Signature sites of a segment: where a two-byte signature sits (off),    *)
(* which probe it triggers (sig), whether the probe accepts when run       *)
(* (acc), and which bytes of the segment [from, to) the accepted stream    *)
(* chunk stands for, with its chunk kind.                                  *)
(*  - an IDAT signature is the "ID" of the chunk type, 4 bytes into the    *)
(*    chunk; the chunk run it announces starts 4 bytes earlier;            *)
(*  - the payload of an IDAT run starts with a zlib header, which is a     *)
(*    signature of its own.  It is only reached when the IDAT probe did    *)
(*    not accept, and is modelled where its outcome is determined.         *)
(***************************************************************************)
Site(off, sig, acc, from, to, kind) ==
  [off |-> off, sig |-> sig, acc |-> acc, from |-> from, to |-> to, kind |-> kind]
Sites(s) ==
  IF s.c = "junk" THEN <<>>
  ELSE IF s.c = "fake" THEN
     << Site(IF s.k = "idat" /\ s.why # "nolength" THEN 4 ELSE 0, s.k, FALSE, 0, 0, 0) >>
  ELSE IF s.c = "overlap" THEN
     << Site(0, "zlib", TRUE, 2, 22, 1),         \* the stream: 2 header bytes, 20 bytes
        Site(22, "idat", TRUE, 18, 52, 2),       \* "ID" directly behind it; the run would start at 18
        Site(26, "zlib", TRUE, 28, 48, 1) >>     \* zlib header inside the single IDAT chunk
  ELSE IF s.k = "idat" THEN
     << Site(4, "idat", s.big, 0, StreamLen(s), 2) >>
  ELSE << Site(0, s.k, s.big, HdrLen(s), HdrLen(s) + StreamLen(s), 1) >>

RECURSIVE SumLen(_, _)
SumLen(f, n) == IF n = 0 THEN 0 ELSE SegLen(f[n]) + SumLen(f, n - 1)
Start(f, i) == SumLen(f, i - 1)          \* file offset of segment i
FileLen(f) == SumLen(f, Len(f))

VARIABLES file, index, prev, chunks, phase, probe
vars == <<file, index, prev, chunks, phase, probe>>

\* Consecutive IDAT chunks form one run.  A valid IDAT chunk directly behind an IDAT
\* run therefore extends the run, and its payload is then no longer the stream alone:
\* such files are outside C06's hypothesis (and outside this model).
StartsWithValidIdat(s) == s.k = "idat" /\ (s.c = "wrap" \/ (s.c = "fake" /\ s.why = "short"))
EndsWithIdatRun(s) == s.k = "idat" /\ s.c \in {"wrap", "overlap"}
NoRunMerge(f) == \A i \in 1..(Len(f) - 1) : EndsWithIdatRun(f[i]) => ~StartsWithValidIdat(f[i + 1])
Files == {f \in UNION {[1..n -> SegClasses] : n \in 1..MaxSeg} : NoRunMerge(f)}

Init == /\ file \in Files
        /\ index = 0 /\ prev = 0 /\ chunks = <<>> /\ phase = "scan" /\ probe = <<0, 0>>

\* signature sites at or after index, as <<segment, site>>
SitePos(p) == Start(file, p[1]) + Sites(file[p[1]])[p[2]].off
AllSites == UNION {{<<i, j>> : j \in 1..Len(Sites(file[i]))} : i \in 1..Len(file)}
Candidates == {p \in AllSites : SitePos(p) >= index}

\* next_signature: the first signature at or after index, if any
NextSignature ==
  /\ phase = "scan"
  /\ IF Candidates = {} THEN phase' = "tail" /\ UNCHANGED <<index, probe>>
     ELSE LET p == CHOOSE q \in Candidates : \A m \in Candidates : SitePos(q) <= SitePos(m)
          IN index' = SitePos(p) /\ probe' = p /\ phase' = "probe"
  /\ UNCHANGED <<file, prev, chunks>>

TheSite == Sites(file[probe[1]])[probe[2]]
\* does the probe accept?  An IDAT probe looks back 4 bytes for the chunk length; those
\* bytes must exist and must not belong to a chunk that was already handed out.
Accepts ==
  /\ TheSite.acc
  /\ (TheSite.sig = "idat" => (index >= 4 /\ index - 4 >= prev))

Lit(n)  == [kind |-> 0, span |-> n, seg |-> 0]
Strm(p) == [kind |-> TheSite.kind, span |-> TheSite.to - TheSite.from, seg |-> p[1]]

ProbeAccept ==
  /\ phase = "probe" /\ Accepts
  /\ LET streamStart == Start(file, probe[1]) + TheSite.from
         streamEnd   == Start(file, probe[1]) + TheSite.to
     IN /\ chunks' = chunks \o << Lit(streamStart - prev), Strm(probe) >>
        /\ index' = streamEnd
        /\ prev' = streamEnd
  /\ phase' = "scan" /\ probe' = <<0, 0>>
  /\ UNCHANGED file

\* "wasn't able to match any of the known signatures, so skip the current byte"
ProbeReject ==
  /\ phase = "probe" /\ ~Accepts
  /\ index' = index + 1
  /\ phase' = "scan" /\ probe' = <<0, 0>>
  /\ UNCHANGED <<file, prev, chunks>>

TailLiteral ==
  /\ phase = "tail"
  /\ chunks' = IF prev < FileLen(file) THEN Append(chunks, Lit(FileLen(file) - prev)) ELSE chunks
  /\ phase' = "done"
  /\ UNCHANGED <<file, index, prev, probe>>

Next == NextSignature \/ ProbeAccept \/ ProbeReject \/ TailLiteral
Spec == Init /\ [][Next]_vars /\ WF_vars(Next)

----------------------------------------------------------------------------
RECURSIVE SumSpan(_, _)
SumSpan(cs, n) == IF n = 0 THEN 0 ELSE cs[n].span + SumSpan(cs, n - 1)

\* the chunks emitted so far stand for exactly the bytes before prev_index
Tiling == SumSpan(chunks, Len(chunks)) = (IF phase = "done" THEN FileLen(file) ELSE prev)
CursorOrder == prev <= index /\ index <= FileLen(file) + 1
\* C01 at the level of the model: every byte ends up in exactly one chunk
Total == phase = "done" => SumSpan(chunks, Len(chunks)) = FileLen(file)
\* literal and stream chunks alternate the way the writer of the container expects
Alternation ==
  \A j \in 1..Len(chunks) :
     IF chunks[j].kind = 0 THEN (j > 1 => chunks[j - 1].kind # 0)
     ELSE j > 1 /\ chunks[j - 1].kind = 0
\* C06: every embedded stream above the threshold is expanded, at the right place
Found ==
  phase = "done" =>
    \A i \in 1..Len(file) :
      (file[i].c = "wrap" /\ file[i].big) =>
         \E j \in 1..Len(chunks) :
            /\ chunks[j].seg = i
            /\ chunks[j].kind = (IF file[i].k = "idat" THEN 2 ELSE 1)
            /\ SumSpan(chunks, j - 1) = Start(file, i) + HdrLen(file[i])
\* ... and nothing else is: small streams and look-alikes stay literal
NothingElse ==
  \A j \in 1..Len(chunks) : chunks[j].kind # 0 => (file[chunks[j].seg].c \in {"wrap", "overlap"} /\ file[chunks[j].seg].big)
\* a literal never has a negative length: the cursor of pending bytes is never overtaken
\* by the start of a stream (this is what the look-back guard of the IDAT probe is for)
NoNegativeLiteral == (phase = "probe" /\ Accepts) => Start(file, probe[1]) + TheSite.from >= prev

Terminates == <>(phase = "done")

----------------------------------------------------------------------------
\* concrete variant parameters are drawn when a behaviour is printed
Pick(S) == RandomElement(S)
SegJ(s) ==
  IF s.c = "junk" THEN [c |-> "junk", n |-> s.n]
  ELSE IF s.c = "fake" THEN [c |-> "fake", k |-> s.k, why |-> s.why, pad |-> Pick(0..5)]
  ELSE IF s.c = "overlap" THEN [c |-> "overlap", s |-> Pick(0..999)]
  ELSE [c |-> "wrap", k |-> s.k, big |-> s.big, s |-> Pick(0..999), hdr |-> Pick(0..7),
        flags |-> 2 * Pick(0..15), x |-> Pick({0, 1, 300, 3000}), nm |-> Pick({0, 1, 40, 255, 256, 5000}), cm |-> Pick({0, 1, 40, 256, 5000}),
        sizes |-> Pick({<<>>, <<1>>, <<2, 1>>, <<5, 6, 7>>, <<1000>>, <<1024, 8192>>, <<100, 100, 100>>}),
        trail |-> 0]
Replay == (Emit /\ phase = "done") =>
   PrintT(<<"REPLAY", ToJson([segs |-> [i \in 1..Len(file) |-> SegJ(file[i])],
                              chunks |-> [j \in 1..Len(chunks) |-> chunks[j].kind]])>>)
=============================================================================
