------------------------------ MODULE HuffCalc ------------------------------
(***************************************************************************)
(* The code lengths a zlib-like encoder gives to a block's symbols         *)
(* (src/huffman_calc.rs calc_zlib::calc_bit_lengths).  The corrections of  *)
(* a dynamic header are differences against these lengths, so the exact    *)
(* algorithm - including how ties between equal frequencies are broken by  *)
(* the heap and how lengths beyond the limit are redistributed - is part   *)
(* of the stored format (C04).  Transcribed step by step:                  *)
(*   heap of the used symbols in symbol order, sifted down from the middle;*)
(*   repeatedly take the two smallest (smaller = lower frequency, or equal *)
(*   frequency and depth not larger), combine; depth first walk for the    *)
(*   lengths; overflow beyond max_bits redistributed over bl_count and     *)
(*   reassigned in extraction order.                                       *)
(* A node is [f (frequency), d (depth), s (symbol, or NoSym), l, r].       *)
(***************************************************************************)
EXTENDS Naturals, Sequences

NoSym == 9999
Leaf(f, s) == [f |-> f, d |-> 0, s |-> s, l |-> 0, r |-> 0]
Smaller(n, m) == n.f < m.f \/ (n.f = m.f /\ n.d <= m.d)

\* pqdownheap on a 1-based heap: sift element v, currently at root, down
RECURSIVE SiftDown(_, _, _)
SiftDown(h, root, v) ==
  LET c == 2 * root IN                                  \* left child (1-based)
  IF c > Len(h) THEN [h EXCEPT ![root] = v]
  ELSE LET ch == IF c + 1 <= Len(h) /\ Smaller(h[c + 1], h[c]) THEN c + 1 ELSE c IN
       IF Smaller(v, h[ch]) THEN [h EXCEPT ![root] = v]
       ELSE SiftDown([h EXCEPT ![root] = h[ch]], ch, v)
Down(h, root) == SiftDown(h, root, h[root])

RECURSIVE Heapify(_, _)
Heapify(h, n) == IF n = 0 THEN h ELSE Heapify(Down(h, n), n - 1)

\* the main loop: nodes collects the extracted nodes in extraction order, the root last
RECURSIVE Build(_, _)
Build(h, nodes) ==
  LET least1 == h[1]
      h1 == Down([SubSeq(h, 1, Len(h) - 1) EXCEPT ![1] = h[Len(h)]], 1)     \* heap[0] = heap.pop(); sift
      least2 == h1[1]
      ns == nodes \o <<least1, least2>>
      node == [f |-> least1.f + least2.f, d |-> (IF least1.d > least2.d THEN least1.d ELSE least2.d) + 1,
               s |-> NoSym, l |-> Len(ns), r |-> Len(ns) - 1]               \* left = least2, right = least1
  IN IF Len(h1) = 1 THEN Append(ns, node)
     ELSE Build(Down([h1 EXCEPT ![1] = node], 1), ns)

\* depth of every leaf, walking down from node i
RECURSIVE Depths(_, _, _, _)
Depths(nodes, i, depth, acc) ==
  IF nodes[i].s # NoSym THEN [acc EXCEPT ![nodes[i].s + 1] = depth]
  ELSE Depths(nodes, nodes[i].r, depth + 1, Depths(nodes, nodes[i].l, depth + 1, acc))

\* bl_count of the lengths clipped at maxbits (index 1 = length 0), and the number clipped
RECURSIVE CountLensH(_, _, _, _, _)
CountLensH(lens, i, maxbits, cnt, over) ==
  IF i > Len(lens) THEN [cnt |-> cnt, over |-> over]
  ELSE IF lens[i] > maxbits THEN CountLensH(lens, i + 1, maxbits, [cnt EXCEPT ![maxbits + 1] = @ + 1], over + 1)
  ELSE CountLensH(lens, i + 1, maxbits, [cnt EXCEPT ![lens[i] + 1] = @ + 1], over)

RECURSIVE LastNonZeroBelow(_, _)
LastNonZeroBelow(cnt, bits) == IF cnt[bits + 1] = 0 THEN LastNonZeroBelow(cnt, bits - 1) ELSE bits
\* one code moves a level down, an overflowing one becomes its sibling
RECURSIVE Redistribute(_, _, _)
Redistribute(cnt, over, maxbits) ==
  IF over <= 0 THEN cnt
  ELSE LET bits == LastNonZeroBelow(cnt, maxbits - 1) IN
       Redistribute([cnt EXCEPT ![bits + 1] = @ - 1, ![bits + 2] = @ + 2, ![maxbits + 1] = @ - 1], over - 2, maxbits)

\* longest lengths first, to the leaves in extraction order
RECURSIVE Reassign(_, _, _, _, _)
Reassign(nodes, i, cnt, bits, acc) ==
  IF i > Len(nodes) THEN acc
  ELSE IF nodes[i].s = NoSym THEN Reassign(nodes, i + 1, cnt, bits, acc)
  ELSE LET b == LastNonZeroBelow(cnt, bits) IN
       Reassign(nodes, i + 1, [cnt EXCEPT ![b + 1] = @ - 1], b, [acc EXCEPT ![nodes[i].s + 1] = b])

Used(freq) == SelectSeq([i \in 1..Len(freq) |-> Leaf(freq[i], i - 1)], LAMBDA n : n.f > 0)
MaxCode(freq) == IF \E i \in 1..Len(freq) : freq[i] > 0
                 THEN (CHOOSE i \in 1..Len(freq) : freq[i] > 0 /\ \A j \in (i + 1)..Len(freq) : freq[j] = 0) - 1
                 ELSE 0

Limit(nodes, lens, maxbits, c) ==
  IF c.over = 0 THEN lens
  ELSE Reassign(nodes, 1, Redistribute(c.cnt, c.over, maxbits), maxbits, lens)
WithTree(nodes, zero, maxbits) ==
  LET lens == Depths(nodes, Len(nodes), 0, zero) IN
  Limit(nodes, lens, maxbits, CountLensH(lens, 1, maxbits, [i \in 1..(maxbits + 1) |-> 0], 0))

\* freq: sequence, freq[i] = frequency of symbol i - 1; result: lengths of symbols 0..MaxCode
\* (with fewer than two used symbols: two codes of one bit, zlib's way of avoiding an empty tree)
HuffLens(freq, maxbits) ==
  LET mc == MaxCode(freq)
      zero == [i \in 1..(mc + 1) |-> 0]
      heap == Used(freq)
  IN IF Len(heap) <= 1
     THEN (IF mc # 0 THEN [[zero EXCEPT ![mc + 1] = 1] EXCEPT ![1] = 1] ELSE <<1, 1>>)
     ELSE WithTree(Build(Heapify(heap, Len(heap) \div 2), <<>>), zero, maxbits)
=============================================================================
