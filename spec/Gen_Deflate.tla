---------------------------- MODULE Gen_Deflate ----------------------------
(***************************************************************************)
(* Generator of valid DEFLATE streams that use the freedom of the format   *)
(* no mainstream compressor uses: arbitrary (non-greedy, non-nearest)      *)
(* matches, arbitrary block splits, stored / fixed / dynamic blocks, empty *)
(* blocks, random complete Huffman codes, arbitrary legal run-length       *)
(* coding of the header, HLIT/HDIST/HCLEN slack, non-zero padding bits,    *)
(* the non-canonical coding of length 258, trailing garbage.               *)
(*                                                                         *)
(* Run with  tlc -simulate num=N -depth D.  Each finished behaviour prints *)
(* one REPLAY line: the fields (the harness only packs them into bytes),   *)
(* the tokens and stored data the stream denotes, the number of plaintext  *)
(* bytes and of stream bits.  Never model-checked for invariants.          *)
(*                                                                         *)
(* TLC re-evaluates LET definitions at every use inside actions, so every  *)
(* random draw is passed as an operator argument or bound by \E x \in {e}. *)
(***************************************************************************)
EXTENDS Deflate, TLC, Json

CONSTANTS MaxTok,     \* tokens per Huffman block
          MaxBlk,     \* blocks per stream
          RepZero,    \* allow code 16 (repeat previous length) right after a zero length
                      \* (legal; the library under test rejects most such headers)
          Mode        \* "mixed": anything goes; "far": a long stored block first, then dynamic
                      \* blocks whose far distance symbols get the longest codes; "twin": a
                      \* dynamic block with one unused length symbol of HLIT slack and only the
                      \* distances 1..3, then the block with the same code length sequence and
                      \* the same token bits read under the split HLIT-1 / HDIST+1 (every
                      \* distance one larger): what a header means depends on HLIT and HDIST,
                      \* not on the code length sequence alone

VARIABLES fields, toks, blocks, outpos, bitpos, phase, btype, nblk, fin, feat, tailn, modes, twin
vars == <<fields, toks, blocks, outpos, bitpos, phase, btype, nblk, fin, feat, tailn, modes, twin>>

\* pseudo-random bytes as a deterministic function of one random seed (function
\* literals are evaluated lazily, so they must not contain random draws)
ByteOf(seed, i) == (seed * (i + 7) + i * i * 31 + (seed \div (i + 1))) % 256
\* a long run of varied bytes in closed form, kept within 32 bit arithmetic; a field
\* <<seed, 8, 2, n>> stands for the n bytes Varied(seed, 1) .. Varied(seed, n)
Varied(seed, i) == (((i % 251) * (i % 241)) + (i \div 7) * 13 + seed) % 256

Rnd(S) == RandomElement(S)
Coin(n) == RandomElement(1..n) = 1

\* ---- random complete code lengths for the symbol set U (|U| >= 2), depth <= maxd
SplitAt(leaves, i) == [leaves EXCEPT ![i] = leaves[i] + 1] \o << leaves[i] + 1 >>
RECURSIVE Split(_, _, _)
Split(leaves, n, maxd) ==
  IF Len(leaves) = n THEN leaves
  ELSE Split(SplitAt(leaves, Rnd({i \in 1..Len(leaves) : leaves[i] < maxd})), n, maxd)
RandDepths(n, maxd) == Split(<<1, 1>>, n, maxd)

RECURSIVE Assign(_, _, _)
AssignStep(U, depths, acc, s) == Assign(U \ {s}, Tail(depths), [acc EXCEPT ![s] = Head(depths)])
Assign(U, depths, acc) == IF U = {} THEN acc ELSE AssignStep(U, depths, acc, Rnd(U))
RandLens(dom, U, maxd) == Assign(U, RandDepths(Cardinality(U), maxd), [s \in dom |-> 0])

\* ---- maximally skewed complete code: depths 1, 2, ..., n-1, n-1 (n <= 16), the longest
\* codes going to the largest symbols (far distances, which also carry the most extra bits)
RECURSIVE SortedSeq(_)
SetMin(S) == CHOOSE m \in S : \A x \in S : m <= x
SortedSeq(S) == IF S = {} THEN <<>> ELSE <<SetMin(S)>> \o SortedSeq(S \ {SetMin(S)})
SkewLensFrom(dom, syms) ==
  [s \in dom |-> IF \E i \in 1..Len(syms) : syms[i] = s
                 THEN LET i == CHOOSE j \in 1..Len(syms) : syms[j] = s
                      IN IF i = Len(syms) THEN Len(syms) - 1 ELSE i
                 ELSE 0]
SkewLens(dom, U) == SkewLensFrom(dom, SortedSeq(U))
\* grow U to exactly n symbols of dom (n <= |dom|)
RECURSIVE GrowTo(_, _, _)
GrowTo(U, dom, n) == IF Cardinality(U) >= n THEN U ELSE GrowTo(U \cup {Rnd(dom \ U)}, dom, n)

\* ---- random legal run-length coding of a code length sequence
RECURSIVE Run(_, _, _)
Run(seq, p, v) == IF p <= Len(seq) /\ seq[p] = v THEN 1 + Run(seq, p + 1, v) ELSE 0
RleOpts(zrun, prun) ==
   {<<"c", 1>>}
   \cup (IF prun >= 3 THEN {<<"r", k>> : k \in 3..Min(6, prun)} ELSE {})
   \cup (IF zrun >= 3 THEN {<<"z", k>> : k \in 3..Min(10, zrun)} ELSE {})
   \cup (IF zrun >= 11 THEN {<<"Z", k>> : k \in 11..Min(138, zrun)} ELSE {})
RECURSIVE Rle(_, _, _)
RleStep(seq, pos, prev, cur, o) ==
  IF o[1] = "c" THEN << <<cur, 0>> >> \o Rle(seq, pos + 1, cur)
  ELSE IF o[1] = "r" THEN << <<16, o[2] - 3>> >> \o Rle(seq, pos + o[2], prev)
  ELSE IF o[1] = "z" THEN << <<17, o[2] - 3>> >> \o Rle(seq, pos + o[2], 0)
  ELSE << <<18, o[2] - 11>> >> \o Rle(seq, pos + o[2], 0)
\* prev = 99: no previous length yet.  "Repeat previous" is legal whenever the previous
\* length (zero included) equals the current one
RlePick(seq, pos, prev, cur) ==
  RleStep(seq, pos, prev, cur,
          Rnd(RleOpts(IF cur = 0 THEN Run(seq, pos, 0) ELSE 0,
                      IF prev # 99 /\ cur = prev /\ (cur # 0 \/ RepZero) THEN Run(seq, pos, prev) ELSE 0)))
Rle(seq, pos, prev) == IF pos > Len(seq) THEN <<>> ELSE RlePick(seq, pos, prev, seq[pos])

ItemSyms(items) == {items[i][1] : i \in 1..Len(items)}
Pad2(used) == IF Cardinality(used) >= 2 THEN used ELSE used \cup {CHOOSE x \in 0..18 : x \notin used}
LastNz(cl) == CHOOSE k \in 1..19 : cl[ClOrder[k]] # 0 /\ \A j \in (k + 1)..19 : cl[ClOrder[j]] = 0
DynH3(hlit, hdist, items, cl, hclen) ==
   [ fields |-> DynFields(hlit, hdist, hclen, cl, Canon(cl), items), hclen |-> hclen,
     items |-> items, cl |-> cl ]
DynH2(hlit, hdist, items, cl) == DynH3(hlit, hdist, items, cl, Rnd(Max(4, LastNz(cl))..19))
DynH1(hlit, hdist, items) == DynH2(hlit, hdist, items, RandLens(0..18, Pad2(ItemSyms(items)), 7))
Comb(llen, dlen, hlit, hdist) ==
   [i \in 1..(hlit + hdist) |-> IF i <= hlit THEN llen[i - 1] ELSE dlen[i - hlit - 1]]
DynHeader(llen, dlen, hlit, hdist) == DynH1(hlit, hdist, Rle(Comb(llen, dlen, hlit, hdist), 1, 99))
RepeatAfterZero(items) == \E i \in 2..Len(items) : items[i][1] = 16 /\ items[i - 1][1] \in {0, 17, 18}

\* ---- the generator's state machine
LenClasses  == << 3..3, 4..10, 11..255, 256..257, 258..258 >>
DistClasses == << 1..1, 2..4, 5..256, 257..4096, 4097..32768 >>
DistLo      == << 1, 2, 5, 257, 4097 >>

Init == /\ fields = <<>> /\ toks = <<>> /\ blocks = <<>> /\ outpos = 0 /\ bitpos = 0
        /\ phase = "hdr" /\ btype = 0 /\ nblk = 0 /\ fin = 0 /\ feat = {} /\ tailn = 0 /\ modes = {}
        /\ twin = <<>>

\* block type: stored (0), fixed (1), dynamic (2)
BlockTypes == IF Mode = "far" THEN (IF nblk = 0 THEN {0} ELSE {2}) ELSE IF Mode = "twin" THEN {2} ELSE {0, 1, 2}
StartBlock == /\ phase = "hdr" /\ nblk < MaxBlk /\ twin = <<>>
              /\ \E t \in BlockTypes : btype' = t /\ phase' = (IF t = 0 THEN "stored" ELSE "tok")
              /\ toks' = <<>> /\ nblk' = nblk + 1
              /\ UNCHANGED <<fields, blocks, outpos, bitpos, fin, feat, tailn, modes, twin>>

FinalFlag(f) == (nblk = MaxBlk => f = 1)

\* a stored block: short random data, empty, or a long zero run (so that later
\* references can reach far back and the plaintext exceeds 1 KiB)
StoredBody(f, padbits, padv, n, big, seed) ==
  LET hdr == HeaderFields(f, 0) \o << F(padv, padbits) >>
      lens == << F(n, 16), F(65535 - n, 16) >>
      body == IF big THEN (IF Mode = "far" THEN << <<seed, 8, 2, n>> >> ELSE << Rep(0, 8, n) >>)
              ELSE [i \in 1..n |-> F(ByteOf(seed, i), 8)]
  IN hdr \o lens \o body
EmitStored2(f, padbits, padv, n, big, seed, fs) ==
  /\ fields' = fields \o fs /\ bitpos' = bitpos + BitLen(fs)
  /\ blocks' = Append(blocks, [type |-> 0, final |-> f, toks |-> <<>>, pad |-> padv,
                               data |-> IF big THEN (IF Mode = "far" THEN << <<seed, n, 1>> >> ELSE << <<0, n>> >>)
                                        ELSE [i \in 1..n |-> <<ByteOf(seed, i), 1>>]])
  /\ outpos' = outpos + n
  /\ feat' = feat \cup (IF padv # 0 THEN {"stored-pad"} ELSE {}) \cup (IF n = 0 THEN {"stored-empty"} ELSE {})
  /\ fin' = f /\ phase' = IF f = 1 THEN "eof" ELSE "hdr"
  /\ UNCHANGED <<toks, btype, nblk, tailn, modes, twin>>
EmitStored(f, padbits, padv, n, big, seed) ==
  EmitStored2(f, padbits, padv, n, big, seed, StoredBody(f, padbits, padv, n, big, seed))
Stored == /\ phase = "stored"
          /\ \E f \in {0, 1}, cls \in (IF Mode = "far" THEN {"huge"} ELSE {"empty", "short", "big", "huge"}) :
               /\ FinalFlag(f) /\ (Mode = "far" => f = 0)
               /\ \E padbits \in {(8 - ((bitpos + 3) % 8)) % 8} :
                  \E padv \in {IF Coin(2) THEN 0 ELSE Rnd(0..(Pow2(padbits) - 1))} :
                  \E n \in {IF cls = "empty" THEN 0 ELSE IF cls = "short" THEN Rnd(1..24)
                            ELSE IF cls = "big" THEN Rnd(1025..1400) ELSE Rnd({32768, 40000, 65535})} :
                  \E seed \in {Rnd(1..100000)} :
                     EmitStored(f, padbits, padv, n, cls \in {"big", "huge"}, seed)

LitTok == /\ phase = "tok" /\ Len(toks) < MaxTok
          /\ \E c \in {0..143, 144..255} : toks' = Append(toks, Lit(Rnd(c)))
          /\ outpos' = outpos + 1
          /\ UNCHANGED <<fields, blocks, bitpos, phase, btype, nblk, fin, feat, tailn, modes, twin>>

RefTok == /\ phase = "tok" /\ Len(toks) < MaxTok /\ outpos > 0
          /\ \E lc \in (IF Mode = "twin" THEN 1..4 ELSE 1..5), dc \in (IF Mode = "far" THEN 4..5 ELSE IF Mode = "twin" THEN 1..2 ELSE 1..5) :
               /\ DistLo[dc] <= outpos
               /\ \E l \in {Rnd(LenClasses[lc])} :
                  \E d \in {Rnd({x \in DistClasses[dc] : x <= outpos /\ (Mode = "twin" => x <= 3)})} :
                  \E irr \in {l = 258 /\ Coin(2)} :
                     /\ toks' = Append(toks, Ref(l, d, irr))
                     /\ outpos' = outpos + l
                     /\ feat' = feat \cup (IF irr THEN {"irr258"} ELSE {})
          /\ UNCHANGED <<fields, blocks, bitpos, phase, btype, nblk, fin, tailn, modes, twin>>

\* a Huffman block may be empty (end-of-block code only)
\* in twin mode the first block is not the last one and leaves room for the shifted distances, so that
\* (nearly) every generated stream gets its twin block
EndBlock == /\ phase = "tok"
            /\ (Mode = "twin" /\ nblk = 1 => outpos >= 4)
            /\ \E f \in {0, 1} : FinalFlag(f) /\ (Mode = "twin" /\ nblk = 1 => f = 0) /\ fin' = f
            /\ phase' = "emit"
            /\ UNCHANGED <<fields, toks, blocks, outpos, bitpos, btype, nblk, feat, tailn, modes, twin>>

UsedLit  == {256} \cup {LitLenSym(toks[i]) : i \in 1..Len(toks)}
UsedDist == {DistSym(toks[i]) : i \in {j \in 1..Len(toks) : toks[j].k = "R"}}
SetMax(S) == CHOOSE m \in S : \A x \in S : x <= m
\* the library insists on complete codes, so at least two symbols get a code
PadLit(ul)  == IF Cardinality(ul) >= 2 THEN ul ELSE ul \cup {Rnd(0..255)}
PadDist(ud) == IF Cardinality(ud) >= 2 THEN ud
               ELSE IF Cardinality(ud) = 1 THEN ud \cup {Rnd({x \in 0..29 : x \notin ud})}
               ELSE {Rnd(0..14), Rnd(15..29)}
\* sometimes give codes to symbols the block does not use
Extra(U, dom) == IF Coin(3) THEN U \cup {Rnd(dom), Rnd(dom)} ELSE U

EmitFixed(fs) ==
  /\ fields' = fields \o fs /\ bitpos' = bitpos + BitLen(fs)
  /\ blocks' = Append(blocks, [type |-> 1, final |-> fin, toks |-> toks, pad |-> 0, data |-> <<>>])
  /\ feat' = feat \cup (IF toks = <<>> THEN {"empty-block"} ELSE {})
EmitDyn(llen, dlen, hlit, hdist, dh, fs) ==
  /\ fields' = fields \o fs /\ bitpos' = bitpos + BitLen(fs)
  /\ blocks' = Append(blocks, [type |-> 2, final |-> fin, toks |-> toks, pad |-> 0, data |-> <<>>,
                               hlit |-> hlit, hdist |-> hdist, hclen |-> dh.hclen,
                               cl |-> [k \in 1..19 |-> dh.cl[k - 1]], items |-> dh.items])
  /\ feat' = feat \cup (IF toks = <<>> THEN {"empty-block"} ELSE {})
                  \cup (IF RepeatAfterZero(dh.items) THEN {"repeat-after-zero"} ELSE {})
                  \cup (IF hlit > SetMax({s \in 0..285 : llen[s] > 0}) + 1 THEN {"hlit-slack"} ELSE {})
                  \cup (IF dh.hclen > Max(4, LastNz(dh.cl)) THEN {"hclen-slack"} ELSE {})
\* shapes of the distance code: a random complete code; a maximally skewed one; or what
\* zlib also accepts although the code is incomplete: a single code of length 1, or no
\* distance code at all (the library under test insists on complete codes)
DistLens(mode, UD) ==
  IF mode = "minimal" THEN [s \in 0..29 |-> IF s \in UsedDist THEN 1 ELSE 0]
  ELSE IF mode = "skew" THEN SkewLens(0..29, GrowTo(UD, 0..29, 16))
  ELSE RandLens(0..29, UD, 15)
DistModes == IF Mode = "far" THEN {"skew"}
             ELSE IF Cardinality(UsedDist) <= 1 THEN {"random", "random", "skew", "minimal"}
             ELSE {"random", "random", "skew"}
LitLens(mode, UL) ==
  IF mode = "minimal" THEN [s \in 0..285 |-> IF s = 256 THEN 1 ELSE 0]
  ELSE IF mode = "skew" THEN SkewLens(0..285, GrowTo(UL, 0..285, 16))
  ELSE RandLens(0..285, UL, 15)
LitModes == IF toks = <<>> THEN {"random", "minimal"}
            ELSE IF Cardinality(UsedLit) <= 14 THEN {"random", "random", "skew"} ELSE {"random"}
EmitBlock ==
  /\ phase = "emit"
  /\ IF btype = 1 THEN
        EmitFixed(HeaderFields(fin, 1)
                  \o BlockBody(toks, Canon(FixedLitLens), FixedLitLens, Canon(FixedDistLens), FixedDistLens))
     ELSE
        \E lmode \in { Rnd(LitModes) } :
        \E dmode \in { Rnd(DistModes) } :
        \E UL \in { Extra(PadLit(UsedLit), IF Mode = "twin" THEN 0..283 ELSE 0..285) } :
        \E UD \in { Extra(PadDist(UsedDist), IF Mode = "twin" THEN 0..27 ELSE 0..29) } :
        \E llen \in { LitLens(lmode, UL) } :
        \E dlen \in { DistLens(dmode, UD) } :
        \E hlit \in { IF Mode = "twin" THEN Min(286, Max(257, SetMax({s \in 0..285 : llen[s] > 0}) + 1) + 1)
                       ELSE Rnd(Max(257, SetMax({s \in 0..285 : llen[s] > 0}) + 1)..286) } :
        \E hdist \in { IF Mode = "twin" THEN SetMax({s \in 0..29 : dlen[s] > 0} \cup {0}) + 1
                        ELSE Rnd((SetMax({s \in 0..29 : dlen[s] > 0} \cup {0}) + 1)..30) } :
        \E dh \in { DynHeader(llen, dlen, hlit, hdist) } :
          /\ EmitDyn(llen, dlen, hlit, hdist, dh,
                     HeaderFields(fin, 2) \o dh.fields \o BlockBody(toks, Canon(llen), llen, Canon(dlen), dlen))
          /\ modes' = modes \cup {<<"lit", lmode>>, <<"dist", dmode>>}
          /\ twin' = IF Mode = "twin" /\ fin = 0 /\ llen[hlit - 1] = 0 /\ hdist <= 29 /\ outpos >= 4
                     THEN << [llen |-> llen, dlen |-> dlen, hlit |-> hlit, hdist |-> hdist, dh |-> dh, toks |-> toks] >>
                     ELSE <<>>
  /\ (btype = 1 => modes' = modes /\ twin' = <<>>)
  /\ phase' = IF fin = 1 THEN "eof" ELSE "hdr"
  /\ UNCHANGED <<toks, outpos, btype, nblk, fin, tailn>>

\* the twin of the dynamic block just written: same code length items, same code length code,
\* same literal/length code, the distance code moved up by one symbol, HLIT one less, HDIST one more
ShiftDist(t) == IF t.k = "R" THEN Ref(t.l, t.d + 1, t.irr) ELSE t
RECURSIVE PlainLen(_, _)
PlainLen(ts, i) == IF i > Len(ts) THEN 0 ELSE (IF ts[i].k = "R" THEN ts[i].l ELSE 1) + PlainLen(ts, i + 1)
TwinEmit(w, toks2, dlen2, f) ==
  \E fs \in { HeaderFields(f, 2)
               \o DynFields(w.hlit - 1, w.hdist + 1, w.dh.hclen, w.dh.cl, Canon(w.dh.cl), w.dh.items)
               \o BlockBody(toks2, Canon(w.llen), w.llen, Canon(dlen2), dlen2) } :
    /\ fields' = fields \o fs /\ bitpos' = bitpos + BitLen(fs)
    /\ blocks' = Append(blocks, [type |-> 2, final |-> f, toks |-> toks2, pad |-> 0, data |-> <<>>,
                                 hlit |-> w.hlit - 1, hdist |-> w.hdist + 1, hclen |-> w.dh.hclen,
                                 cl |-> [k \in 1..19 |-> w.dh.cl[k - 1]], items |-> w.dh.items])
    /\ outpos' = outpos + PlainLen(toks2, 1)
    /\ toks' = toks2 /\ fin' = f /\ phase' = IF f = 1 THEN "eof" ELSE "hdr"
TwinBlock ==
  /\ phase = "hdr" /\ twin # <<>>
  /\ \E f \in {IF nblk + 1 >= MaxBlk THEN 1 ELSE Rnd({0, 1})} :
       TwinEmit(twin[1], [i \in 1..Len(twin[1].toks) |-> ShiftDist(twin[1].toks[i])],
                [s \in 0..29 |-> IF s = 0 THEN 0 ELSE twin[1].dlen[s - 1]], f)
  /\ nblk' = nblk + 1 /\ twin' = <<>> /\ feat' = feat \cup {"twin-split"}
  /\ UNCHANGED <<btype, tailn, modes>>

\* padding bits of the last byte (any value) and optional trailing garbage
Eof == /\ phase = "eof"
       /\ \E padbits \in {(8 - (bitpos % 8)) % 8} :
          \E padv \in {IF Coin(2) THEN 0 ELSE Rnd(0..(Pow2(padbits) - 1))} :
          \E ntail \in {IF Coin(2) THEN 0 ELSE Rnd(1..4)} :
          \E seed \in {Rnd(1..100000)} :
            /\ fields' = fields \o << F(padv, padbits) >> \o [i \in 1..ntail |-> F(ByteOf(seed, i), 8)]
            /\ feat' = feat \cup (IF padv # 0 THEN {"eof-pad"} ELSE {}) \cup (IF ntail > 0 THEN {"tail"} ELSE {})
            /\ tailn' = ntail
            /\ bitpos' = bitpos + padbits
       /\ phase' = "done"
       /\ UNCHANGED <<toks, blocks, outpos, btype, nblk, fin, modes, twin>>

Next == StartBlock \/ Stored \/ LitTok \/ RefTok \/ EndBlock \/ EmitBlock \/ TwinBlock \/ Eof
Spec == Init /\ [][Next]_vars

TokJ(t) == IF t.k = "L" THEN <<0, t.v, 0, 0>> ELSE <<1, t.l, t.d, IF t.irr THEN 1 ELSE 0>>
BlockJ(b) == IF b.type = 2
   THEN [type |-> 2, final |-> b.final, toks |-> [i \in 1..Len(b.toks) |-> TokJ(b.toks[i])], pad |-> 0,
         data |-> <<>>, hlit |-> b.hlit, hdist |-> b.hdist, hclen |-> b.hclen, cl |-> b.cl, items |-> b.items]
   ELSE [type |-> b.type, final |-> b.final, toks |-> [i \in 1..Len(b.toks) |-> TokJ(b.toks[i])],
         pad |-> b.pad, data |-> b.data]
Replay == phase = "done" =>
   PrintT(<<"REPLAY", ToJson([fields |-> fields, plain |-> outpos, bits |-> bitpos, tail |-> tailn,
                              blocks |-> [i \in 1..Len(blocks) |-> BlockJ(blocks[i])],
                              feat |-> feat \cup {m[1] \o "-" \o m[2] : m \in modes}])>>)
=============================================================================
