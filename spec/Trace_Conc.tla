----------------------------- MODULE Trace_Conc -----------------------------
(* Reset | Seq fn x hash (sequential reference) | End t fn x round rep hash | Done *)
(* Every concurrent result for (fn, x) must equal the sequential reference.        *)
EXTENDS Naturals, Sequences, TLC, Json, IOUtils
Rec == ndJsonDeserialize(IOEnv.TRACE)
VARIABLES l, ref, phase, n
vars == <<l, ref, phase, n>>
Init == l = 1 /\ ref = [k \in {} |-> ""] /\ phase = "idle" /\ n = 0
IsEvent(e) == l <= Len(Rec) /\ Rec[l].e = e /\ l' = l + 1
Reset == IsEvent("Reset") /\ phase = "idle" /\ phase' = "seq" /\ ref' = [k \in {} |-> ""] /\ n' = 0
SeqEv == /\ IsEvent("Seq") /\ phase \in {"seq", "conc"}
       /\ ref' = ref @@ (<<Rec[l].fn, Rec[l].x>> :> Rec[l].hash) /\ UNCHANGED <<phase, n>>
EndEv == /\ IsEvent("End") /\ phase \in {"seq", "conc"}
       /\ <<Rec[l].fn, Rec[l].x>> \in DOMAIN ref
       /\ ref[<<Rec[l].fn, Rec[l].x>>] = Rec[l].hash
       /\ phase' = "conc" /\ n' = n + 1 /\ UNCHANGED ref
Done == IsEvent("Done") /\ phase = "conc" /\ n > 0 /\ phase' = "idle" /\ UNCHANGED <<ref, n>>
Next == Reset \/ SeqEv \/ EndEv \/ Done
Spec == Init /\ [][Next]_vars
Accepted ==
  LET d == TLCGet("stats").diameter IN
  IF d - 1 = Len(Rec) THEN TRUE
  ELSE /\ PrintT(<<"TRACE-REJECTED line", d, IF d <= Len(Rec) THEN ToJson([e |-> Rec[d].e]) ELSE "eof">>)
       /\ FALSE
=============================================================================
