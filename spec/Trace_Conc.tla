----------------------------- MODULE Trace_Conc -----------------------------
(* Reset | Fresh fn x hash (reference: the call on a thread of its own, with no history)  *)
(*       | Seq fn x hash (the call on the main thread, after all the calls before it)     *)
(*       | End t fn x round rep hash (a call in a history thread or a concurrent round)   *)
(*       | Done                                                                           *)
(* Concurrency!Deterministic on real runs: every result for (fn, x) - whatever ran before *)
(* it in its thread, whatever ran beside it - equals the reference.  (Traces without      *)
(* Fresh events: the first Seq event of a pair is the reference.)                         *)
EXTENDS Naturals, Sequences, TLC, Json, IOUtils
Rec == ndJsonDeserialize(IOEnv.TRACE)
VARIABLES l, ref, phase, n
vars == <<l, ref, phase, n>>
Init == l = 1 /\ ref = [k \in {} |-> ""] /\ phase = "idle" /\ n = 0
IsEvent(e) == l <= Len(Rec) /\ Rec[l].e = e /\ l' = l + 1
Key(ev) == <<ev.fn, ev.x>>
Reset == IsEvent("Reset") /\ phase = "idle" /\ phase' = "seq" /\ ref' = [k \in {} |-> ""] /\ n' = 0
FreshEv == /\ IsEvent("Fresh") /\ phase = "seq" /\ Key(Rec[l]) \notin DOMAIN ref
           /\ ref' = ref @@ (Key(Rec[l]) :> Rec[l].hash) /\ UNCHANGED <<phase, n>>
SeqEv == /\ IsEvent("Seq") /\ phase \in {"seq", "conc"}
         /\ IF Key(Rec[l]) \in DOMAIN ref THEN ref[Key(Rec[l])] = Rec[l].hash /\ UNCHANGED ref
            ELSE ref' = ref @@ (Key(Rec[l]) :> Rec[l].hash)
         /\ UNCHANGED <<phase, n>>
EndEv == /\ IsEvent("End") /\ phase \in {"seq", "conc"}
         /\ Key(Rec[l]) \in DOMAIN ref
         /\ ref[Key(Rec[l])] = Rec[l].hash
         /\ phase' = "conc" /\ n' = n + 1 /\ UNCHANGED ref
Done == IsEvent("Done") /\ phase = "conc" /\ n > 0 /\ phase' = "idle" /\ UNCHANGED <<ref, n>>
Next == Reset \/ FreshEv \/ SeqEv \/ EndEv \/ Done
Spec == Init /\ [][Next]_vars
Accepted ==
  LET d == TLCGet("stats").diameter IN
  IF d - 1 = Len(Rec) THEN TRUE
  ELSE /\ PrintT(<<"TRACE-REJECTED line", d, IF d <= Len(Rec) THEN ToJson([e |-> Rec[d].e]) ELSE "eof">>)
       /\ FALSE
=============================================================================
