---------------------------- MODULE Trace_History ----------------------------
(*  Reset run kind versions{ref,cur}                                         *)
(*  Write build result | Read build result equal | Ops equal | SameContainer *)
(*  Done                                                                     *)
(* One run is the history  Write(ref) ; Upgrade ; Read(cur)  (plus the       *)
(* control Read(ref)) on one concrete input.                                 *)
EXTENDS Naturals, Sequences, TLC, Json, IOUtils
Rec == ndJsonDeserialize(IOEnv.TRACE)
VARIABLES l, base, phase, written
vars == <<l, base, phase, written>>
Init == l = 1 /\ base = 1 /\ phase = "idle" /\ written = FALSE
IsEvent(e) == l <= Len(Rec) /\ Rec[l].e = e /\ l' = l + 1
SameVersions == Rec[base].versions.ref = Rec[base].versions.cur
Reset == IsEvent("Reset") /\ phase = "idle" /\ base' = l /\ phase' = "write" /\ written' = FALSE
\* the reference build may refuse an input (Err); it must not panic on it
WriteEv == /\ IsEvent("Write") /\ phase = "write" /\ Rec[l].build = "ref"
           /\ Rec[l].result \in {"ok", "err"}
           /\ written' = (Rec[l].result = "ok") /\ phase' = "read" /\ UNCHANGED base
\* NoSilentLoss: with equal version numbers the current build reproduces the object exactly;
\* the control read by the reference build itself must always succeed
ReadEv == /\ IsEvent("Read") /\ phase = "read" /\ written
          /\ IF Rec[l].build = "cur" THEN (SameVersions => (Rec[l].result = "ok" /\ Rec[l].equal))
             ELSE Rec[l].result = "ok" /\ Rec[l].equal
          /\ UNCHANGED <<base, phase, written>>
\* cross-trace validation: the operations encoded by ref are the operations decoded by cur
OpsEv == /\ IsEvent("Ops") /\ phase = "read" /\ written
         /\ (SameVersions => Rec[l].equal)
         /\ UNCHANGED <<base, phase, written>>
\* a one-sided change of the current writer is not C04's business
SameEv == IsEvent("SameContainer") /\ phase = "read" /\ UNCHANGED <<base, phase, written>>
Done == IsEvent("Done") /\ phase = "read" /\ phase' = "idle" /\ UNCHANGED <<base, written>>
Next == Reset \/ WriteEv \/ ReadEv \/ OpsEv \/ SameEv \/ Done
Spec == Init /\ [][Next]_vars
Accepted ==
  LET d == TLCGet("stats").diameter IN
  IF d - 1 = Len(Rec) THEN TRUE
  ELSE /\ PrintT(<<"TRACE-REJECTED line", d, IF d <= Len(Rec) THEN ToJson([e |-> Rec[d].e]) ELSE "eof">>)
       /\ FALSE
=============================================================================
