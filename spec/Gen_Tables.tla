----------------------------- MODULE Gen_Tables -----------------------------
(***************************************************************************)
(* Prints, once, the tables from which the harness composes streams that   *)
(* contain EVERY (length, distance) pair: for each match length 3..258 and *)
(* each distance 1..32768 the symbol, the number of extra bits and their   *)
(* value as RFC 1951 defines them (Deflate.tla); the canonical codes of    *)
(* the fixed Huffman code; one dynamic block header (as fields) whose      *)
(* length symbols and far distance symbols get the longest codes, with its *)
(* code tables; and a first, stored block of 32768 varied bytes so that    *)
(* every distance is reachable.  The harness only concatenates fields      *)
(* taken from here.                                                        *)
(***************************************************************************)
EXTENDS Deflate, TLC, Json
VARIABLE done
Init == done = FALSE
Next == done' = TRUE
Spec == Init /\ [][Next]_done

\* <<symbol, number of extra bits, value of the extra bits>>
LenRow(l)  == <<LenIdx(l) + 256, LenExtra[LenIdx(l)], l - LenBase[LenIdx(l)]>>
DistRow(d) == <<DistIdx(d) - 1, DistExtra[DistIdx(d)], d - DistBase[DistIdx(d)]>>

\* distance code: 0..9 on a chain (1..10 bits), then 12, 13, 14, 14 and sixteen codes of 15 bits
DLens == [s \in 0..29 |-> IF s <= 9 THEN s + 1 ELSE IF s = 10 THEN 12 ELSE IF s = 11 THEN 13
                          ELSE IF s <= 13 THEN 14 ELSE 15]
\* literal/length code: literals 9 bits, end of block 2 bits, 257..272 7 bits, 273..284 on a chain
\* 4..15 bits, 285 15 bits
LLens == [s \in 0..285 |-> IF s <= 255 THEN 9 ELSE IF s = 256 THEN 2 ELSE IF s <= 272 THEN 7
                           ELSE IF s <= 284 THEN s - 269 ELSE 15]
\* code length code: sixteen codes of 4 bits for the lengths 0..15, no run-length symbols
ClLens == [s \in 0..18 |-> IF s <= 15 THEN 4 ELSE 0]
ASSUME Complete(DLens) /\ Complete(LLens) /\ Complete(ClLens)

Items == [i \in 1..316 |-> <<IF i <= 286 THEN LLens[i - 1] ELSE DLens[i - 287], 0>>]
Fn2Seq(f, n) == [i \in 1..n |-> f[i - 1]]

Tables ==
  [ prefix |-> HeaderFields(0, 0) \o << F(0, 5), F(32768, 16), F(32767, 16), <<77, 8, 2, 32768>> >>,
    prefix_seed |-> 77, prefix_len |-> 32768,
    lens  |-> [l \in 1..256 |-> LenRow(l + 2)],
    dists |-> [d \in 1..32768 |-> DistRow(d)],
    irr258 |-> <<284, 5, 31>>,
    fixed |-> [ hdr |-> HeaderFields(1, 1),
                lc |-> Fn2Seq(Canon(FixedLitLens), 288), ll |-> Fn2Seq(FixedLitLens, 288),
                dc |-> Fn2Seq(Canon(FixedDistLens), 32), dl |-> Fn2Seq(FixedDistLens, 32) ],
    dyn   |-> [ hdr |-> HeaderFields(1, 2) \o DynFields(286, 30, 19, ClLens, Canon(ClLens), Items),
                lc |-> Fn2Seq(Canon(LLens), 286), ll |-> Fn2Seq(LLens, 286),
                dc |-> Fn2Seq(Canon(DLens), 30), dl |-> Fn2Seq(DLens, 30) ] ]
Replay == done => PrintT(<<"REPLAY", ToJson(Tables)>>)
=============================================================================
