------------------------------ MODULE MC_Codec ------------------------------
(***************************************************************************)
(* Bounded exhaustive model of the codec: an environment picks operations  *)
(* one at a time (EncStep), the encoder appends bins to the channel,       *)
(* finishes (EncFin), then the decoder is driven with the same sequence of *)
(* operation kinds (DecStep).  Every operation sequence of length <= N     *)
(* over Alphabet is explored.                                              *)
(***************************************************************************)
EXTENDS Codec, FiniteSets, TLC, Json

CONSTANTS N,          \* maximal number of operations
          Emit        \* TRUE: print every finished behaviour as a replay case

Alphabet ==
       [k : {"V"}, c : {0}, v : {0, 1}, n : {1}]
  \cup [k : {"V"}, c : {0}, v : {0, 200, 255}, n : {8}]
  \cup [k : {"V"}, c : {0}, v : {0, 65535}, n : {16}]
  \cup [k : {"M"}, c : {0, 3}, v : {0, 1}, n : {0}]
  \cup [k : {"C"}, c : {0, 9}, v : {0, 1, 2, 3, 255, 256, 65536, 2147483647}, n : {0}]

VARIABLES ops,     \* operations handed to the encoder so far
          chan,    \* bins written so far
          dcE,     \* encoder default_count
          phase,   \* "enc" | "dec" | "done"
          out,     \* operations decoded so far
          rd,      \* decoder read position in chan
          dcD,     \* decoder default_count
          err      \* the decoder hit a context mismatch / ran out of bins / tripped its assertion
vars == <<ops, chan, dcE, phase, out, rd, dcD, err>>

Init == /\ ops = <<>> /\ chan = <<>> /\ dcE = 0 /\ phase = "enc"
        /\ out = <<>> /\ rd = 1 /\ dcD = 0 /\ err = FALSE

EncStepWith(op, r) ==
  /\ ops' = Append(ops, op) /\ chan' = chan \o r.bins /\ dcE' = r.dc
  /\ UNCHANGED <<phase, out, rd, dcD, err>>
EncStep == /\ phase = "enc" /\ Len(ops) < N
           /\ \E op \in Alphabet : EncStepWith(op, EncOp(op, dcE))

EncFin == /\ phase = "enc"
          /\ chan' = chan \o EncFinish(dcE) /\ dcE' = 0 /\ phase' = "dec"
          /\ UNCHANGED <<ops, out, rd, dcD, err>>

DecStepWith(op, r) ==
  IF r.ok THEN /\ out' = Append(out, [op EXCEPT !.v = r.v]) /\ rd' = r.rd /\ dcD' = r.dc
               /\ UNCHANGED <<ops, chan, dcE, phase, err>>
  ELSE /\ err' = TRUE /\ phase' = "done" /\ UNCHANGED <<ops, chan, dcE, out, rd, dcD>>
DecStep == /\ phase = "dec" /\ Len(out) < Len(ops)
           /\ DecStepWith(ops[Len(out) + 1], DecOp(chan, ops[Len(out) + 1], rd, dcD))

DecFin == /\ phase = "dec" /\ Len(out) = Len(ops)
          /\ phase' = "done" /\ UNCHANGED <<ops, chan, dcE, out, rd, dcD, err>>

Next == EncStep \/ EncFin \/ DecStep \/ DecFin
Spec == Init /\ [][Next]_vars

----------------------------------------------------------------------------
\* C10: what is decoded is what was encoded
DecodedIsPrefix == Len(out) <= Len(ops) /\ out = SubSeq(ops, 1, Len(out))
\* the decoder presents, for every bin, the context the encoder used
ContextsAgree == ~err
\* nothing is left unread and no default run is pending at the end
AllConsumed == phase = "done" => (rd = Len(chan) + 1 /\ dcD = 0 /\ out = ops)
\* implementation fact relied on by the reader's assertion in decode_value
RunAtMostOne == dcE \in {0, 1}
\* the whole-sequence operators agree with the step-wise machine
WholeAgrees == phase = "done" =>
                  /\ EncAll(ops, 0) = chan
                  /\ DecAll(chan, ops, 1, 0) = [ok |-> TRUE, ops |-> ops]

BinJ(b) == <<b[1], b[2], b[3], b[4]>>
Replay == (Emit /\ phase = "done") =>
            PrintT(<<"REPLAY", ToJson([ops |-> ops, bins |-> chan])>>)
=============================================================================
