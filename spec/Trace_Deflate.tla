--------------------------- MODULE Trace_Deflate ---------------------------
(***************************************************************************)
(* Validates what the real DEFLATE parser reported (hook parse) against    *)
(* RFC 1951 as transcribed in Deflate.tla.  The parser's report is         *)
(* accepted iff re-serialising it with the spec's tables and the spec's    *)
(* canonical codes reproduces the input bit for bit from the current bit   *)
(* position, every literal and reference has its LZ77 meaning on the       *)
(* reported plaintext, and the consumed length is the byte count up to and *)
(* including the final block's padding.  Because canonical codes are       *)
(* prefix-free, the accepted report is the unique parse of the input.      *)
(*                                                                         *)
(*  Reset    run lib bytes plain zok zconsumed zeq                         *)
(*  Stored   final pad len | Fixed final | Dyn final hlit hdist hclen cl items *)
(*  T        toks (a batch of tokens)      Eob                             *)
(*  End      pad consumed plain_len                                        *)
(*  Rejected (the library returned Err: nothing to validate)               *)
(***************************************************************************)
EXTENDS Deflate, TLC, Json, IOUtils

Rec == ndJsonDeserialize(IOEnv.TRACE)

VARIABLES l, base, bitpos, outpos, phase, fin, lc, ll, dc, dl
vars == <<l, base, bitpos, outpos, phase, fin, lc, ll, dc, dl>>

\* table forms of the RFC's symbol selection (evaluated once)
LenIdxT  == [len \in 3..258 |-> LenIdx(len)] @@ <<>>
DistIdxT == [d \in 1..32768 |-> DistIdx(d)] @@ <<>>
FixLC == Canon(FixedLitLens)
FixDC == Canon(FixedDistLens)

Bytes == Rec[base].bytes
Plain == Rec[base].plain
NBits == 8 * Len(Bytes)

\* Performance: the code tables lc / dc / (code length code) are kept *bit-reversed*
\* in this module, so that a Huffman code field can be compared numerically with
\* the LSB-first bits of the input like any other field (the msb flag of a field
\* is therefore ignored here); and the LZ77 equation is stated on subsequences.
RECURSIVE RevBits(_, _)
RevBits(v, n) == IF n = 0 THEN 0 ELSE (v % 2) * Pow2(n - 1) + RevBits(v \div 2, n - 1)
RevCodes(codes, lens) == [s \in DOMAIN codes |-> RevBits(codes[s], lens[s])]
FixLCR == RevCodes(FixLC, FixedLitLens)
FixDCR == RevCodes(FixDC, FixedDistLens)

B(j) == IF j <= Len(Bytes) THEN Bytes[j] ELSE 0
Word(k) == B(k) + 256 * B(k + 1) + 65536 * B(k + 2)
FieldAt(p, f) == /\ p + f[2] <= NBits
                 /\ f[1] < Pow2(f[2])
                 /\ (Word((p \div 8) + 1) \div Pow2(p % 8)) % Pow2(f[2]) = f[1]

\* position after the fields if they all match from p, else NBits + 1
NoMatch == 1000000000
RECURSIVE FieldsAt(_, _, _)
FieldsAt(p, fs, i) ==
  IF i > Len(fs) THEN p
  ELSE IF FieldAt(p, fs[i]) THEN FieldsAt(p + fs[i][2], fs, i + 1)
  ELSE NoMatch

TokOf(a) == IF a[1] = 0 THEN Lit(a[2]) ELSE Ref(a[2], a[3], a[4] = 1)
WellFormed(a) == IF a[1] = 0 THEN a[2] \in 0..255
                 ELSE a[2] \in 3..258 /\ a[3] \in 1..32768 /\ (a[4] = 1 => a[2] = 258)

\* LZ77 meaning of a token at output position o (0-based count of bytes produced)
Means(t, o) ==
  IF t.k = "L" THEN o + 1 <= Len(Plain) /\ Plain[o + 1] = t.v
  ELSE /\ t.d <= o /\ o + t.l <= Len(Plain)
       \* \A i \in 1..t.l : Plain[o + i] = Plain[o + i - t.d]
       /\ SubSeq(Plain, o + 1, o + t.l) = SubSeq(Plain, o + 1 - t.d, o + t.l - t.d)

\* all tokens of a batch: bits match at p, meaning holds at o
RECURSIVE ToksAt(_, _, _, _)
TokStep(toks, i, p, o, t, p2) ==
  IF p2 = NoMatch \/ ~Means(t, o) THEN [ok |-> FALSE, p |-> p, o |-> o]
  ELSE ToksAt(toks, i + 1, p2, o + TokLen(t))
TokStep1(toks, i, p, o, t) ==
  TokStep(toks, i, p, o, t,
          FieldsAt(p, TokFieldsWith(t, IF t.k = "L" THEN 0 ELSE IF t.irr THEN 28 ELSE LenIdxT[t.l],
                                       IF t.k = "L" THEN 0 ELSE DistIdxT[t.d], lc, ll, dc, dl), 1))
ToksAt(toks, i, p, o) ==
  IF i > Len(toks) THEN [ok |-> TRUE, p |-> p, o |-> o]
  ELSE IF ~WellFormed(toks[i]) THEN [ok |-> FALSE, p |-> p, o |-> o]
  ELSE TokStep1(toks, i, p, o, TokOf(toks[i]))

Init == /\ l = 1 /\ base = 1 /\ bitpos = 0 /\ outpos = 0 /\ phase = "idle" /\ fin = 0
        /\ lc = <<>> /\ ll = <<>> /\ dc = <<>> /\ dl = <<>>

IsEvent(e) == l <= Len(Rec) /\ Rec[l].e = e /\ l' = l + 1

Reset == /\ IsEvent("Reset") /\ phase = "idle"
         /\ base' = l /\ bitpos' = 0 /\ outpos' = 0 /\ fin' = 0
         /\ phase' = IF Rec[l].lib = "ok" THEN "hdr" ELSE "rejected"
         /\ lc' = <<>> /\ ll' = <<>> /\ dc' = <<>> /\ dl' = <<>>

Rejected == /\ IsEvent("Rejected") /\ phase = "rejected" /\ phase' = "idle"
            /\ UNCHANGED <<base, bitpos, outpos, fin, lc, ll, dc, dl>>

\* ---- stored block
StoredAt(ev, padbits, p) ==        \* p: position after header, padding, LEN, NLEN
  /\ p # NoMatch
  /\ p % 8 = 0
  /\ (p \div 8) + ev.len <= Len(Bytes) /\ outpos + ev.len <= Len(Plain)
  /\ \A i \in 1..ev.len : Bytes[(p \div 8) + i] = Plain[outpos + i]
  /\ bitpos' = p + 8 * ev.len /\ outpos' = outpos + ev.len
StoredEv2(ev, padbits) ==
  /\ ev.len \in 0..65535 /\ ev.pad < Pow2(padbits)
  /\ StoredAt(ev, padbits,
              FieldsAt(bitpos, HeaderFields(ev.final, 0)
                               \o << F(ev.pad, padbits), F(ev.len, 16), F(65535 - ev.len, 16) >>, 1))
StoredEv == /\ IsEvent("Stored") /\ phase = "hdr" /\ fin = 0
            /\ StoredEv2(Rec[l], (8 - ((bitpos + 3) % 8)) % 8)
            /\ fin' = Rec[l].final /\ phase' = "hdr"
            /\ UNCHANGED <<base, lc, ll, dc, dl>>

\* ---- fixed block
FixedAt(p) == p # NoMatch /\ bitpos' = p
FixedEv == /\ IsEvent("Fixed") /\ phase = "hdr" /\ fin = 0
           /\ FixedAt(FieldsAt(bitpos, HeaderFields(Rec[l].final, 1), 1))
           /\ lc' = FixLCR /\ ll' = FixedLitLens /\ dc' = FixDCR /\ dl' = FixedDistLens
           /\ fin' = Rec[l].final /\ phase' = "body"
           /\ UNCHANGED <<base, outpos>>

\* ---- dynamic block: the header must be well formed per RFC 1951 (a header the
\* RFC rejects and the library accepts leaves the specified domain)
ClFun(cl) == [s \in 0..18 |-> cl[s + 1]]
DynAt(ev, x, litl, distl, p) ==
  /\ p # NoMatch
  /\ bitpos' = p
  /\ ll' = litl /\ dl' = distl /\ lc' = RevCodes(Canon(litl), litl) /\ dc' = RevCodes(Canon(distl), distl)
DynEv3(ev, x, clf) ==
  /\ x.ok /\ Len(x.lens) = ev.hlit + ev.hdist
  /\ Complete(clf)
  /\ LibAccepts(LitPart(x.lens, ev.hlit)) /\ LitPart(x.lens, ev.hlit)[256] > 0
  /\ LibAccepts(DistPart(x.lens, ev.hlit, ev.hdist))
  /\ DynAt(ev, x, LitPart(x.lens, ev.hlit), DistPart(x.lens, ev.hlit, ev.hdist),
           FieldsAt(bitpos, HeaderFields(ev.final, 2)
                            \o DynFields(ev.hlit, ev.hdist, ev.hclen, clf, RevCodes(Canon(clf), clf), ev.items), 1))
DynEv2(ev) ==
  /\ ev.hlit \in 257..286 /\ ev.hdist \in 1..30 /\ ev.hclen \in 4..19 /\ Len(ev.cl) = 19
  /\ \A k \in (ev.hclen + 1)..19 : ev.cl[ClOrder[k] + 1] = 0
  /\ \A i \in 1..Len(ev.items) :
        /\ ev.items[i][1] \in 0..18
        /\ ev.items[i][2] < Pow2(ItemExtraBits(ev.items[i][1]))
        /\ ev.cl[ev.items[i][1] + 1] > 0
  /\ DynEv3(ev, Expand(ev.items, 1, <<>>), ClFun(ev.cl))
DynEv == /\ IsEvent("Dyn") /\ phase = "hdr" /\ fin = 0
         /\ DynEv2(Rec[l])
         /\ fin' = Rec[l].final /\ phase' = "body"
         /\ UNCHANGED <<base, outpos>>

\* ---- tokens and end of block
TokAfter(r) == r.ok /\ bitpos' = r.p /\ outpos' = r.o
TokEv == /\ IsEvent("T") /\ phase = "body"
         /\ TokAfter(ToksAt(Rec[l].toks, 1, bitpos, outpos))
         /\ UNCHANGED <<base, phase, fin, lc, ll, dc, dl>>

EobAt(p) == p # NoMatch /\ bitpos' = p
EobEv == /\ IsEvent("Eob") /\ phase = "body"
         /\ EobAt(FieldsAt(bitpos, << EobField(lc, ll) >>, 1))
         /\ phase' = "hdr"
         /\ UNCHANGED <<base, outpos, fin, lc, ll, dc, dl>>

\* ---- end of stream.  C03: whenever zlib accepts too, plaintext and consumed agree
EndEv2(ev, padbits, r) ==
  /\ FieldAt(bitpos, F(ev.pad, padbits))
  /\ ev.consumed = (bitpos + padbits) \div 8
  /\ ev.consumed = Len(Bytes)
  /\ ev.plain_len = outpos /\ outpos = Len(Plain)
  /\ (r.zok => (r.zeq /\ r.zconsumed = ev.consumed))
EndEv == /\ IsEvent("End") /\ phase = "hdr" /\ fin = 1
         /\ EndEv2(Rec[l], (8 - (bitpos % 8)) % 8, Rec[base])
         /\ phase' = "idle"
         /\ UNCHANGED <<base, bitpos, outpos, fin, lc, ll, dc, dl>>

Next == Reset \/ Rejected \/ StoredEv \/ FixedEv \/ DynEv \/ TokEv \/ EobEv \/ EndEv
Spec == Init /\ [][Next]_vars

\* positions only move forward and stay inside the input
Monotone == bitpos <= 8 * Len(Rec[base].bytes) + 7 /\ outpos <= Len(Rec[base].plain)

Accepted ==
  LET d == TLCGet("stats").diameter IN
  IF d - 1 = Len(Rec) THEN TRUE
  ELSE /\ PrintT(<<"TRACE-REJECTED line", d, IF d <= Len(Rec) THEN ToJson([e |-> Rec[d].e]) ELSE "eof">>)
       /\ FALSE
=============================================================================
