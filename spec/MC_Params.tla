------------------------------ MODULE MC_Params ------------------------------
(***************************************************************************)
(* Every parameter vector of a boundary-valued sub-range of the estimator's*)
(* range: the header fits its fields and reads back (C08).  LimitMax is the*)
(* largest add-policy limit considered: 255 is what the estimator emits    *)
(* (after the fix); 257 is the pinned tree's range and must FAIL Fits -    *)
(* kept as the negative self-test of this model.                           *)
(***************************************************************************)
EXTENDS Params, TLC, Json
CONSTANTS LimitMax, Emit, Wide
VARIABLE p
Hashes == { <<1, 5, 32767>>, <<1, 4, 2047>>, <<2, 0, 0>>, <<3, 0, 0>>, <<4, 0, 0>>, <<5, 0, 0>>, <<6, 0, 0>>, <<7, 0, 0>> }
Policies == { <<0, 0>>, <<3, 0>>, <<4, 0>> } \cup { <<a, lim>> : a \in {1, 2}, lim \in {0, 1, 255, LimitMax} }
MinLenFor(h) == IF h \in {1, 2, 3, 6} THEN {3} ELSE {4, 258}
Vec(st, hs, zc, wb, h, mtc, d3, vf, ms, m, nice, chain, ml, pol) ==
  << st, hs, zc, wb, h[1], h[2], h[3], mtc, d3, vf, ms, m[1], m[2], nice, chain, ml, pol[1], pol[2] >>
NoDict == { << st, hs, 1, 0, 0, 0, 0, 16386, 0, 0, 0, 0, 0, 0, 0, 0, 0, 0 >> : st \in {2, 3}, hs \in 0..2 }
\* (the vectors are enumerated by quantification, not as one set: the wide range has more elements
\* than TLC is willing to hold in a set)
Init == \/ p \in NoDict
        \/ \E st \in {0, 1}, hs \in (IF Wide THEN {0, 2} ELSE {0}), zc \in {0, 1}, wb \in {9, 15}, h \in Hashes,
              mtc \in {127, 32767}, d3 \in (IF Wide THEN {0, 256, 32768} ELSE {0, 32768}),
              vf \in (IF Wide THEN {0, 1} ELSE {0}), ms \in {0, 1},
              m \in (IF Wide THEN { <<0, 0>>, <<4, 4>>, <<32, 258>> } ELSE { <<0, 0>>, <<32, 258>> }),
              nice \in {8, 258}, chain \in (IF Wide THEN {1, 256, 4096} ELSE {1, 4096}),
              pol \in Policies :
              \E ml \in MinLenFor(h[1]) : p = Vec(st, hs, zc, wb, h, mtc, d3, vf, ms, m, nice, chain, ml, pol)
Next == UNCHANGED p
Spec == Init /\ [][Next]_p
FitsWidths == Fits(p)
ReadsBack == RoundTrips(p)
InRange == InEstimatorRange(p) \/ p[18] > 255
Replay == Emit => PrintT(<<"REPLAY", ToJson([vec |-> p])>>)
=============================================================================
