----------------------------- MODULE Positions -----------------------------
(***************************************************************************)
(* The 16-bit position arithmetic of the hash tables (src/hash_chain.rs),  *)
(* which Match.tla abstracts away.  Positions are stored relative to a     *)
(* base (total_shift, initially -8 so that 0 can mean "end of chain");     *)
(* update_hash moves the base forward by Delta when the relative position  *)
(* of the token being entered has reached Thresh; iterate converts the     *)
(* position a search starts at (the current one, or the next one for the   *)
(* lazy search) with u16::try_from(..).unwrap().                           *)
(*                                                                         *)
(* The predictor alternates: a search at the current position (and, under  *)
(* the lazy rule, at the next one), then the token that really is there is *)
(* entered into the dictionary and the position advances by its length.    *)
(* NoOverflow: no conversion ever sees a value outside 0..65535.  With the *)
(* pinned constants (Thresh = 0xfe08, Delta = 0x7e00) the largest relative *)
(* position is Thresh - 1 + 258 + 1 = 65290.  The negative configuration   *)
(* Thresh = 0x10000 - 258 (a seeded change) overflows, and the first       *)
(* position at which it does is the critical position the harness plants   *)
(* a maximal match at (Critical below), whatever the threshold of the      *)
(* build under test is: it is the smallest start of a 258-byte token whose *)
(* successor's lazy search would be at relative position 65536, so it is   *)
(* inside the failing set of every threshold that has one.                 *)
(***************************************************************************)
EXTENDS Integers

CONSTANTS
  \* @type: Int;
  Thresh,
  \* @type: Int;
  Delta,
  \* @type: Int;
  MaxPos,
  \* @type: Set(Int);
  Lens

Start == -8
U16Max == 65535

VARIABLES
  \* @type: Int;
  pos,
  \* @type: Int;
  shift,
  \* @type: Str;
  phase
vars == <<pos, shift, phase>>

Init == pos = 0 /\ shift = Start /\ phase = "search"

Rel(p) == p - shift
\* searches at the current position (offset 0) and possibly at the next (offset 1)
Search == /\ phase = "search" /\ pos < MaxPos
          /\ phase' = "enter" /\ UNCHANGED <<pos, shift>>
\* update_hash(pos, len): reshift first if the threshold is reached, then the token's positions are entered
Enter == /\ phase = "enter"
         /\ \E len \in Lens :
              /\ shift' = IF Rel(pos) >= Thresh THEN shift + Delta ELSE shift
              /\ pos' = pos + len
         /\ phase' = "search"
Next == Search \/ Enter
Spec == Init /\ [][Next]_vars

\* every conversion to the 16-bit relative form
NoOverflow ==
  /\ (phase = "search" => Rel(pos) \in 0..U16Max /\ Rel(pos + 1) \in 0..U16Max)    \* iterate(.., 0 | 1)
  /\ (phase = "enter" => LET s2 == IF Rel(pos) >= Thresh THEN shift + Delta ELSE shift
                         IN pos - s2 \in 1..U16Max)                                  \* from_absolute in update_hash; 0 = end of chain
\* nothing inside the window is lost by a reshift: what a reshift drops (relative positions below
\* Delta) is further back than the largest distance the chain walk accepts
WindowKept == Thresh - Delta > 32768

\* ---- unbounded complement (Apalache): an inductive invariant over all positions and all
\* token lengths 1..258.  IndInit /\ Next => IndInv'  and  IndInv => NoOverflow.
IndInv == /\ phase \in {"search", "enter"}
          /\ Rel(pos) >= 8 /\ Rel(pos) <= Thresh - 1 + 258
IndInit == pos \in Int /\ shift \in Int /\ phase \in {"search", "enter"} /\ pos >= 0 /\ IndInv
ConstInit == Thresh = 65032 /\ Delta = 32256 /\ MaxPos = 2000000000 /\ Lens = 1..258
ConstInitLate == Thresh = 65278 /\ Delta = 32256 /\ MaxPos = 2000000000 /\ Lens = 1..258
=============================================================================
