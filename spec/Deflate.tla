------------------------------ MODULE Deflate ------------------------------
(***************************************************************************)
(* RFC 1951 transcribed: bit order, the length/distance tables, canonical  *)
(* Huffman code assignment, validity of code-length vectors, the dynamic   *)
(* block header with its run-length coding, and the exact field sequence   *)
(* every block and token serialises to.  Written from the RFC, not from    *)
(* the Rust tables, so that it can serve as the independent reference.     *)
(*                                                                         *)
(* A *field* is <<value, nbits, msb, rep>>: nbits bits of value, least     *)
(* significant bit first (msb = 0: header fields, extra bits, stored       *)
(* bytes) or most significant bit first (msb = 1: Huffman codes), repeated *)
(* rep times.  A stream is the concatenation of its fields' bits packed    *)
(* into bytes LSB first.                                                   *)
(*                                                                         *)
(* Tokens:  [k |-> "L", v |-> byte, l |-> 0, d |-> 0, irr |-> FALSE]       *)
(*          [k |-> "R", v |-> 0, l |-> len, d |-> dist, irr |-> BOOLEAN]   *)
(* irr = TRUE is the non-canonical coding of length 258 as symbol 284 with *)
(* extra value 31.                                                         *)
(***************************************************************************)
EXTENDS Naturals, Sequences, FiniteSets

Min(a, b) == IF a < b THEN a ELSE b
Max(a, b) == IF a > b THEN a ELSE b
Pow2(n) == <<1,2,4,8,16,32,64,128,256,512,1024,2048,4096,8192,16384,32768,65536>>[n + 1]

\* ---- section 3.2.5: index i = symbol - 256 for lengths, i = symbol + 1 for distances
LenBase   == <<3,4,5,6,7,8,9,10,11,13,15,17,19,23,27,31,35,43,51,59,67,83,99,115,131,163,195,227,258>>
LenExtra  == <<0,0,0,0,0,0,0,0,1,1,1,1,2,2,2,2,3,3,3,3,4,4,4,4,5,5,5,5,0>>
DistBase  == <<1,2,3,4,5,7,9,13,17,25,33,49,65,97,129,193,257,385,513,769,1025,1537,2049,3073,
               4097,6145,8193,12289,16385,24577>>
DistExtra == <<0,0,0,0,1,1,2,2,3,3,4,4,5,5,6,6,7,7,8,8,9,9,10,10,11,11,12,12,13,13>>
\* ---- section 3.2.7: order in which code lengths for the code length alphabet are sent
ClOrder   == <<16,17,18,0,8,7,9,6,10,5,11,4,12,3,13,2,14,1,15>>

\* canonical symbol index (1..29) for a match length 3..258, (1..30) for a distance 1..32768
LenIdx(len) == IF len = 258 THEN 29
               ELSE CHOOSE i \in 1..28 : LenBase[i] <= len /\ len < LenBase[i] + Pow2(LenExtra[i])
DistIdx(d) == CHOOSE i \in 1..30 : DistBase[i] <= d /\ d < DistBase[i] + Pow2(DistExtra[i])

\* ---- section 3.2.6: the fixed code
FixedLitLens  == [s \in 0..287 |-> IF s <= 143 THEN 8 ELSE IF s <= 255 THEN 9 ELSE IF s <= 279 THEN 7 ELSE 8]
FixedDistLens == [s \in 0..31 |-> 5]

(***************************************************************************)
(* Section 3.2.2: canonical code assignment.  L is a function 0..n-1 ->    *)
(* 0..15.  One pass over the symbols with a next-code register per length. *)
(***************************************************************************)
RECURSIVE CountLens(_, _, _, _)
CountLens(L, s, n, cnt) == IF s = n THEN cnt
                           ELSE CountLens(L, s + 1, n, [cnt EXCEPT ![L[s]] = @ + 1])
BlCount(L) == CountLens(L, 0, Cardinality(DOMAIN L), [b \in 0..15 |-> 0])

RECURSIVE FirstCodes(_, _, _, _)
FirstCodes(cnt, b, code, acc) ==
  IF b > 15 THEN acc
  ELSE FirstCodes(cnt, b + 1, (code + cnt[b]) * 2, [acc EXCEPT ![b] = code])
\* next_code[b] for b in 1..15 (bl_count[0] is taken as 0)
NextCode(cnt) == FirstCodes([cnt EXCEPT ![0] = 0], 1, 0, [b \in 0..15 |-> 0])

RECURSIVE AssignCodes(_, _, _, _, _)
AssignCodes(L, s, n, nc, acc) ==
  IF s = n THEN acc
  ELSE IF L[s] = 0 THEN AssignCodes(L, s + 1, n, nc, acc)
  ELSE AssignCodes(L, s + 1, n, [nc EXCEPT ![L[s]] = @ + 1], [acc EXCEPT ![s] = nc[L[s]]])
Canon(L) == AssignCodes(L, 0, Cardinality(DOMAIN L), NextCode(BlCount(L)), [s \in DOMAIN L |-> 0])

\* Kraft sum scaled by 2^15
RECURSIVE KraftFrom(_, _)
KraftFrom(cnt, b) == IF b > 15 THEN 0 ELSE cnt[b] * Pow2(15 - b) + KraftFrom(cnt, b + 1)
Kraft(L) == KraftFrom(BlCount(L), 1)
Complete(L)       == Kraft(L) = 32768
OverSubscribed(L) == Kraft(L) > 32768
UsedCount(L) == Cardinality({s \in DOMAIN L : L[s] > 0})

\* what zlib's inflate accepts for a literal/length or distance code: complete, or a
\* single code of length 1 (incomplete codes are otherwise rejected); and for lit/len
\* the end-of-block symbol must have a code
ZlibAccepts(L) == Complete(L) \/ (UsedCount(L) = 1 /\ \E s \in DOMAIN L : L[s] = 1)
\* what the library accepts (is_valid_huffman_code_lengths): complete only
LibAccepts(L) == Complete(L)

(***************************************************************************)
(* Fields                                                                  *)
(***************************************************************************)
F(v, n)      == <<v, n, 0, 1>>
C(code, n)   == <<code, n, 1, 1>>
Rep(v, n, r) == <<v, n, 0, r>>

RECURSIVE BitLen(_)
BitLen(fs) == IF fs = <<>> THEN 0 ELSE Head(fs)[2] * Head(fs)[4] + BitLen(Tail(fs))
\* (a field with msb = 2 is a run of rep bytes given in closed form by the generator)

RECURSIVE Flat(_)
Flat(ss) == IF ss = <<>> THEN <<>> ELSE Head(ss) \o Flat(Tail(ss))

Lit(b)            == [k |-> "L", v |-> b, l |-> 0, d |-> 0, irr |-> FALSE]
Ref(len, dist, i) == [k |-> "R", v |-> 0, l |-> len, d |-> dist, irr |-> i]
TokLen(t) == IF t.k = "L" THEN 1 ELSE t.l

\* literal/length symbol and distance symbol of a token
LitLenSym(t) == IF t.k = "L" THEN t.v ELSE 256 + (IF t.irr THEN 28 ELSE LenIdx(t.l))
DistSym(t) == DistIdx(t.d) - 1

\* the fields one token serialises to, under code tables (codes lc/dc, lengths ll/dl);
\* li / di are the length and distance table indices of the token
TokFieldsWith(t, li, di, lc, ll, dc, dl) ==
  IF t.k = "L" THEN << C(lc[t.v], ll[t.v]) >>
  ELSE << C(lc[256 + li], ll[256 + li]), F(t.l - LenBase[li], LenExtra[li]),
          C(dc[di - 1], dl[di - 1]), F(t.d - DistBase[di], DistExtra[di]) >>
TokFields(t, lc, ll, dc, dl) ==
  IF t.k = "L" THEN TokFieldsWith(t, 0, 0, lc, ll, dc, dl)
  ELSE TokFieldsWith(t, IF t.irr THEN 28 ELSE LenIdx(t.l), DistIdx(t.d), lc, ll, dc, dl)

EobField(lc, ll) == C(lc[256], ll[256])

BlockBody(toks, lc, ll, dc, dl) ==
  Flat([i \in 1..Len(toks) |-> TokFields(toks[i], lc, ll, dc, dl)]) \o << EobField(lc, ll) >>

HeaderFields(final, type) == << F(final, 1), F(type, 2) >>

\* stored block: padding to the byte boundary (pad bits with value padv), LEN, NLEN, bytes
StoredFields(padbits, padv, data) ==
  << F(padv, padbits), F(Len(data), 16), F(65535 - Len(data), 16) >>
  \o [i \in 1..Len(data) |-> F(data[i], 8)]

(***************************************************************************)
(* Section 3.2.7: the dynamic header.  items is the run-length coded list  *)
(* <<sym, x>>: sym 0..15 an explicit length (x = 0), 16 repeat previous    *)
(* length 3 + x times, 17 zeros 3 + x times, 18 zeros 11 + x times.        *)
(***************************************************************************)
ItemExtraBits(sym) == IF sym = 16 THEN 2 ELSE IF sym = 17 THEN 3 ELSE IF sym = 18 THEN 7 ELSE 0
ItemCount(it) == IF it[1] <= 15 THEN 1 ELSE IF it[1] = 18 THEN 11 + it[2] ELSE 3 + it[2]

DynFields(hlit, hdist, hclen, cl, cc, items) ==
   << F(hlit - 257, 5), F(hdist - 1, 5), F(hclen - 4, 4) >>
   \o [k \in 1..hclen |-> F(cl[ClOrder[k]], 3)]
   \o Flat([i \in 1..Len(items) |->
         << C(cc[items[i][1]], cl[items[i][1]]) >> \o
         (IF items[i][1] >= 16 THEN << F(items[i][2], ItemExtraBits(items[i][1])) >> ELSE <<>>)])

\* expansion of the item list into code lengths; "repeat previous" refers to the
\* previous *length* (which is 0 after a zero run) and is an error at the very start
RECURSIVE Expand(_, _, _)
ExpandOne(items, i, acc, it) ==
  IF it[1] <= 15 THEN Expand(items, i + 1, Append(acc, it[1]))
  ELSE IF it[1] = 16 THEN
       (IF acc = <<>> THEN [ok |-> FALSE, lens |-> acc]
        ELSE Expand(items, i + 1, acc \o [j \in 1..(3 + it[2]) |-> acc[Len(acc)]]))
  ELSE Expand(items, i + 1, acc \o [j \in 1..ItemCount(it) |-> 0])
Expand(items, i, acc) ==
  IF i > Len(items) THEN [ok |-> TRUE, lens |-> acc] ELSE ExpandOne(items, i, acc, items[i])

\* a well-formed dynamic header per RFC 1951 and zlib's inflate
LitPart(lens, hlit)  == [s \in 0..(hlit - 1) |-> lens[s + 1]]
DistPart(lens, hlit, hdist) == [s \in 0..(hdist - 1) |-> lens[hlit + s + 1]]
=============================================================================
