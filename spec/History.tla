------------------------------ MODULE History ------------------------------
(***************************************************************************)
(* Stored objects outlive builds.  A deployment runs the reference build,  *)
(* writes objects, is upgraded to the current build, and keeps reading old *)
(* objects (and writing new ones).  Every build declares format version    *)
(* numbers; Fmt[b] stands for everything that gives stored bytes their     *)
(* meaning in build b (field order and widths of the parameter header, the *)
(* context partition of the codec, the default block size, hash functions, *)
(* chain order, the Huffman length calculator's tie breaks, chunk tags,    *)
(* the IDAT descriptor ...).  A reader refuses data whose declared version *)
(* it does not know; otherwise it interprets the bytes with its own Fmt.   *)
(*                                                                         *)
(* C04 is NoSilentLoss: an object is either reproduced exactly or refused  *)
(* because the versions differ.  It holds for every history iff            *)
(*      Version[cur] = Version[ref]  =>  Fmt[cur] = Fmt[ref]               *)
(* The conformance check establishes the right-hand side observationally   *)
(* (reference build writes, current build reads, byte for byte) whenever   *)
(* the left-hand side holds.                                               *)
(***************************************************************************)
EXTENDS Naturals, Sequences, FiniteSets, TLC

CONSTANTS Inputs,        \* what gets stored
          MaxObjects,
          VersionCur, VersionRef, FmtCur, FmtRef

Builds == {"ref", "cur"}
Version(b) == IF b = "ref" THEN VersionRef ELSE VersionCur
Fmt(b)     == IF b = "ref" THEN FmtRef ELSE FmtCur

VARIABLES running,    \* the build deployed at the moment
          store,      \* sequence of objects [input, fmt, ver, by]
          reads       \* outcomes of reads: [obj, by, outcome]
vars == <<running, store, reads>>

Init == running = "ref" /\ store = <<>> /\ reads = {}

Write(i) == /\ Len(store) < MaxObjects
            /\ store' = Append(store, [input |-> i, fmt |-> Fmt(running), ver |-> Version(running), by |-> running])
            /\ UNCHANGED <<running, reads>>

Upgrade == running = "ref" /\ running' = "cur" /\ UNCHANGED <<store, reads>>

\* reading: refuse an unknown version, otherwise decode with the reader's own Fmt
Outcome(o, b) == IF o.ver # Version(b) THEN "refused"
                 ELSE IF o.fmt = Fmt(b) THEN "exact" ELSE "wrong"
Read(k) == /\ k \in 1..Len(store)
           /\ reads' = reads \cup {[obj |-> k, by |-> running, outcome |-> Outcome(store[k], running)]}
           /\ UNCHANGED <<running, store>>

Next == (\E i \in Inputs : Write(i)) \/ Upgrade \/ (\E k \in 1..MaxObjects : Read(k))
Spec == Init /\ [][Next]_vars

NoSilentLoss == \A r \in reads : r.outcome # "wrong"
\* a build always reads back what it wrote itself (what the 59 tests check)
SelfRoundTrip == \A r \in reads : store[r.obj].by = r.by => r.outcome = "exact"
=============================================================================
