---------------------------- MODULE MC_Positions ----------------------------
(***************************************************************************)
(* TLC side of Positions.tla: bounded exhaustive check and the printer of  *)
(* the critical positions (kept apart because Apalache type-checks every   *)
(* definition of a module it is given).                                    *)
(***************************************************************************)
EXTENDS Positions, TLC, Json
CONSTANT Emit
\* starts of a maximal token after which the lazy search / the plain search of the following
\* position sits exactly at relative position 65536, before the k-th reshift of the pinned tree
Critical == {p \in 1..MaxPos : \E off \in {0, 1}, k \in 0..3 : p + 258 + off - (Start + k * 32256) = 65536}
Replay == (Emit /\ pos = 0 /\ phase = "search") => PrintT(<<"REPLAY", ToJson([critical |-> Critical])>>)
=============================================================================
