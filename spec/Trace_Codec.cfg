SPECIFICATION Spec
INVARIANT RunAtMostOne
POSTCONDITION Accepted
CHECK_DEADLOCK FALSE
