----------------------------- MODULE Trace_Abi -----------------------------
(*  Reset run flen needed bound                                              *)
(*  Compress   cap status unwound rs_set rs guards valid                     *)
(*  Decompress cap need status unwound rs_set rs guards valid frame          *)
(*  Done                                                                     *)
(* frame: valid | garbage | frame-of-junk | truncated | empty | damaged (a   *)
(* container damaged after it was written; called in one process right       *)
(* before good calls, whose demands are the same as ever: field `after`).    *)
(* For compress, `needed` is the size zstd actually produced and success is  *)
(* only required from ZSTD_compressBound upwards (between the two either     *)
(* status is allowed, but 0 must be correct).                                *)
EXTENDS CAbi, TLC, Json, IOUtils
Rec == ndJsonDeserialize(IOEnv.TRACE)
VARIABLES l, base, phase, ok0
vars == <<l, base, phase, ok0>>
Init == l = 1 /\ base = 1 /\ phase = "idle" /\ ok0 = 0
IsEvent(e) == l <= Len(Rec) /\ Rec[l].e = e /\ l' = l + 1
Reset == IsEvent("Reset") /\ phase = "idle" /\ base' = l /\ phase' = "run" /\ ok0' = 0
Comp(c) == Demand(c.status, c.unwound, c.rs_set, c.rs, c.guards, c.valid, c.cap,
                  0, Rec[base].bound, TRUE)
           \* zstd may compress into less than `needed` never; below needed it cannot succeed
           /\ (c.cap < Rec[base].needed => c.status < 0)
CompEv == /\ IsEvent("Compress") /\ phase = "run" /\ Comp(Rec[l])
          /\ ok0' = ok0 + (IF Rec[l].status = 0 THEN 1 ELSE 0) /\ UNCHANGED <<base, phase>>
Dec(c) == IF c.frame = "damaged" THEN DemandDamaged(c.status, c.unwound, c.rs_set, c.rs, c.guards, c.cap)
          ELSE Demand(c.status, c.unwound, c.rs_set, c.rs, c.guards, c.valid, c.cap,
                      c.need, c.need, c.frame = "valid")
DecEv == /\ IsEvent("Decompress") /\ phase = "run" /\ Dec(Rec[l])
         /\ ok0' = ok0 + (IF Rec[l].status = 0 THEN 1 ELSE 0) /\ UNCHANGED <<base, phase>>
\* the round trip through both wrappers happened at least once per file
Done == IsEvent("Done") /\ phase = "run" /\ ok0 >= 2 /\ phase' = "idle" /\ UNCHANGED <<base, ok0>>
\* the child process running a sequence that starts with damaged containers was ended by its limits
Died == IsEvent("SequenceDied") /\ phase = "run" /\ UNCHANGED <<base, phase, ok0>>
Next == Reset \/ CompEv \/ DecEv \/ Died \/ Done
Spec == Init /\ [][Next]_vars
Accepted ==
  LET d == TLCGet("stats").diameter IN
  IF d - 1 = Len(Rec) THEN TRUE
  ELSE /\ PrintT(<<"TRACE-REJECTED line", d, IF d <= Len(Rec) THEN ToJson([e |-> Rec[d].e]) ELSE "eof">>)
       /\ FALSE
=============================================================================
