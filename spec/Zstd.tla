-------------------------------- MODULE Zstd --------------------------------
(***************************************************************************)
(* The zstd wrappers (compress_zstd / decompress_zstd) with zstd itself    *)
(* abstracted: a frame carries a content and knows its size; decompressing *)
(* with a capacity succeeds iff the input is a well-formed frame and the   *)
(* content fits.  compress_zstd(F) frames Expand(F); decompress_zstd       *)
(* unframes within the capacity and recreates.                             *)
(***************************************************************************)
EXTENDS Naturals, Sequences

\* inputs handed to decompress_zstd, relative to a file with expanded size `size`
FrameClasses == {"valid", "empty", "garbage", "truncated", "truncated-half", "cut", "raw-file",
                 "expanded-not-framed", "trailing-bytes", "bitflip"}      \* "cut": any proper prefix of the frame

\* what C11 demands of decompress_zstd(input, cap)
\*   "ok-equal"  must return Ok(F)
\*   "err"       must return Err
\*   "any"       nothing is demanded: a flipped bit can yield another valid frame (there is no
\*               content checksum) around a damaged container, and C11 speaks about capacity and
\*               about input that is not a frame, not about damaged containers
Demand(frame, cap, size) ==
  IF frame = "valid" THEN (IF cap >= size THEN "ok-equal" ELSE "err")
  ELSE IF frame = "bitflip" THEN "any"
  ELSE IF frame = "trailing-bytes" THEN "err-or-equal"     \* a frame followed by other bytes
  ELSE "err"

Satisfies(demand, result, equal) ==
  /\ (demand # "any" => result \in {"ok", "err"})  \* never a panic
  /\ demand = "ok-equal" => (result = "ok" /\ equal)
  /\ demand = "err" => result = "err"
  /\ demand = "err-or-equal" => (result = "err" \/ equal)
=============================================================================
