-------------------------- MODULE Gen_CodecSingles --------------------------
(* Enumerator: every single-correction sequence <<C(c, v)>> for v in Lo..Hi,  *)
(* c in Ctxs, with the bins the spec computes.  One REPLAY line per case.     *)
EXTENDS Codec, TLC, Json
CONSTANTS Lo, Hi, Ctxs
VARIABLE op
Init == op \in [k : {"C"}, c : Ctxs, v : Lo..Hi, n : {0}]
Next == UNCHANGED op
Spec == Init /\ [][Next]_op
Lossless == DecAll(EncAll(<<op>>, 0), <<op>>, 1, 0) = [ok |-> TRUE, ops |-> <<op>>]
Replay == PrintT(<<"REPLAY", ToJson([ops |-> <<op>>, bins |-> EncAll(<<op>>, 0)])>>)
=============================================================================
