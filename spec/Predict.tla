------------------------------- MODULE Predict -------------------------------
(***************************************************************************)
(* The analyser / reconstructor protocol of src/token_predictor.rs and     *)
(* src/process.rs as two processes and one channel of correction           *)
(* operations.                                                             *)
(*                                                                         *)
(*   A (predict_blocks / predict_block) walks the blocks of the parsed     *)
(*     stream, predicts every token and writes what is needed to correct   *)
(*     the prediction;                                                     *)
(*   R (recreate_blocks / recreate_block) has only the plaintext length    *)
(*     and the operations, repeats the predictions and applies the         *)
(*     corrections.                                                        *)
(* The matcher (hash chains over the plaintext) is an explicit oracle that *)
(* both sides consult: for every input position the environment fixes,     *)
(* when the position is first reached, the result of the match at the      *)
(* position (m0), of the lazy match one byte further (m1), and the chain   *)
(* of candidates (distance, match length) that calculate_hops / hop_match  *)
(* walk.  The protocol must be correct for EVERY such oracle: that is the  *)
(* model-level form of "reconstruction never depends on the parameters     *)
(* being right" (C08) and of the mirror property behind C02.               *)
(*                                                                         *)
(* Tokens: <<0, 0, 0, 0>> literal, <<1, len, dist, irr>> reference;        *)
(* lengths MinLen..MaxLen, MaxLen playing the part of 258 (the only length *)
(* that has a second spelling).  Operations as in Stream.tla.              *)
(***************************************************************************)
EXTENDS Stream, FiniteSets, TLC

CONSTANTS N,          \* plaintext length
          MaxBlocks,
          MaxTok,     \* the default token count of a block (max_token_count)
          MaxLen,     \* stands for 258
          MaxDist,
          Lazy,       \* matching type: lazy evaluation of the next position
          ZlibCompat, \* zlib_compatible: a deferred match is kept for the next token
          AKeepsPending  \* FALSE in the real code.  TRUE: the analyser (only) keeps a deferred match
                         \* across a block boundary - a negative self-test of this model

MinLen == 3
None == <<0, 0, 0, 0>>             \* "no match" / a literal
IsRef(t) == t[1] = 1
TLen(t) == IF IsRef(t) THEN t[2] ELSE 1

VARIABLES target,    \* the parsed stream: sequence of [type (0 stored, 1 huffman), toks, slen]
          orc,       \* oracle: position -> [m0, m1, chain], fixed at first use
          chan,      \* operations written by A
          a,         \* analyser state
          r,         \* reconstructor state
          out        \* blocks rebuilt by R
vars == <<target, orc, chan, a, r, out>>

(***************************************************************************)
(* Environment: all streams of at most MaxBlocks blocks over N bytes.      *)
(***************************************************************************)
Refs(pos, rem) == {<<1, l, d, i>> : l \in MinLen..MaxLen, d \in 1..MaxDist, i \in {0, 1}}
RefsAt(pos, rem) == {t \in Refs(pos, rem) : t[2] <= rem /\ t[3] <= pos /\ (t[4] = 1 => t[2] = MaxLen)}
RECURSIVE TokSeqs(_, _)
\* token sequences that cover exactly n bytes starting at position pos
TokSeqs(pos, n) ==
  IF n = 0 THEN {<<>>}
  ELSE {<<None>> \o s : s \in TokSeqs(pos + 1, n - 1)}
       \cup UNION {{<<t>> \o s : s \in TokSeqs(pos + t[2], n - t[2])} : t \in RefsAt(pos, n)}
RECURSIVE Streams(_, _, _)
\* sequences of at most k blocks covering n bytes from pos
Blocks(pos, m) == {[type |-> 0, toks |-> <<>>, slen |-> m]}
                  \cup {[type |-> 1, toks |-> s, slen |-> 0] : s \in TokSeqs(pos, m)}
Streams(pos, n, k) ==
  IF k = 0 THEN (IF n = 0 THEN {<<>>} ELSE {})
  ELSE (IF n = 0 THEN {<<>>} ELSE {})
       \cup UNION {UNION {{<<b>> \o s : s \in Streams(pos + m, n - m, k - 1)} : b \in Blocks(pos, m)} : m \in 0..n}
Targets == {s \in Streams(0, N, MaxBlocks) : Len(s) >= 1}

Unset == [m0 |-> <<9, 9, 9, 9>>, m1 |-> None, chain |-> <<>>]
\* what the matcher may answer at position p with rem bytes left
Cand(pos, rem, off) ==
  {None} \cup {<<1, l, d, 0>> : l \in MinLen..MaxLen, d \in 1..MaxDist}
\* chains: up to two candidates <<dist, matchlen>> in increasing distance
Chains == {<<>>} \cup {<< <<d, l>> >> : d \in 1..MaxDist, l \in MinLen..MaxLen}
          \cup {<< <<d1, l1>>, <<d2, l2>> >> : d1 \in 1..MaxDist, d2 \in 1..MaxDist, l1 \in MinLen..MaxLen, l2 \in MinLen..MaxLen}
ValidChain(c) == Len(c) < 2 \/ c[1][1] < c[2][1]

\* calculate_hops: how many candidates with a match of at least len come up to and
\* including the target's distance; 0 = the chain does not contain it (Err)
RECURSIVE CalcHopsFrom(_, _, _, _, _)
CalcHopsFrom(c, i, len, dist, hops) ==
  IF i > Len(c) THEN 0
  ELSE IF c[i][1] > dist THEN 0
  ELSE IF c[i][1] = dist THEN (IF c[i][2] >= len THEN hops + 1 ELSE 0)   \* (a real target always matches)
  ELSE CalcHopsFrom(c, i + 1, len, dist, IF c[i][2] >= len THEN hops + 1 ELSE hops)
CalcHops(c, len, dist) == CalcHopsFrom(c, 1, len, dist, 0)
\* hop_match: the distance of the hops-th candidate with a match of at least len; 0 = Err
RECURSIVE HopMatchFrom(_, _, _, _, _)
HopMatchFrom(c, i, len, hops, cur) ==
  IF i > Len(c) THEN 0
  ELSE IF c[i][2] >= len THEN (IF cur + 1 = hops THEN c[i][1] ELSE HopMatchFrom(c, i + 1, len, hops, cur + 1))
  ELSE HopMatchFrom(c, i + 1, len, hops, cur)
HopMatch(c, len, hops) == HopMatchFrom(c, 1, len, hops, 0)

Init ==
  /\ target \in Targets
  /\ orc = [p \in 0..N |-> Unset]
  /\ chan = <<>>
  /\ a = [st |-> "block", bi |-> 1, ti |-> 0, pos |-> 0, pend |-> None]
  /\ r = [st |-> "wait", rd |-> 1, ti |-> 0, pos |-> 0, pend |-> None, size |-> 0, type |-> 0]
  /\ out = <<>>

NB == Len(target)
RECURSIVE SumLens(_, _)
SumLens(ts, n) == IF n = 0 THEN 0 ELSE TLen(ts[n]) + SumLens(ts, n - 1)

\* ---- the oracle is fixed when a position is first consulted.  Components that cannot
\* influence anything at the position are normalised (no match / empty chain) to keep
\* the state space down: m1 only matters with lazy matching, the chain only where a
\* reference of the parsed stream starts.
RECURSIVE StartsIn(_, _, _, _)
StartsIn(ts, i, pos, p) == IF i > Len(ts) THEN FALSE
                           ELSE IF pos = p THEN IsRef(ts[i])
                           ELSE IF pos > p THEN FALSE ELSE StartsIn(ts, i + 1, pos + TLen(ts[i]), p)
RECURSIVE RefStartsAt(_, _, _)
RefStartsAt(bi, pos, p) ==
  IF bi > Len(target) THEN FALSE
  ELSE IF target[bi].type = 0 THEN RefStartsAt(bi + 1, pos + target[bi].slen, p)
  ELSE StartsIn(target[bi].toks, 1, pos, p)
       \/ RefStartsAt(bi + 1, pos + SumLens(target[bi].toks, Len(target[bi].toks)), p)
Fix(p) ==
  /\ orc[p] = Unset
  /\ \E m0 \in (IF p = 0 \/ N - p < MinLen THEN {None} ELSE Cand(p, N - p, 0)),
        m1 \in (IF Lazy /\ p > 0 /\ N - p > MinLen THEN Cand(p, N - p, 1) ELSE {None}),
        c \in (IF RefStartsAt(1, 0, p) THEN {x \in Chains : ValidChain(x)} ELSE {<<>>}) :
        orc' = [orc EXCEPT ![p] = [m0 |-> m0, m1 |-> m1, chain |-> c]]

(***************************************************************************)
(* predict_token, identical on both sides: state s = [pos, pend]           *)
(***************************************************************************)
Usable(m, pos) == IsRef(m) /\ m[2] <= N - pos /\ m[3] <= pos
Prediction(s) ==
  IF s.pos = 0 \/ N - s.pos < MinLen THEN [tok |-> None, pend |-> s.pend]      \* pending is not even looked at
  ELSE LET m == IF IsRef(s.pend) THEN s.pend ELSE orc[s.pos].m0 IN
       IF ~Usable(m, s.pos) THEN [tok |-> None, pend |-> None]
       ELSE IF Lazy /\ N - s.pos >= m[2] + 2 /\ Usable(orc[s.pos].m1, s.pos + 1) /\ orc[s.pos].m1[2] > m[2]
            THEN [tok |-> None, pend |-> IF ZlibCompat THEN orc[s.pos].m1 ELSE None]
       ELSE [tok |-> m, pend |-> None]
\* repredict_reference: the plain match at the position, deferred matches forgotten
Repredict(s) == IF s.pos = 0 \/ N - s.pos < MinLen \/ ~Usable(orc[s.pos].m0, s.pos) THEN None ELSE orc[s.pos].m0

(***************************************************************************)
(* A: predict_blocks / predict_block                                       *)
(***************************************************************************)
ABlk == target[a.bi]
ALast == a.bi = NB
Fail == a' = [a EXCEPT !.st = "err"] /\ UNCHANGED <<target, orc, chan, r, out>>

\* M(EOF, true) precedes a block when the input is already exhausted
EofFlag == IF a.pos = N THEN << M("EOFMisprediction", TRUE) >> ELSE <<>>
BlkRec(b) == [type |-> IF b.type = 0 THEN 0 ELSE 1, slen |-> b.slen, pad |-> 0, ntok |-> Len(b.toks)]

A_Block ==
  /\ a.st = "block"
  /\ chan' = chan \o EofFlag \o BlockStartOps(BlkRec(ABlk), ALast, MaxTok)
  /\ IF ABlk.type = 0
     THEN a' = [a EXCEPT !.pos = a.pos + ABlk.slen, !.pend = None, !.ti = 0,
                         !.st = IF ALast THEN "end" ELSE "block", !.bi = IF ALast THEN a.bi ELSE a.bi + 1]
     ELSE a' = [a EXCEPT !.pend = IF AKeepsPending THEN a.pend ELSE None, !.ti = 0,
                         !.st = IF Len(ABlk.toks) = 0 THEN "blockend" ELSE "tok"]
  /\ UNCHANGED <<target, orc, r, out>>

ATok == ABlk.toks[a.ti + 1]
\* the corrections for one token given the prediction p (see predict_block)
RefOps(pred, t, c) ==
  << C("LenCorrection", EncodeDiffT(pred[2], t[2])),
     IF pred[2] # t[2] THEN C("DistAfterLenCorrection", CalcHops(c, t[2], t[3]))
     ELSE IF pred[3] # t[3] THEN C("DistOnlyCorrection", CalcHops(c, t[2], t[3]))
     ELSE C("DistOnlyCorrection", 0) >>
  \o (IF t[2] = MaxLen THEN << M("IrregularLen258", t[4] = 1) >> ELSE <<>>)
NeedsHops(pred, t) == pred[2] # t[2] \/ pred[3] # t[3]

A_Token ==
  /\ a.st = "tok" /\ orc[a.pos] # Unset
  /\ LET p == Prediction(a)
         t == ATok
     IN IF ~IsRef(t) THEN
           /\ chan' = Append(chan, IF IsRef(p.tok) THEN M("ReferencePredictionWrong", TRUE) ELSE M("LiteralPredictionWrong", FALSE))
           /\ a' = [a EXCEPT !.pos = a.pos + 1, !.ti = a.ti + 1, !.pend = p.pend,
                             !.st = IF a.ti + 1 = Len(ABlk.toks) THEN "blockend" ELSE "tok"]
           /\ UNCHANGED <<target, orc, r, out>>
        ELSE LET pr == IF IsRef(p.tok) THEN p.tok ELSE Repredict(a) IN
           IF ~IsRef(pr) THEN Fail                                   \* MatchNotFound / not enough space
           ELSE IF NeedsHops(pr, t) /\ CalcHops(orc[a.pos].chain, t[2], t[3]) = 0 THEN Fail
           ELSE /\ chan' = chan \o << IF IsRef(p.tok) THEN M("ReferencePredictionWrong", FALSE) ELSE M("LiteralPredictionWrong", TRUE) >>
                               \o RefOps(pr, t, orc[a.pos].chain)
                /\ a' = [a EXCEPT !.pos = a.pos + t[2], !.ti = a.ti + 1, !.pend = None,
                                  !.st = IF a.ti + 1 = Len(ABlk.toks) THEN "blockend" ELSE "tok"]
                /\ UNCHANGED <<target, orc, r, out>>

A_BlockEnd ==
  /\ a.st = "blockend"
  /\ a' = [a EXCEPT !.st = IF ALast THEN "end" ELSE "block", !.bi = IF ALast THEN a.bi ELSE a.bi + 1]
  /\ UNCHANGED <<target, orc, chan, r, out>>

\* encode_mispredictions: after the last block (the analyser asserts that the input is used up)
A_End ==
  /\ a.st = "end" /\ a.pos = N
  /\ chan' = chan \o << M("EOFMisprediction", FALSE), C("NonZeroPadding", 0) >>
  /\ a' = [a EXCEPT !.st = "done"]
  /\ r' = [r EXCEPT !.st = "start"]
  /\ UNCHANGED <<target, orc, out>>

(***************************************************************************)
(* R: recreate_blocks / recreate_block, reading chan                       *)
(***************************************************************************)
Op == chan[r.rd]
HasOp == r.rd <= Len(chan)
RFail == r' = [r EXCEPT !.st = "err"] /\ UNCHANGED <<target, orc, chan, a, out>>

\* is_eof = input_eof && !decode_misprediction(EOF)
R_EofCheck ==
  /\ r.st \in {"start", "after"}
  /\ IF r.pos = N
     THEN IF ~HasOp \/ Op[1] # "M" \/ Op[2] # "EOFMisprediction" THEN RFail
          ELSE /\ r' = [r EXCEPT !.rd = r.rd + 1, !.st = IF Op[3] = 1 THEN "block" ELSE "final"]
               /\ UNCHANGED <<target, orc, chan, a, out>>
     ELSE r' = [r EXCEPT !.st = "block"] /\ UNCHANGED <<target, orc, chan, a, out>>

R_Block ==
  /\ r.st = "block"
  /\ IF ~HasOp \/ Op[2] # "BlockTypeCorrection" THEN RFail
     ELSE IF Op[3] = EncodeDiffT(0, 1) THEN                        \* stored
          (IF r.rd + 2 > Len(chan) \/ chan[r.rd + 1][1] # "V" \/ chan[r.rd + 2][2] # "NonZeroPadding"
                \/ r.pos + chan[r.rd + 1][3] > N THEN RFail
           ELSE /\ out' = Append(out, [type |-> 0, toks |-> <<>>, slen |-> chan[r.rd + 1][3]])
                /\ r' = [r EXCEPT !.rd = r.rd + 3, !.pos = r.pos + chan[r.rd + 1][3], !.pend = None, !.st = "after"]
                /\ UNCHANGED <<target, orc, chan, a>>)
     ELSE IF Op[3] \notin {0, EncodeDiffT(0, 2)} THEN RFail
     ELSE (IF r.rd + 1 > Len(chan) \/ chan[r.rd + 1][2] # "TokenCount" THEN RFail
           ELSE /\ r' = [r EXCEPT !.rd = r.rd + 2, !.ti = 0, !.pend = None, !.st = "tok", !.type = 1,
                                  !.size = IF chan[r.rd + 1][3] = 0 THEN MaxTok ELSE chan[r.rd + 1][3] - 1]
                /\ out' = Append(out, [type |-> 1, toks |-> <<>>, slen |-> 0])
                /\ UNCHANGED <<target, orc, chan, a>>)

Emit(t) == out' = [out EXCEPT ![Len(out)].toks = Append(@, t)]

\* one iteration of: while !input_eof && current_token_count < blocksize
R_Token ==
  /\ r.st = "tok"
  /\ IF r.pos = N \/ r.ti >= r.size
     THEN r' = [r EXCEPT !.st = "after"] /\ UNCHANGED <<target, orc, chan, a, out>>
     ELSE /\ orc[r.pos] # Unset
          /\ LET p == Prediction(r) IN
             IF ~HasOp \/ Op[1] # "M" THEN RFail
             ELSE IF ~IsRef(p.tok) /\ Op[2] = "LiteralPredictionWrong" /\ Op[3] = 0 THEN
                     /\ Emit(None) /\ r' = [r EXCEPT !.rd = r.rd + 1, !.pos = r.pos + 1, !.ti = r.ti + 1, !.pend = p.pend]
                     /\ UNCHANGED <<target, orc, chan, a>>
             ELSE IF IsRef(p.tok) /\ Op[2] = "ReferencePredictionWrong" /\ Op[3] = 1 THEN
                     /\ Emit(None) /\ r' = [r EXCEPT !.rd = r.rd + 1, !.pos = r.pos + 1, !.ti = r.ti + 1, !.pend = p.pend]
                     /\ UNCHANGED <<target, orc, chan, a>>
             ELSE IF (IsRef(p.tok) /\ Op[2] = "ReferencePredictionWrong" /\ Op[3] = 0)
                     \/ (~IsRef(p.tok) /\ Op[2] = "LiteralPredictionWrong" /\ Op[3] = 1) THEN
                  LET pr == IF IsRef(p.tok) THEN p.tok ELSE Repredict(r) IN
                  IF ~IsRef(pr) \/ r.rd + 2 > Len(chan) \/ chan[r.rd + 1][2] # "LenCorrection" THEN RFail
                  ELSE LET x == chan[r.rd + 1][3]
                           newlen == IF x % 2 = 0 THEN pr[2] - (x \div 2) ELSE pr[2] + (x \div 2)
                           h == chan[r.rd + 2]
                       IN IF x % 2 = 0 /\ (x \div 2) > pr[2] THEN RFail
                          ELSE IF newlen # pr[2] /\ h[2] # "DistAfterLenCorrection" THEN RFail
                          ELSE IF newlen = pr[2] /\ h[2] # "DistOnlyCorrection" THEN RFail
                          ELSE LET dist == IF newlen # pr[2] \/ h[3] # 0
                                           THEN HopMatch(orc[r.pos].chain, newlen, h[3]) ELSE pr[3]
                                   irrAt == r.rd + 3
                               IN IF dist = 0 \/ newlen > N - r.pos THEN RFail
                                  ELSE IF newlen = MaxLen /\ (irrAt > Len(chan) \/ chan[irrAt][2] # "IrregularLen258") THEN RFail
                                  ELSE /\ Emit(<<1, newlen, dist, IF newlen = MaxLen THEN chan[irrAt][3] ELSE 0>>)
                                       /\ r' = [r EXCEPT !.rd = r.rd + 3 + (IF newlen = MaxLen THEN 1 ELSE 0),
                                                         !.pos = r.pos + newlen, !.ti = r.ti + 1, !.pend = None]
                                       /\ UNCHANGED <<target, orc, chan, a>>
             ELSE RFail

\* decode_mispredictions: the padding of the last byte
R_Final ==
  /\ r.st = "final"
  /\ IF ~HasOp \/ Op[2] # "NonZeroPadding" THEN RFail
     ELSE r' = [r EXCEPT !.rd = r.rd + 1, !.st = "done"] /\ UNCHANGED <<target, orc, chan, a, out>>

FixNeeded == \/ (a.st = "tok" /\ orc[a.pos] = Unset /\ Fix(a.pos))
             \/ (r.st = "tok" /\ r.pos < N /\ orc[r.pos] = Unset /\ Fix(r.pos))
Next == \/ (FixNeeded /\ UNCHANGED <<target, chan, a, r, out>>)
        \/ A_Block \/ A_Token \/ A_BlockEnd \/ A_End
        \/ R_EofCheck \/ R_Block \/ R_Token \/ R_Final
Spec == Init /\ [][Next]_vars /\ WF_vars(Next)

----------------------------------------------------------------------------
\* C02 / C08: whatever the matcher answers, R never gets stuck on what A wrote ...
ProtocolSync == r.st # "err"
\* ... it restores exactly the parsed stream ...
Restored == r.st = "done" => (out = target /\ r.rd = Len(chan) + 1 /\ r.pos = N)
\* ... and hop counting is inverted by hop matching on the same chain
HopsInvert == \A p \in 0..N : orc[p] # Unset =>
                 \A i \in 1..Len(orc[p].chain) :
                    LET d == orc[p].chain[i][1]  l == orc[p].chain[i][2] IN
                    CalcHops(orc[p].chain, l, d) > 0 /\ HopMatch(orc[p].chain, l, CalcHops(orc[p].chain, l, d)) = d
\* every token's operations are the ones Stream.tla allows (ties this model to the trace validator)
Finishes == <>(a.st = "err" \/ r.st = "done" \/ r.st = "err")
=============================================================================
