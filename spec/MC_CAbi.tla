------------------------------ MODULE MC_CAbi ------------------------------
(***************************************************************************)
(* Memory model of one wrapper call: cells -Guard..cap+Guard-1, the output *)
(* slice is exactly 0..cap-1.  The implementation writes through the slice *)
(* (WriteOut is only enabled inside it), sets result_size only on success. *)
(* Checks that every terminal state satisfies CAbi!Demand.                 *)
(***************************************************************************)
EXTENDS CAbi, TLC
CONSTANTS Needed, Bound, Caps
VARIABLES cap, inner, mem, rs, rsSet, status, pc, wrote
vars == <<cap, inner, mem, rs, rsSet, status, pc, wrote>>
Cells == (0 - Guard)..(cap + Guard - 1)
Init == /\ cap \in Caps /\ inner \in {"Ok", "Err", "Panic"}
        /\ mem = [i \in (0 - Guard)..(cap + Guard - 1) |-> "canary"]
        /\ rs = 0 /\ rsSet = FALSE /\ status = 99 /\ pc = "body" /\ wrote = 0
\* the library writes output cell by cell through the caller's slice; with too small a
\* buffer the zstd / cursor step fails after filling what fits
WriteOut == /\ pc = "body" /\ inner = "Ok" /\ wrote < Needed /\ wrote < cap
            /\ mem' = [mem EXCEPT ![wrote] = "out"] /\ wrote' = wrote + 1
            /\ UNCHANGED <<cap, inner, rs, rsSet, status, pc>>
Finish == /\ pc = "body"
          /\ \/ /\ inner = "Ok" /\ wrote = Needed          \* everything fitted
                /\ rs' = Needed /\ rsSet' = TRUE /\ status' = 0
             \/ /\ inner = "Ok" /\ wrote < Needed /\ wrote = cap   \* buffer full: the writer fails
                /\ status' = 0 - 1 /\ UNCHANGED <<rs, rsSet>>
             \/ /\ inner = "Err" /\ status' = 0 - 1 /\ UNCHANGED <<rs, rsSet>>
             \/ /\ inner = "Panic" /\ status' = 0 - 2 /\ UNCHANGED <<rs, rsSet>>   \* caught by catch_unwind
          /\ pc' = "ret" /\ UNCHANGED <<cap, inner, mem, wrote>>
Next == WriteOut \/ Finish
Spec == Init /\ [][Next]_vars
GuardsIntact == \A i \in DOMAIN mem : (i < 0 \/ i >= cap) => mem[i] = "canary"
Meets == pc = "ret" =>
   Demand(status, FALSE, rsSet, rs, GuardsIntact, status = 0 => wrote = Needed, cap, Needed, Bound, inner = "Ok")
=============================================================================
