---------------------------- MODULE TreePredict ----------------------------
(***************************************************************************)
(* The dynamic-header sub-protocol (src/tree_predictor.rs).  The code      *)
(* lengths a zlib-like encoder would have chosen for the block's symbol    *)
(* frequencies are an oracle here (logged by the hook: pl, pd, ptc); what  *)
(* is transcribed is everything that is part of the stored format: how the *)
(* run-length item for the next position is predicted, and which           *)
(* corrections are emitted.  Items are <<type, data>> with type 0 (explicit*)
(* length, data = the length), 16 (repeat, data = count), 17 / 18 (zeros). *)
(***************************************************************************)
EXTENDS Naturals, Sequences

EncodeDiffT(pred, act) == IF pred >= act THEN (pred - act) * 2 ELSE (act - pred) * 2 + 1
MinT(a, b) == IF a < b THEN a ELSE b
ClOrderT == <<16,17,18,0,8,7,9,6,10,5,11,4,12,3,13,2,14,1,15>>

\* length of the run of v in syms starting at index i, looking at most lim symbols
RECURSIVE RunOf(_, _, _, _)
RunOf(syms, i, v, lim) == IF lim = 0 \/ i > Len(syms) \/ syms[i] # v THEN 0 ELSE 1 + RunOf(syms, i + 1, v, lim - 1)

\* predict_code_type: prev is the first symbol of the previous item's span, or 99 (none)
PredictCodeType(syms, i, prev) ==
  IF syms[i] = 0 THEN
     (IF RunOf(syms, i, 0, 11) >= 11 THEN 18 ELSE IF RunOf(syms, i, 0, 11) >= 3 THEN 17 ELSE 0)
  ELSE IF prev # 99 THEN (IF RunOf(syms, i, prev, 3) >= 3 THEN 16 ELSE 0)
  ELSE 0

\* predict_code_data for the *target* type: the count starts at the minimum for the
\* type (the first symbols of the span are not looked at) and extends while it matches
Extend(syms, i, v, from, max) == from + RunOf(syms, i + from, v, IF max > from THEN max - from ELSE 0)
PredictCodeData(syms, i, type) ==
  IF type = 0 THEN syms[i]
  ELSE IF type = 16 THEN Extend(syms, i, syms[i], 3, MinT(Len(syms) - i + 1, 6))
  ELSE IF type = 17 THEN Extend(syms, i, 0, 3, MinT(Len(syms) - i + 1, 10))
  ELSE Extend(syms, i, 0, 11, MinT(Len(syms) - i + 1, 138))

Resize(v, n) == [j \in 1..n |-> IF j <= Len(v) THEN v[j] ELSE 0]

C(ctx, v) == <<"C", ctx, v, 0>>
M(ctx, b) == <<"M", ctx, IF b THEN 1 ELSE 0, 0>>
Vl(v, n)  == <<"V", "", v, n>>

\* corrections for the items, walking the predicted lengths
RECURSIVE ItemOps(_, _, _, _, _)
ItemOps(syms, items, k, i, prev) ==
  IF k > Len(items) THEN <<>>
  ELSE LET t == items[k][1]  d == items[k][2] IN
       << C("LDTypeCorrection", EncodeDiffT(PredictCodeType(syms, i, prev), t)),
          C(IF t = 0 THEN "LDBitLengthCorrection" ELSE "RepeatCountCorrection",
            EncodeDiffT(PredictCodeData(syms, i, t), d)) >>
       \o ItemOps(syms, items, k + 1, i + (IF t = 0 THEN 1 ELSE d), syms[i])

\* calc_tc_lengths_without_trailing_zeros: entries the order table refers to beyond the
\* end of the predicted vector count as zero
At(v, idx0) == IF idx0 + 1 <= Len(v) THEN v[idx0 + 1] ELSE 0
RECURSIVE TcLen(_, _)
TcLen(ptc, len) == IF len > 4 /\ At(ptc, ClOrderT[len]) = 0 THEN TcLen(ptc, len - 1) ELSE len

TreeOps(b) ==
  LET lits == Resize(b.pl, b.hlit)
      dists == Resize(b.pd, b.hdist)
      syms == lits \o dists
  IN    << M("LiteralCountMisprediction", Len(b.pl) # b.hlit) >>
     \o (IF Len(b.pl) # b.hlit THEN << Vl(b.hlit - 257, 5) >> ELSE <<>>)
     \o << M("DistanceCountMisprediction", Len(b.pd) # b.hdist) >>
     \o (IF Len(b.pd) # b.hdist THEN << Vl(b.hdist - 1, 5) >> ELSE <<>>)
     \o ItemOps(syms, b.items, 1, 1, 99)
     \o << M("TreeCodeCountMisprediction", TcLen(b.ptc, Len(b.ptc)) # b.hclen) >>
     \o (IF TcLen(b.ptc, Len(b.ptc)) # b.hclen THEN << Vl(b.hclen - 4, 4) >> ELSE <<>>)
     \o [k \in 1..b.hclen |-> C("TreeCodeBitLengthCorrection",
                                  EncodeDiffT(At(b.ptc, ClOrderT[k]), b.cl[ClOrderT[k] + 1]))]
=============================================================================
