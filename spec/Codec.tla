------------------------------- MODULE Codec -------------------------------
(***************************************************************************)
(* The correction codec of src/cabac_codec.rs, at the level of the bins    *)
(* (context, bit) that are handed to the arithmetic coder.                  *)
(*                                                                         *)
(* Operations (uniform records so that TLC can compare them):              *)
(*   [k |-> "V", c |-> 0,   v |-> value, n |-> width]   encode_value       *)
(*   [k |-> "M", c |-> ctx, v |-> 0/1,   n |-> 0]       encode_mispred.    *)
(*   [k |-> "C", c |-> ctx, v |-> value, n |-> 0]       encode_correction  *)
(*                                                                         *)
(* A bin is <<array, k, idx, bit>> where array is one of                   *)
(*   "byp"  bypass (no context)                                            *)
(*   "def"  default_encoding[idx]       "defb" default_encoding_nbits[idx] *)
(*   "c"    correction[k][idx]          "cb"   correction_bits[k][idx]     *)
(* The arithmetic coder is abstracted as a FIFO of bins that hands back    *)
(* the written bit iff the reader presents the same context (this is the   *)
(* contract the cabac crate's DebugWriter/DebugReader check).              *)
(*                                                                         *)
(* The spec says what the code does, not what one might wish: the encoder  *)
(* flushes the default run before *every* operation, so a run never        *)
(* exceeds 1 on the write side although the reader accepts any run; the    *)
(* misprediction context does not influence the coding at all.             *)
(***************************************************************************)
EXTENDS Naturals, Sequences

Min(a, b) == IF a < b THEN a ELSE b

RECURSIVE BitLength(_)
BitLength(v) == IF v = 0 THEN 0 ELSE 1 + BitLength(v \div 2)

RECURSIVE P2(_)
P2(n) == IF n = 0 THEN 1 ELSE 2 * P2(n - 1)

BitAt(v, i) == (v \div P2(i)) % 2

DefaultArraySize == 16      \* default_encoding, default_encoding_nbits
CorrArraySize    == 8       \* correction[k], correction_bits[k]

\* put_unary_encoded(bl, ctx[A]): bl ones then a zero, context index min(A-1, i)
Unary(bl, arr, k, A) ==
  [i \in 1..(bl + 1) |-> <<arr, k, Min(A - 1, i - 1), IF i - 1 # bl THEN 1 ELSE 0>>]

\* put_n_bits(v, nb, ctx[A]): bits nb-1 .. 0, context index min(A-1, bit position)
NBits(v, nb, arr, k, A) ==
  [j \in 1..nb |-> <<arr, k, Min(A - 1, nb - j), BitAt(v, nb - j)>>]

\* write_exp_encoded: unary bit length, then the bits below the leading one
ExpBL(v, bl, arr, arrb, k, A) ==
  Unary(bl, arr, k, A) \o (IF bl > 1 THEN NBits(v, bl - 1, arrb, k, A) ELSE <<>>)
Exp(v, arr, arrb, k, A) == ExpBL(v, BitLength(v), arr, arrb, k, A)

\* write_bypass: most significant bit first
Bypass(v, n) == [j \in 1..n |-> <<"byp", 0, 0, BitAt(v, n - j)>>]

WriteDefault(dc) == Exp(dc, "def", "defb", 0, DefaultArraySize)
Flush(dc) == IF dc > 0 THEN WriteDefault(dc) ELSE <<>>

(***************************************************************************)
(* Encoder: one operation; dc is default_count before the call.            *)
(***************************************************************************)
EncOp(op, dc) ==
  IF op.k = "V" THEN [bins |-> Flush(dc) \o Bypass(op.v, op.n), dc |-> 0]
  ELSE IF op.k = "M" THEN
     (IF op.v # 0 THEN [bins |-> Flush(dc) \o WriteDefault(0), dc |-> 0]
                  ELSE [bins |-> Flush(dc), dc |-> 1])
  ELSE (IF op.v # 0
        THEN [bins |-> Flush(dc) \o WriteDefault(0)
                        \o Exp(op.v, "c", "cb", op.c, CorrArraySize), dc |-> 0]
        ELSE [bins |-> Flush(dc), dc |-> 1])

EncFinish(dc) == Flush(dc)

(***************************************************************************)
(* Decoder over a bin sequence with a read pointer.  Reading a bin with a  *)
(* context other than the one it was written with is a failure (Bad).      *)
(***************************************************************************)
Bad == [ok |-> FALSE, v |-> 0, rd |-> 0]
Good(v, rd) == [ok |-> TRUE, v |-> v, rd |-> rd]

CtxIs(b, arr, k, idx) == b[1] = arr /\ b[2] = k /\ b[3] = idx

RECURSIVE ReadUnary(_, _, _, _, _, _)
ReadUnary(bins, rd, arr, k, A, val) ==
  IF rd > Len(bins) THEN Bad
  ELSE IF ~CtxIs(bins[rd], arr, k, Min(A - 1, val)) THEN Bad
  ELSE IF bins[rd][4] = 0 THEN Good(val, rd + 1)
  ELSE IF val >= 40 THEN Bad
  ELSE ReadUnary(bins, rd + 1, arr, k, A, val + 1)

RECURSIVE ReadN(_, _, _, _, _, _, _)
ReadN(bins, rd, arr, k, A, i, acc) ==          \* i counts down from nb-1 to 0
  IF rd > Len(bins) THEN Bad
  ELSE IF ~CtxIs(bins[rd], arr, k, Min(A - 1, i)) THEN Bad
  ELSE IF i = 0 THEN Good(acc + bins[rd][4], rd + 1)
  ELSE ReadN(bins, rd + 1, arr, k, A, i - 1, acc + bins[rd][4] * P2(i))

ReadExp3(r, bl) == IF ~r.ok THEN Bad ELSE Good(r.v + P2(bl - 1), r.rd)
ReadExp2(bins, u, arrb, k, A) ==
  IF ~u.ok THEN Bad
  ELSE IF u.v <= 1 THEN u
  ELSE IF u.v > 31 THEN Bad
  ELSE ReadExp3(ReadN(bins, u.rd, arrb, k, A, u.v - 2, 0), u.v)
ReadExp(bins, rd, arr, arrb, k, A) ==
  ReadExp2(bins, ReadUnary(bins, rd, arr, k, A, 0), arrb, k, A)

RECURSIVE ReadBypass(_, _, _, _)
ReadBypass(bins, rd, n, acc) ==
  IF n = 0 THEN Good(acc, rd)
  ELSE IF rd > Len(bins) THEN Bad
  ELSE IF bins[rd][1] # "byp" THEN Bad
  ELSE ReadBypass(bins, rd + 1, n - 1, acc * 2 + bins[rd][4])

\* result of decoding one operation: [ok, v, rd, dc]
BadOp == [ok |-> FALSE, v |-> 0, rd |-> 0, dc |-> 0]
OkOp(v, rd, dc) == [ok |-> TRUE, v |-> v, rd |-> rd, dc |-> dc]

NeedDefault(bins, rd, dc) ==
  IF dc = 0 THEN ReadExp(bins, rd, "def", "defb", 0, DefaultArraySize) ELSE Good(dc, rd)

DecCorr(r) == IF ~r.ok THEN BadOp ELSE OkOp(r.v, r.rd, 0)
DecMC(bins, op, d) ==      \* d: the default count available, after reading one if needed
  IF ~d.ok THEN BadOp
  ELSE IF d.v > 0 THEN OkOp(0, d.rd, d.v - 1)
  ELSE IF op.k = "M" THEN OkOp(1, d.rd, 0)
  ELSE DecCorr(ReadExp(bins, d.rd, "c", "cb", op.c, CorrArraySize))
\* decode_value asserts default_count = 0
DecVal(dc, r) == IF (~r.ok) \/ dc # 0 THEN BadOp ELSE OkOp(r.v, r.rd, 0)

\* op supplies kind, context and width; its v field is ignored
DecOp(bins, op, rd, dc) ==
  IF op.k = "V" THEN DecVal(dc, ReadBypass(bins, rd, op.n, 0))
  ELSE DecMC(bins, op, NeedDefault(bins, rd, dc))

(***************************************************************************)
(* Whole-sequence forms (used by generators and by other modules).         *)
(***************************************************************************)
RECURSIVE EncAll(_, _)
EncAllStep(ops, r) == r.bins \o EncAll(Tail(ops), r.dc)
EncAll(ops, dc) == IF ops = <<>> THEN EncFinish(dc) ELSE EncAllStep(ops, EncOp(Head(ops), dc))

RECURSIVE DecAll(_, _, _, _)
DecAllJoin(op, r, rest) == [ok |-> rest.ok, ops |-> <<[op EXCEPT !.v = r.v]>> \o rest.ops]
DecAllStep(bins, ops, r) ==
  IF ~r.ok THEN [ok |-> FALSE, ops |-> <<>>]
  ELSE DecAllJoin(Head(ops), r, DecAll(bins, Tail(ops), r.rd, r.dc))
DecAll(bins, ops, rd, dc) ==
  IF ops = <<>> THEN [ok |-> rd = Len(bins) + 1 /\ dc = 0, ops |-> <<>>]
  ELSE DecAllStep(bins, ops, DecOp(bins, Head(ops), rd, dc))

\* difference coding used for corrections relative to a prediction
EncodeDiff(pred, act) == IF pred >= act THEN (pred - act) * 2 ELSE (act - pred) * 2 + 1
DecodeDiff(pred, enc) == IF enc % 2 = 0 THEN pred - (enc \div 2) ELSE pred + (enc \div 2)
=============================================================================
