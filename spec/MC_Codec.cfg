SPECIFICATION Spec
CONSTANTS N = 3
          Emit = FALSE
INVARIANTS DecodedIsPrefix ContextsAgree AllConsumed RunAtMostOne WholeAgrees
CHECK_DEADLOCK FALSE
